(* C12 — serialization at function level: RV_::save / RV_::load (Model/Machine.v) over the bit stream
   (Model/BitStream.v), for every configuration with 1 <= c_n cfg <= 255.
     save_length, save_le_2_bytes, save_pure        the buffer has exactly the declared capacity
     save_read_active / save_read_inactive          what the two fields of a saved buffer read back as
     save_canonical                                 equal buffers <-> equal active ids
     load_save_spec                                 load of a saved buffer, with the bit stream eliminated
     load_buffer_in_contract                        a saved buffer satisfies buf_ok (load's in-contract condition) *)
From Coq Require Import List Arith Bool NArith Lia ZArith.
Require Import ZifyBool ZifyN ZifyNat.
From FFSM2 Require Import Model.TaskList Model.Plan Model.Bits Model.BitStream Model.Machine
                          Proofs.BitsProofs Proofs.BitStreamProofs.
Import ListNotations.
Ltac Zify.zify_post_hook ::= Z.div_mod_to_equations.
Local Open Scope N_scope.

(* ---- small facts about the stream that hold without any contract ---- *)

Lemma write_loop_length : forall fuel buf c item w,
  length (fst (write_loop fuel buf c item w)) = length buf.
Proof.
  induction fuel as [|f IH]; intros buf c item w; cbn [write_loop]; [reflexivity|].
  destruct (w =? 0); [reflexivity|].
  unfold write_chunk. cbv beta iota zeta. rewrite IH. unfold bset. apply bset_nat_length.
Qed.

(* write<W> never changes the size of the buffer, whatever the cursor, width and item *)
Lemma write_length buf c w v : length (fst (write buf c w v)) = length buf.
Proof. unfold write. apply write_loop_length. Qed.

(* read<W> advances the cursor by exactly W, whatever the buffer holds *)
Lemma read_cursor buf c w : c + w < 256 -> snd (read buf c w) = c + w.
Proof.
  intros H256. unfold read.
  pose proof (read_loop_spec (N.to_nat w) buf c 0 0 w (le_n _) ltac:(cbn; lia) H256) as R.
  destruct (read_loop (N.to_nat w) buf c 0 0 w) as [item c']. destruct R as [Hc _]. exact Hc.
Qed.

(* ---- the configuration-level constants ---- *)

Lemma width_bits_eq cfg : width_bits cfg = bitWidth (N.of_nat (c_n cfg)).
Proof. reflexivity. Qed.
Lemma serial_bits_eq cfg : serial_bits cfg = 1 + width_bits cfg.
Proof. reflexivity. Qed.

Definition n_ok (cfg : config) : Prop := (1 <= c_n cfg <= 255)%nat.

Lemma width_bits_bounds cfg : n_ok cfg -> 1 <= width_bits cfg <= 8.
Proof. intros Hn. rewrite width_bits_eq. apply bitWidth_small. unfold n_ok in Hn. lia. Qed.

Lemma serial_bits_bounds cfg : n_ok cfg -> 2 <= serial_bits cfg <= 9.
Proof. intros Hn. pose proof (width_bits_bounds cfg Hn) as Hw. rewrite serial_bits_eq. lia. Qed.

Lemma index_fits cfg a : n_ok cfg -> (a < c_n cfg)%nat -> N.of_nat a < 2 ^ width_bits cfg.
Proof.
  intros Hn Ha. rewrite width_bits_eq. unfold n_ok in Hn.
  apply width_suffices; lia.
Qed.

(* ---- save as a function of the configuration's two parameters and the active id only ---- *)

Definition save_bytes (manual : bool) (n a : nat) : bytes :=
  let w := bitWidth (N.of_nat n) in
  let buf := buffer_clear (1 + w) in
  if manual && (a =? INVALID)%nat then fst (write buf 0 1 0)
  else fst (write_fields buf 0 [(1, 1); (w, N.of_nat a)]).

Section Serial.
Variable P : Type.
Variable cfg : config.
Variable orc : oracle P.
Hypothesis Hn : n_ok cfg.

Let w := width_bits cfg.

(* who may save: an active machine, or an inactive one under manual activation *)
Definition saver_ok (c : core P) : Prop :=
  (active P c < c_n cfg)%nat \/ (active P c = INVALID /\ c_manual cfg = true).

Lemma active_lt_not_invalid a : (a < c_n cfg)%nat -> (a =? INVALID)%nat = false.
Proof. intros Ha. unfold n_ok in Hn. apply Nat.eqb_neq. unfold INVALID. lia. Qed.

(* 1c: save depends on nothing but ManualActivation, the state count and the active id *)
Theorem save_pure (c : core P) : save P cfg c = save_bytes (c_manual cfg) (c_n cfg) (active P c).
Proof.
  unfold save, save_bytes, machine_is_active. cbv zeta.
  rewrite negb_involutive, serial_bits_eq, width_bits_eq.
  destruct (c_manual cfg && (active P c =? INVALID)%nat); [reflexivity|].
  cbn [write_fields].
  destruct (write (buffer_clear (1 + bitWidth (N.of_nat (c_n cfg)))) 0 1 1) as [b1 c1].
  destruct (write b1 c1 (bitWidth (N.of_nat (c_n cfg))) (N.of_nat (active P c))) as [b2 c2].
  reflexivity.
Qed.

Corollary save_same_active (c1 c2 : core P) : active P c1 = active P c2 -> save P cfg c1 = save P cfg c2.
Proof. intros H. rewrite !save_pure, H. reflexivity. Qed.

(* 1a: the buffer never grows: exactly contain(SERIAL_BITS, 8) bytes, for every core, in contract or not *)
Theorem save_length (c : core P) : length (save P cfg c) = N.to_nat ((serial_bits cfg + 7) / 8).
Proof.
  assert (Hclr : length (buffer_clear (serial_bits cfg)) = N.to_nat ((serial_bits cfg + 7) / 8)).
  { unfold buffer_clear. apply repeat_length. }
  unfold save. cbv zeta.
  destruct (c_manual cfg && negb (machine_is_active P c)).
  - rewrite write_length. exact Hclr.
  - pose proof (write_length (buffer_clear (serial_bits cfg)) 0 1 1) as H1.
    destruct (write (buffer_clear (serial_bits cfg)) 0 1 1) as [b1 c1]. cbn [fst] in H1.
    rewrite write_length, H1. exact Hclr.
Qed.

(* 1b: at most 9 bits, hence at most 2 bytes *)
Theorem save_le_2_bytes (c : core P) :
  serial_bits cfg <= 9 /\ (1 <= length (save P cfg c) <= 2)%nat.
Proof.
  pose proof (serial_bits_bounds cfg Hn) as Hs. split; [lia|].
  rewrite save_length. lia.
Qed.

(* ---- the saved buffer, field by field ---- *)

Lemma clear_fits : 0 + (1 + (w + 0)) <= 8 * N.of_nat (length (buffer_clear (serial_bits cfg))).
Proof. rewrite buffer_clear_length, serial_bits_eq. fold w. lia. Qed.

(* the active case: flag 1 then the index, both readable from the final buffer *)
Lemma save_fields_read (c : core P) a :
  active P c = a -> (a < c_n cfg)%nat ->
  read (save P cfg c) 0 1 = (1, 1) /\
  read (save P cfg c) 1 w = (N.of_nat a, 1 + w).
Proof.
  intros Ha Hlt. subst a.
  pose proof (width_bits_bounds cfg Hn) as Hw. fold w in Hw.
  pose proof (index_fits cfg (active P c) Hn Hlt) as Hfit. fold w in Hfit.
  rewrite save_pure. unfold save_bytes. cbv zeta.
  rewrite (active_lt_not_invalid _ Hlt), andb_false_r.
  rewrite <- width_bits_eq. fold w.
  change (1 + w) with (serial_bits cfg) at 1 2.
  set (fs := [(1, 1); (w, N.of_nat (active P c))]).
  assert (Hok : fields_ok fs).
  { unfold fields_ok, fs. repeat constructor; cbn [fst snd]; try lia. }
  pose proof (fields_roundtrip fs (buffer_clear (serial_bits cfg)) 0 Hok) as RT.
  assert (Htw : total_width fs = 1 + (w + 0)) by reflexivity.
  rewrite Htw in RT.
  specialize (RT clear_fits ltac:(lia) (buffer_clear_zeros _)).
  destruct (write_fields (buffer_clear (serial_bits cfg)) 0 fs) as [b' c'].
  destruct RT as (Hc' & _ & _ & _ & Hrd). cbn [fst].
  unfold fs in Hrd. cbn [map fst snd read_fields] in Hrd.
  pose proof (read_cursor b' 0 1 ltac:(lia)) as Hc1.
  destruct (read b' 0 1) as [v1 k1]. cbn [snd] in Hc1. rewrite N.add_0_l in Hc1. subst k1.
  pose proof (read_cursor b' 1 w ltac:(lia)) as Hc2.
  destruct (read b' 1 w) as [v2 k2]. cbn [snd] in Hc2. subst k2.
  injection Hrd as Hv1 Hv2 _. subst v1 v2. split; reflexivity.
Qed.

(* 2a *)
Theorem save_read_active (c : core P) a :
  active P c = a -> (a < c_n cfg)%nat ->
  read (save P cfg c) 0 1 = (1, 1) /\
  read (save P cfg c) 1 (width_bits cfg) = (N.of_nat a, 1 + width_bits cfg).
Proof. exact (save_fields_read c a). Qed.

(* 2b *)
Theorem save_read_inactive (c : core P) :
  c_manual cfg = true -> active P c = INVALID -> read (save P cfg c) 0 1 = (0, 1).
Proof.
  intros Hm Ha.
  pose proof (width_bits_bounds cfg Hn) as Hw. fold w in Hw.
  rewrite save_pure. unfold save_bytes. cbv zeta.
  rewrite Hm, Ha, Nat.eqb_refl. cbn [andb].
  rewrite <- width_bits_eq. fold w. change (1 + w) with (serial_bits cfg).
  pose proof (write_read_roundtrip (buffer_clear (serial_bits cfg)) 0 1 0) as RT.
  specialize (RT ltac:(cbn; lia)).
  specialize (RT ltac:(pose proof clear_fits; lia) ltac:(lia) (buffer_clear_zeros _)).
  destruct (write (buffer_clear (serial_bits cfg)) 0 1 0) as [b' c'].
  destruct RT as (Hr & _). cbn [fst]. exact Hr.
Qed.

(* 3: the encoding is canonical on in-contract cores *)
Theorem save_canonical (c1 c2 : core P) :
  saver_ok c1 -> saver_ok c2 ->
  (save P cfg c1 = save P cfg c2 <-> active P c1 = active P c2).
Proof.
  intros H1 H2. split; [|apply save_same_active].
  intros E.
  destruct H1 as [L1|[I1 M1]], H2 as [L2|[I2 M2]].
  - destruct (save_fields_read c1 _ eq_refl L1) as [_ R1].
    destruct (save_fields_read c2 _ eq_refl L2) as [_ R2].
    rewrite E, R2 in R1. injection R1 as R1. apply Nat2N.inj. symmetry. exact R1.
  - destruct (save_fields_read c1 _ eq_refl L1) as [R1 _].
    pose proof (save_read_inactive c2 M2 I2) as R2.
    rewrite E, R2 in R1. discriminate R1.
  - destruct (save_fields_read c2 _ eq_refl L2) as [R2 _].
    pose proof (save_read_inactive c1 M1 I1) as R1.
    rewrite E, R2 in R1. discriminate R1.
  - congruence.
Qed.

(* ---- load of a saved buffer ---- *)

(* R_::load with the index read from the stream replaced by [a0] *)
Definition base_load' (a0 : nat) (s : mstate P) : mstate P :=
  let s1 := upd_core P (fun c => set_requested P c INVALID) s in
  let s2 := upd_core P (fun c => set_requested P c a0) s1 in
  let s3 := upd_core P (fun c =>
    let c1 := set_request P c (t_clear P (request P c)) in
    let c2 := if c_plans cfg then set_plan P c1 (pd_clear P (plan P c1)) else c1 in
    if c_history cfg then set_previous P c2 (t_clear P (previous P c2)) else c2) s2 in
  deep_change_to_requested P cfg orc (t_empty P) s3.

(* RV_<Manual>::loadEnter with the index read from the stream replaced by [a0] *)
Definition load_enter' (a0 : nat) (s : mstate P) : mstate P :=
  let s1 := upd_core P (fun c => set_requested P c a0) s in
  deep_enter P cfg orc (t_empty P) s1.

Lemma base_load_read buf cursor v k s :
  read buf cursor (width_bits cfg) = (v, k) ->
  base_load P cfg orc buf cursor s = base_load' (N.to_nat v) s.
Proof. intros Hr. unfold base_load, base_load'. rewrite Hr. reflexivity. Qed.

Lemma load_enter_read buf cursor v k s :
  read buf cursor (width_bits cfg) = (v, k) ->
  load_enter P cfg orc buf cursor s = load_enter' (N.to_nat v) s.
Proof. intros Hr. unfold load_enter, load_enter'. rewrite Hr. reflexivity. Qed.

Lemma base_load_save (c0 : core P) s :
  (active P c0 < c_n cfg)%nat ->
  base_load P cfg orc (save P cfg c0) 1 s = base_load' (active P c0) s.
Proof.
  intros Hlt. destruct (save_read_active c0 _ eq_refl Hlt) as [_ R].
  rewrite (base_load_read _ _ _ _ s R), Nat2N.id. reflexivity.
Qed.

Lemma load_enter_save (c0 : core P) s :
  (active P c0 < c_n cfg)%nat ->
  load_enter P cfg orc (save P cfg c0) 1 s = load_enter' (active P c0) s.
Proof.
  intros Hlt. destruct (save_read_active c0 _ eq_refl Hlt) as [_ R].
  rewrite (load_enter_read _ _ _ _ s R), Nat2N.id. reflexivity.
Qed.

(* 4: load of a buffer produced by save, with the bit stream eliminated *)
Theorem load_save_spec (c0 : core P) (s : mstate P) :
  saver_ok c0 ->
  load P cfg orc (save P cfg c0) s =
    if c_manual cfg then
      if machine_is_active P c0 then
        if machine_is_active P (co P s) then base_load' (active P c0) s else load_enter' (active P c0) s
      else
        if machine_is_active P (co P s) then final_exit P cfg orc s else s
    else base_load' (active P c0) s.
Proof.
  intros [Hlt|[Hi Hm]].
  - destruct (save_read_active c0 _ eq_refl Hlt) as [R _].
    unfold load. rewrite R. change (negb (1 =? 0)) with true. cbv iota.
    rewrite (base_load_save c0 s Hlt), (load_enter_save c0 s Hlt).
    assert (Hact : machine_is_active P c0 = true).
    { unfold machine_is_active. rewrite (active_lt_not_invalid _ Hlt). reflexivity. }
    rewrite Hact. reflexivity.
  - pose proof (save_read_inactive c0 Hm Hi) as R.
    unfold load. rewrite R, Hm. change (negb (0 =? 0)) with false. cbv iota.
    assert (Hact : machine_is_active P c0 = false).
    { unfold machine_is_active. rewrite Hi, Nat.eqb_refl. reflexivity. }
    rewrite Hact. reflexivity.
Qed.

(* the same equation phrased on the saver's active id *)
Corollary load_save_spec_id (c0 : core P) (a0 : nat) (s : mstate P) :
  active P c0 = a0 ->
  ((a0 < c_n cfg)%nat \/ (a0 = INVALID /\ c_manual cfg = true)) ->
  load P cfg orc (save P cfg c0) s =
    if c_manual cfg then
      if negb (a0 =? INVALID)%nat then
        if machine_is_active P (co P s) then base_load' a0 s else load_enter' a0 s
      else
        if machine_is_active P (co P s) then final_exit P cfg orc s else s
    else base_load' a0 s.
Proof. intros Ha Hok. subst a0. apply load_save_spec. exact Hok. Qed.

(* 5: the in-contract condition of load, and that saved buffers satisfy it *)
Definition buf_ok (buf : bytes) : Prop :=
  let '(flag, c1) := read buf 0 1 in
  (flag <> 0 -> (N.to_nat (fst (read buf c1 (width_bits cfg))) < c_n cfg)%nat) /\
  (c_manual cfg = false -> flag <> 0).

Theorem load_buffer_in_contract (c0 : core P) : saver_ok c0 -> buf_ok (save P cfg c0).
Proof.
  intros [Hlt|[Hi Hm]]; unfold buf_ok.
  - destruct (save_read_active c0 _ eq_refl Hlt) as [R1 R2]. rewrite R1, R2. cbn [fst].
    rewrite Nat2N.id. split; [intros _; exact Hlt|intros _; discriminate].
  - rewrite (save_read_inactive c0 Hm Hi).
    split; [intros H; exfalso; apply H; reflexivity|intros H; congruence].
Qed.

End Serial.

(* ---- 6: the statements are not vacuous ---- *)

Definition ex_cfg (n : nat) (manual : bool) : config :=
  {| c_n := n; c_head := true; c_manual := manual; c_limit := 4; c_cap := 4; c_payload := false;
     c_inj_root := 0; c_inj_state := 0; c_plans := true; c_serial := true; c_history := true;
     c_log := LOff; c_def_root := fun _ => true; c_def_state := fun _ => true |}.
Definition ex_core (n : nat) (manual : bool) (a : nat) : core unit :=
  set_active unit (core_init unit (ex_cfg n manual) false) a.

Example ex_cfg_ok : n_ok (ex_cfg 9 true) /\ n_ok (ex_cfg 255 false) /\ n_ok (ex_cfg 1 true).
Proof. unfold n_ok. cbn [ex_cfg c_n]. lia. Qed.

(* n = 9: 4 index bits, 5 bits in all, one byte; flag 1 then 6, least significant bit first: 1 + 2 * 6 *)
Example ex_save_9_6 :
  width_bits (ex_cfg 9 true) = 4 /\ save unit (ex_cfg 9 true) (ex_core 9 true 6) = [13].
Proof. vm_compute. split; reflexivity. Qed.

(* n = 255: 8 index bits, 9 bits in all, two bytes; 1 + 2 * 254 = 509 = 253 + 256 * 1 *)
Example ex_save_255_254 :
  width_bits (ex_cfg 255 false) = 8 /\ save unit (ex_cfg 255 false) (ex_core 255 false 254) = [253; 1].
Proof. vm_compute. split; reflexivity. Qed.

(* n = 1: one index bit all the same *)
Example ex_save_1_0 :
  width_bits (ex_cfg 1 true) = 1 /\ save unit (ex_cfg 1 true) (ex_core 1 true 0) = [1].
Proof. vm_compute. split; reflexivity. Qed.

(* an inactive manual machine saves the cleared buffer *)
Example ex_save_inactive :
  save unit (ex_cfg 9 true) (ex_core 9 true INVALID) = [0] /\
  save unit (ex_cfg 255 true) (ex_core 255 true INVALID) = [0; 0].
Proof. vm_compute. split; reflexivity. Qed.

(* different active ids, different buffers *)
Example ex_save_255_distinct :
  save unit (ex_cfg 255 true) (ex_core 255 true 254) <> save unit (ex_cfg 255 true) (ex_core 255 true 126).
Proof. vm_compute. discriminate. Qed.

(* out of contract: an automatic machine that is not active (only possible mid-construction) still writes
   flag 1, followed by INVALID = 255 through write<WIDTH_BITS>, which does not mask the item: for n = 9 all
   of 255 << 1 is or-ed into the byte (bits 5..7, past the 5 declared bits, are set as well; the byte count
   is still that of save_length) and the index reads back as 15 >= n, so the hypothesis saver_ok of
   load_buffer_in_contract cannot be dropped *)
Example ex_save_automatic_inactive :
  save unit (ex_cfg 9 false) (ex_core 9 false INVALID) = [255] /\
  ~ buf_ok (ex_cfg 9 false) (save unit (ex_cfg 9 false) (ex_core 9 false INVALID)).
Proof.
  split; [vm_compute; reflexivity|].
  intros H. vm_compute in H. destruct H as [H _].
  specialize (H ltac:(discriminate)). vm_compute in H. lia.
Qed.

(* the saved buffers above read back through the theorems' own conclusions *)
Example ex_read_9_6 :
  read (save unit (ex_cfg 9 true) (ex_core 9 true 6)) 0 1 = (1, 1) /\
  read (save unit (ex_cfg 9 true) (ex_core 9 true 6)) 1 4 = (6, 5).
Proof. vm_compute. split; reflexivity. Qed.

Print Assumptions save_pure.
Print Assumptions save_length.
Print Assumptions save_le_2_bytes.
Print Assumptions save_read_active.
Print Assumptions save_read_inactive.
Print Assumptions save_canonical.
Print Assumptions base_load_save.
Print Assumptions load_enter_save.
Print Assumptions load_save_spec.
Print Assumptions load_save_spec_id.
Print Assumptions load_buffer_in_contract.
