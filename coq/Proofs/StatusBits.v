(* The plan's report bit arrays over whole histories.
   PIw (Proofs/MachinePlan.v) = the plan invariant PIc together with "tasksSuccesses and tasksFailures are well formed"
   (exactly ceil(n/8) bytes each, every byte below 256). PIw_ok shows it is closed under everything the machine does
   to plan data, so the history theorem run_life holds with it: in every state any in-contract history reaches, both
   arrays are well formed (hence every bit index below n is in range - C18), and the hypotheses of the plan-step
   statements of C08/C09 (dup_idle, dup_failure, dup_success_empty, dup_success_fire, failure_delivered, which are
   made for one plan step from a state with PIc, well-formed success bits and an active state) hold at the plan step
   of every update()/react() of every history. *)
From Coq Require Import List Arith Bool NArith Lia.
From FFSM2 Require Import Model.TaskList Model.BitArray Model.Plan Model.Ancestors Model.Machine
  Proofs.BitArrayProofs Proofs.MachineFrame Proofs.PlanProofs Proofs.MachinePlan Proofs.MachineLife Proofs.PlanStep
  Proofs.MachineTop Proofs.Histories.
Import ListNotations.

Arguments INVALID : simpl never.

Section SB.
Variable P : Type.
Variable cfg : config.
Variable orc : oracle P.
Hypothesis Hcfg : wf_cfg cfg.
Hypothesis Hwf : wf_oracle P cfg orc.

Local Notation n := (c_n cfg).
Local Notation cap := (c_cap cfg).
Local Notation nN := (N.of_nat n).

Let Hn1 : (1 <= nN)%N.
Proof. destruct Hcfg as ((H & _) & _). lia. Qed.
Let Hcap : 1 <= cap <= 255 := proj1 (proj2 Hcfg).
Let HPIw : plan_inv_ok P cfg (PIw P cfg) := PIw_ok P cfg Hn1 Hcap.

(* every reachable state: invariant with well-formed report bits *)
Theorem reachable_status_bits lg ops :
  ops_ok P cfg orc (construct P cfg orc lg) ops ->
  let d := plan P (co P (run P cfg orc lg ops)) in
  PIc P cfg d /\ BitArrayProofs.wf nN (pd_succ d) /\ BitArrayProofs.wf nN (pd_fail d).
Proof.
  intro Hok. pose proof (run_life P cfg orc (PIw P cfg) HPIw Hwf Hcfg lg ops Hok) as H. cbv zeta in H |- *.
  destruct H as [(_ & _ & _ & Hpi) _]. exact Hpi.
Qed.

(* ... so every report-bit access with a state id below n is inside the arrays *)
Corollary reachable_status_bits_in_range lg ops sid :
  ops_ok P cfg orc (construct P cfg orc lg) ops -> sid < n ->
  let d := plan P (co P (run P cfg orc lg ops)) in
  N.to_nat (N.of_nat sid / 8) < length (pd_succ d) /\ N.to_nat (N.of_nat sid / 8) < length (pd_fail d).
Proof.
  intros Hok Hs. destruct (reachable_status_bits lg ops Hok) as (_ & Ws & Wf). cbv zeta.
  split; apply (unit_in_range nN); try assumption; lia.
Qed.

(* the state a cycle has reached when its plan step runs *)
Definition at_plan_step (mpre mmid mpost : method) (s : mstate P) : mstate P * ctl P :=
  region_phase P cfg orc mpost true
    (region_phase P cfg orc mmid false
      (region_phase P cfg orc mpre false (s, mk_ctl P KFull (t_empty P) (t_empty P)))).

Lemma cycle_from_plan_step mpre mmid mpost s :
  cycle P cfg orc mpre mmid mpost s =
  let sk := at_plan_step mpre mmid mpost s in
  let '(s1, _) := if c_plans cfg then deep_update_plans P cfg orc sk else sk in
  let s2 := if c_plans cfg then upd_plan P (pd_clear_region_statuses P) s1 else s1 in
  process_request P cfg orc s2.
Proof. reflexivity. Qed.

Lemma at_plan_step_spec mpre mmid mpost s a :
  is_life mpre = false -> is_life mmid = false -> is_life mpost = false ->
  SInv P cfg (PIw P cfg) s -> active P (co P s) = a -> a < n ->
  let '(s3, k3) := at_plan_step mpre mmid mpost s in
  active P (co P s3) = a /\ requested P (co P s3) = INVALID /\ RW P cfg (co P s3) /\ PIw P cfg (plan P (co P s3)) /\
  exists l, tr P s3 = l ++ tr P s /\ quiet P cfg a l.
Proof.
  intros H1 H2 H3 (Hq & Hact & Hrw & Hpi) Ha Han. unfold at_plan_step.
  pose proof (region_phase_quiet P cfg orc (PIw P cfg) HPIw Hwf mpre false s (mk_ctl P KFull (t_empty P) (t_empty P)) H1) as R1.
  destruct (region_phase P cfg orc mpre false _) as [s1 k1]. destruct R1 as [F1 _]. rewrite Ha in F1.
  pose proof (region_phase_quiet P cfg orc (PIw P cfg) HPIw Hwf mmid false s1 k1 H2) as R2.
  destruct (region_phase P cfg orc mmid false (s1, k1)) as [s2 k2]. destruct R2 as [F2 _].
  rewrite (fr_active _ _ _ _ _ _ F1), Ha in F2.
  pose proof (region_phase_quiet P cfg orc (PIw P cfg) HPIw Hwf mpost true s2 k2 H3) as R3.
  destruct (region_phase P cfg orc mpost true (s2, k2)) as [s3 k3]. destruct R3 as [F3 _].
  rewrite (fr_active _ _ _ _ _ _ F2), (fr_active _ _ _ _ _ _ F1), Ha in F3.
  pose proof (fr_trans _ _ _ _ _ _ _ (fr_trans _ _ _ _ _ _ _ F1 F2) F3) as F.
  split; [rewrite (fr_active _ _ _ _ _ _ F); exact Ha|].
  split; [rewrite (fr_requested _ _ _ _ _ _ F); exact Hq|].
  split; [apply (fr_rw _ _ _ _ _ _ F); exact Hrw|].
  split; [apply (fr_pi _ _ _ _ _ _ F); exact Hpi|].
  destruct (fr_tr _ _ _ _ _ _ F) as (l & El & Ql). exists l. split; [exact El|exact Ql].
Qed.

(* every update()/react() of every in-contract history: the state at its plan step has the active state of the call's
   beginning, the plan invariant, well-formed report bits - i.e. every hypothesis of the C08/C09 plan-step statements
   except the case distinction they are stated for - and the call is: phases; plan step from that state; processing *)
Theorem every_plan_step_of_every_history lg pre op post mpre mmid mpost :
  ops_ok P cfg orc (construct P cfg orc lg) (pre ++ op :: post) ->
  is_cycle_op P op = Some (mpre, mmid, mpost) ->
  let s := run P cfg orc lg pre in
  let a := active P (co P s) in
  let '(s3, k3) := at_plan_step mpre mmid mpost s in
  a < n /\
  active P (co P s3) = a /\
  PIc P cfg (plan P (co P s3)) /\
  BitArrayProofs.wf nN (pd_succ (plan P (co P s3))) /\ BitArrayProofs.wf nN (pd_fail (plan P (co P s3))) /\
  (exists l, tr P s3 = l ++ tr P s /\ quiet P cfg a l) /\
  run P cfg orc lg (pre ++ [op]) =
    (let '(s4, _) := if c_plans cfg then deep_update_plans P cfg orc (s3, k3) else (s3, k3) in
     process_request P cfg orc (if c_plans cfg then upd_plan P (pd_clear_region_statuses P) s4 else s4)).
Proof.
  intros Hok Hop. cbv zeta.
  apply ops_ok_app in Hok. destruct Hok as [Hpre Hrest]. cbn [ops_ok] in Hrest. destruct Hrest as [Hc _].
  pose proof (run_life P cfg orc (PIw P cfg) HPIw Hwf Hcfg lg pre Hpre) as H. cbv zeta in H. destruct H as [I _].
  assert (Hon : is_on P cfg (run P cfg orc lg pre)).
  { destruct op; cbn [is_cycle_op] in Hop; try discriminate; exact Hc. }
  assert (Hm : is_life mpre = false /\ is_life mmid = false /\ is_life mpost = false).
  { destruct op; cbn [is_cycle_op] in Hop; try discriminate; inversion Hop; subst; repeat split; reflexivity. }
  destruct Hm as (M1 & M2 & M3).
  assert (Hstep : fst (step P cfg orc (run P cfg orc lg pre) op) = cycle P cfg orc mpre mmid mpost (run P cfg orc lg pre)).
  { destruct op; cbn [is_cycle_op] in Hop; try discriminate; inversion Hop; subst; reflexivity. }
  pose proof (at_plan_step_spec mpre mmid mpost (run P cfg orc lg pre) _ M1 M2 M3 I eq_refl Hon) as S.
  rewrite (run_snoc P cfg orc lg pre op), Hstep, cycle_from_plan_step. cbv zeta.
  destruct (at_plan_step mpre mmid mpost (run P cfg orc lg pre)) as [s3 k3].
  destruct S as (A & _ & _ & (Hpc & Ws & Wf) & L).
  split; [exact Hon|]. split; [exact A|]. split; [exact Hpc|]. split; [exact Ws|]. split; [exact Wf|]. split; [exact L|].
  destruct (c_plans cfg); [|reflexivity].
  destruct (deep_update_plans P cfg orc (s3, k3)) as [s4 k4]. reflexivity.
Qed.

(* C09's converse over whole histories: in any cycle of any history in which a plan exists and the active state has a
   failure outstanding at the plan step, planFailed() is delivered in that cycle and the plan is empty afterwards *)
Theorem failure_delivered_in_every_history lg pre op post mpre mmid mpost :
  c_plans cfg = true ->
  ops_ok P cfg orc (construct P cfg orc lg) (pre ++ op :: post) ->
  is_cycle_op P op = Some (mpre, mmid, mpost) ->
  let s := run P cfg orc lg pre in
  let '(s3, k3) := at_plan_step mpre mmid mpost s in
  pd_exists (plan P (co P s3)) = true ->
  ba_get (pd_fail (plan P (co P s3))) (N.of_nat (active P (co P s3))) = true ->
  let '(s4, k4) := deep_update_plans P cfg orc (s3, k3) in
  outcome_post P cfg orc MPlanFailed SFailure s3 k3 s4 k4.
Proof.
  intros Hpl Hok Hop. cbv zeta.
  pose proof (every_plan_step_of_every_history lg pre op post mpre mmid mpost Hok Hop) as H. cbv zeta in H.
  destruct (at_plan_step mpre mmid mpost (run P cfg orc lg pre)) as [s3 k3].
  destruct H as (Han & A & Hpc & _ & _ & _ & _). intros Hex Hf.
  destruct (deep_update_plans P cfg orc (s3, k3)) as [s4 k4] eqn:E.
  pose proof (proj1 Hcfg) as Hn.
  assert (Ha3 : active P (co P s3) < n) by (rewrite A; exact Han).
  exact (proj2 (failure_delivered P cfg Hn Hcap orc Hwf s3 k3 s4 k4 Ha3 Hpc Hex Hf E)).
Qed.

End SB.
