From Coq Require Import List Arith Bool Lia.
From FFSM2 Require Import Model.TaskList.
Import ListNotations.

Section TLP.
Variable P : Type.
Variable cap : nat.
Local Notation slot := (slot P).
Local Notation tl := (tl P).
Local Notation emplace := (emplace P cap).
Local Notation remove := (remove P cap).
Local Notation upd := (upd P).
Local Notation get := (get P).
Local Notation set_prev := (set_prev P).
Local Notation set_links := (set_links P).
Local Notation dslot := (dslot P).
Local Notation tl_clear := (tl_clear P).

(* ---- invariant ---- *)
Fixpoint chain (its : list slot) (vac : list nat) : Prop :=
  match vac with
  | a :: ((b :: _) as rest) => s_next (get its a) = b /\ chain its rest
  | _ => True
  end.

Definition used (t : tl) := if t_last t <? cap then S (t_last t) else cap.

(* occ : association list of occupied slots and their contents *)
Record FL (t : tl) (vac : list nat) (occ : list (nat * slot)) : Prop := {
  fl_len : length (t_items t) = cap;
  fl_cap : 1 <= cap <= 255;
  fl_last : t_last t <= cap;
  fl_nodup : NoDup vac;
  fl_vac_lt : forall v, In v vac -> v < used t;
  fl_chain : chain (t_items t) vac;
  fl_head : t_head t = hd INVALID vac;
  fl_tail : t_tail t = last vac INVALID;
  fl_count : t_count t + length vac = used t;
  fl_count_occ : t_count t = length occ;
  fl_full : vac = [] -> t_last t = cap;
  fl_occ_dom : forall i, i < used t -> ~ In i vac -> In i (map fst occ);
  fl_occ_nodup : NoDup (map fst occ);
  fl_occ_sub : forall i s, In (i, s) occ -> i < used t /\ ~ In i vac /\ get (t_items t) i = s
}.

Lemma get_upd_same l i f : i < length l -> get (upd l i f) i = f (get l i).
Proof. unfold get. revert i; induction l as [|h t IH]; intros [|i] H; simpl in *; try lia; auto. apply IH; lia. Qed.
Lemma get_upd_other l i j f : i <> j -> get (upd l i f) j = get l j.
Proof. unfold get. revert i j; induction l as [|h t IH]; intros [|i] [|j] H; simpl in *; try congruence; auto. Qed.
Lemma upd_length l i f : length (upd l i f) = length l.
Proof. revert i; induction l as [|h t IH]; intros [|i]; simpl; auto. Qed.

Lemma chain_upd_notin its vac i f : ~ In i vac -> chain its vac -> chain (upd its i f) vac.
Proof.
  induction vac as [|a [|b rest] IH]; intros Hn Hc; cbn [chain] in *; auto.
  destruct Hc as [H1 H2]. split.
  - rewrite get_upd_other; [exact H1|]. intro; subst; apply Hn; left; reflexivity.
  - apply IH; [|exact H2]. intro H; apply Hn; right; exact H.
Qed.

(* updating a slot while keeping its next-link keeps the chain *)
Lemma chain_upd_keepnext its vac i f :
  (forall s, s_next (f s) = s_next s) -> chain its vac -> chain (upd its i f) vac.
Proof.
  intros Hf. induction vac as [|a [|b rest] IH]; intros Hc; cbn [chain] in *; auto.
  destruct Hc as [H1 H2]. split; [|apply IH; exact H2].
  destruct (Nat.eq_dec i a) as [->|Hne].
  - destruct (Nat.lt_ge_cases a (length its)) as [Hl|Hl].
    + rewrite get_upd_same by exact Hl. rewrite Hf. exact H1.
    + unfold get in *. rewrite nth_overflow in * by (rewrite ?upd_length; lia). exact H1.
  - rewrite get_upd_other by exact Hne. exact H1.
Qed.

Lemma chain_cons its a b r : chain its (a :: b :: r) <-> s_next (get its a) = b /\ chain its (b :: r).
Proof. reflexivity. Qed.

Lemma last_cons_cons (a b : nat) l d : last (a :: b :: l) d = last (b :: l) d.
Proof. reflexivity. Qed.

Theorem init_FL : 1 <= cap <= 255 ->
  FL {| t_head := 0; t_tail := 0; t_last := 0; t_count := 0; t_items := repeat dslot cap |} [0] [].
Proof.
  intros Hc.
  assert (U : used {| t_head := 0; t_tail := 0; t_last := 0; t_count := 0; t_items := repeat dslot cap |} = 1).
  { unfold used; cbn. destruct cap; [lia|reflexivity]. }
  constructor; rewrite ?U; cbn [t_items t_head t_tail t_last t_count hd last length map fst chain].
  - apply repeat_length.
  - exact Hc.
  - lia.
  - constructor; [intros []|constructor].
  - intros v [<-|[]]; lia.
  - exact I.
  - reflexivity.
  - reflexivity.
  - reflexivity.
  - reflexivity.
  - discriminate.
  - intros i Hi Hn. exfalso. apply Hn. left. lia.
  - constructor.
  - intros i s [].
Qed.

Definition rem (i : nat) (occ : list (nat * slot)) := filter (fun x => negb (fst x =? i)) occ.

Lemma rem_length i occ : NoDup (map fst occ) -> In i (map fst occ) -> S (length (rem i occ)) = length occ.
Proof.
  induction occ as [|[j s] occ IH]; cbn; intros Hnd Hin; [contradiction|].
  inversion Hnd as [|? ? Hnj Hnd']; subst.
  destruct (j =? i) eqn:E; cbn.
  - apply Nat.eqb_eq in E; subst j. f_equal.
    clear IH Hin Hnd. induction occ as [|[k s'] occ IH]; cbn; [reflexivity|].
    destruct (k =? i) eqn:E2; cbn.
    + apply Nat.eqb_eq in E2; subst. exfalso. apply Hnj. left. reflexivity.
    + f_equal. apply IH. { intro H; apply Hnj; right; exact H. } { inversion Hnd'; assumption. }
  - apply Nat.eqb_neq in E. f_equal. apply IH; [exact Hnd'|]. destruct Hin as [H|H]; [congruence|exact H].
Qed.

Lemma rem_in i occ j s : In (j, s) (rem i occ) <-> In (j, s) occ /\ j <> i.
Proof. unfold rem. rewrite filter_In. cbn. rewrite negb_true_iff, Nat.eqb_neq. tauto. Qed.

Lemma rem_dom i occ j : In j (map fst (rem i occ)) <-> In j (map fst occ) /\ j <> i.
Proof.
  rewrite !in_map_iff. split.
  - intros [[k s] [<- H]]. apply rem_in in H. destruct H. split; [exists (k, s); auto|assumption].
  - intros [[[k s] [<- H]] Hne]. exists (k, s). split; [reflexivity|]. apply rem_in. auto.
Qed.

Lemma rem_nodup i occ : NoDup (map fst occ) -> NoDup (map fst (rem i occ)).
Proof.
  induction occ as [|[j s] occ IH]; cbn; intros H; [constructor|].
  inversion H; subst. destruct (j =? i); cbn; auto.
  constructor; auto. intro Hin. apply rem_dom in Hin. tauto.
Qed.

Lemma last_notin_neq (v0 : nat) rest : rest <> [] -> ~ In v0 rest -> v0 <> last (v0 :: rest) INVALID.
Proof.
  intros Hne Hn Heq. destruct rest as [|v1 rest']; [congruence|].
  rewrite last_cons_cons in Heq.
  assert (In (last (v1 :: rest') INVALID) (v1 :: rest')).
  { clear. revert v1; induction rest' as [|a l IH]; intro v1; [left; reflexivity|].
    rewrite last_cons_cons. right. apply IH. }
  rewrite <- Heq in H. contradiction.
Qed.

Lemma used_le t : t_last t <= cap -> used t <= cap.
Proof. unfold used. destruct (t_last t <? cap) eqn:E; [apply Nat.ltb_lt in E|]; lia. Qed.

Theorem emplace_full t vac occ o d p :
  FL t vac occ -> t_count t = cap -> emplace t o d p = (t, INVALID).
Proof. intros _ H. unfold emplace. rewrite H, Nat.ltb_irrefl. reflexivity. Qed.

Theorem emplace_FL t vac occ o d p :
  FL t vac occ -> t_count t < cap ->
  exists v0 rest, vac = v0 :: rest /\ snd (emplace t o d p) = v0 /\ v0 < cap /\ ~ In v0 (map fst occ) /\
    exists vac', FL (fst (emplace t o d p)) vac' ((v0, {| s_prev := o; s_next := d; s_pay := p |}) :: occ).
Proof.
  intros F Hlt. destruct F as [fl_len0 fl_cap0 fl_last0 fl_nodup0 fl_vac_lt0 fl_chain0 fl_head0 fl_tail0 fl_count0 fl_count_occ0 fl_full0 fl_occ_dom0 fl_occ_nodup0 fl_occ_sub0].
  pose proof (used_le t fl_last0) as HU.
  destruct vac as [|v0 rest].
  { exfalso. cbn in fl_count0. specialize (fl_full0 eq_refl). unfold used in fl_count0.
    rewrite fl_full0, Nat.ltb_irrefl in fl_count0. lia. }
  exists v0, rest. split; [reflexivity|].
  cbn [hd] in fl_head0.
  assert (Hv0 : v0 < used t) by (apply fl_vac_lt0; left; reflexivity).
  assert (Hv0occ : ~ In v0 (map fst occ)).
  { intro H. apply in_map_iff in H. destruct H as [[i s] [Hi Hin]]. cbn in Hi; subst i.
    apply fl_occ_sub0 in Hin. destruct Hin as (_ & Hn & _). apply Hn. left. reflexivity. }
  pose proof fl_nodup0 as Hnd0. apply NoDup_cons_iff in Hnd0. destruct Hnd0 as [Hv0rest Hndrest].
  unfold emplace. apply Nat.ltb_lt in Hlt. rewrite Hlt. apply Nat.ltb_lt in Hlt.
  set (new := {| s_prev := o; s_next := d; s_pay := p |}).
  destruct (negb (t_head t =? t_tail t)) eqn:Eht.
  - (* recycle *)
    apply negb_true_iff, Nat.eqb_neq in Eht.
    destruct rest as [|v1 rest'].
    { exfalso. apply Eht. rewrite fl_head0, fl_tail0. reflexivity. }
    destruct fl_chain0 as [Hnext Hch].
    rewrite fl_head0. rewrite Hnext. cbn [fst snd].
    split; [reflexivity|]. split; [lia|]. split; [exact Hv0occ|].
    exists (v1 :: rest').
    assert (Hv1 : v1 < used t) by (apply fl_vac_lt0; right; left; reflexivity).
    constructor; cbn [t_items t_head t_tail t_last t_count].
    + rewrite !upd_length. exact fl_len0.
    + exact fl_cap0.
    + exact fl_last0.
    + exact Hndrest.
    + intros v Hv. apply fl_vac_lt0. right. exact Hv.
    + apply chain_upd_notin; [exact Hv0rest|]. apply chain_upd_keepnext; [reflexivity|exact Hch].
    + reflexivity.
    + rewrite fl_tail0. apply last_cons_cons.
    + cbn [length] in *. unfold used in *. cbn [t_last]. lia.
    + cbn [length]. lia.
    + discriminate.
    + intros i Hi Hn. cbn [map fst]. destruct (Nat.eq_dec i v0) as [->|Hne]; [left; reflexivity|].
      right. apply fl_occ_dom0; [exact Hi|]. intros [H|H]; [congruence|contradiction].
    + cbn [map fst]. constructor; assumption.
    + intros i s [H|H].
      * inversion H; subst. split; [exact Hv0|]. split; [exact Hv0rest|].
        apply get_upd_same. rewrite upd_length. lia.
      * destruct (fl_occ_sub0 i s H) as (Hi & Hn & Hg). split; [exact Hi|].
        split; [intro Hin; apply Hn; right; exact Hin|].
        rewrite get_upd_other by (intro; subst; apply Hn; left; reflexivity).
        rewrite get_upd_other by (intro; subst; apply Hn; right; left; reflexivity). exact Hg.
  - apply negb_false_iff, Nat.eqb_eq in Eht.
    assert (rest = []).
    { destruct rest as [|v1 r]; [reflexivity|]. exfalso.
      apply (last_notin_neq v0 (v1 :: r)); [discriminate|exact Hv0rest|]. congruence. }
    subst rest. cbn [length] in *.
    destruct (t_last t <? cap - 1) eqn:Egrow.
    + (* grow *)
      apply Nat.ltb_lt in Egrow.
      assert (Eu : used t = S (t_last t)). { unfold used. replace (t_last t <? cap) with true; [reflexivity|]. symmetry. apply Nat.ltb_lt. lia. }
      rewrite fl_head0. cbn [fst snd]. split; [reflexivity|]. split; [lia|]. split; [exact Hv0occ|].
      exists [S (t_last t)].
      assert (Eu' : forall h tl c its, used {| t_head := h; t_tail := tl; t_last := S (t_last t); t_count := c; t_items := its |} = S (S (t_last t))).
      { intros. unfold used; cbn [t_last]. replace (S (t_last t) <? cap) with true; [reflexivity|]. symmetry. apply Nat.ltb_lt. lia. }
      constructor; rewrite ?Eu'; cbn [t_items t_head t_tail t_last t_count hd last length chain].
      * rewrite !upd_length. exact fl_len0.
      * exact fl_cap0.
      * lia.
      * constructor; [intros []|constructor].
      * intros v [<-|[]]. lia.
      * exact I.
      * reflexivity.
      * reflexivity.
      * lia.
      * lia.
      * discriminate.
      * intros i Hi Hn. cbn [map fst]. destruct (Nat.eq_dec i v0) as [->|Hne]; [left; reflexivity|].
        right. apply fl_occ_dom0; [|intros [H|[]]; congruence].
        assert (i <> S (t_last t)) by (intro; apply Hn; left; congruence). lia.
      * cbn [map fst]. constructor; assumption.
      * intros i s [H|H].
        -- inversion H; subst. split; [lia|]. split; [intros [Hx|[]]; lia|].
           apply get_upd_same. rewrite upd_length. lia.
        -- destruct (fl_occ_sub0 i s H) as (Hi & Hn & Hg). split; [lia|].
           split; [intros [Hx|[]]; lia|].
           rewrite get_upd_other by (intro; subst; apply Hn; left; reflexivity).
           rewrite get_upd_other by lia. exact Hg.
    + (* last *)
      apply Nat.ltb_ge in Egrow.
      assert (Eu : used t = cap). { unfold used. destruct (t_last t <? cap) eqn:E; [apply Nat.ltb_lt in E; lia|reflexivity]. }
      rewrite fl_head0. cbn [fst snd]. split; [reflexivity|]. split; [lia|]. split; [exact Hv0occ|].
      exists [].
      assert (Eu' : forall h tl c its, used {| t_head := h; t_tail := tl; t_last := cap; t_count := c; t_items := its |} = cap).
      { intros. unfold used; cbn [t_last]. rewrite Nat.ltb_irrefl. reflexivity. }
      constructor; rewrite ?Eu'; cbn [t_items t_head t_tail t_last t_count hd last length chain].
      * rewrite !upd_length. exact fl_len0.
      * exact fl_cap0.
      * lia.
      * constructor.
      * intros v [].
      * exact I.
      * reflexivity.
      * reflexivity.
      * lia.
      * lia.
      * reflexivity.
      * intros i Hi Hn. cbn [map fst]. destruct (Nat.eq_dec i v0) as [->|Hne]; [left; reflexivity|].
        right. apply fl_occ_dom0; [lia|intros [H|[]]; congruence].
      * cbn [map fst]. constructor; assumption.
      * intros i s [H|H].
        -- inversion H; subst. split; [lia|]. split; [intros []|].
           apply get_upd_same. lia.
        -- destruct (fl_occ_sub0 i s H) as (Hi & Hn & Hg). split; [lia|]. split; [intros []|].
           rewrite get_upd_other by (intro; subst; apply Hn; left; reflexivity). exact Hg.
Qed.

Theorem remove_FL t vac occ i :
  FL t vac occ -> In i (map fst occ) ->
  FL (remove t i) (i :: vac) (rem i occ).
Proof.
  intros F Hin.
  destruct F as [fl_len0 fl_cap0 fl_last0 fl_nodup0 fl_vac_lt0 fl_chain0 fl_head0 fl_tail0 fl_count0 fl_count_occ0 fl_full0 fl_occ_dom0 fl_occ_nodup0 fl_occ_sub0].
  pose proof (used_le t fl_last0) as HU.
  assert (Hi : i < used t /\ ~ In i vac).
  { apply in_map_iff in Hin. destruct Hin as [[k s] [Hk Hks]]. cbn in Hk; subst k.
    destruct (fl_occ_sub0 i s Hks) as (H1 & H2 & _). auto. }
  destruct Hi as [Hiu Hiv].
  pose proof (rem_length i occ fl_occ_nodup0 Hin) as Hrl.
  unfold remove.
  destruct (t_count t <? cap) eqn:Ec.
  - apply Nat.ltb_lt in Ec.
    destruct vac as [|v0 rest].
    { exfalso. cbn in fl_count0. specialize (fl_full0 eq_refl). unfold used in fl_count0.
      rewrite fl_full0, Nat.ltb_irrefl in fl_count0. lia. }
    cbn [hd] in fl_head0.
    assert (Hne : i <> v0) by (intro; subst; apply Hiv; left; reflexivity).
    assert (Eu : forall h tl c its, used {| t_head := h; t_tail := tl; t_last := t_last t; t_count := c; t_items := its |} = used t) by reflexivity.
    constructor; rewrite ?Eu; cbn [t_items t_head t_tail t_last t_count hd].
    + rewrite !upd_length. exact fl_len0.
    + exact fl_cap0.
    + exact fl_last0.
    + constructor; assumption.
    + intros v [<-|Hv]; [exact Hiu|apply fl_vac_lt0; exact Hv].
    + apply chain_cons. split.
      * rewrite fl_head0. rewrite get_upd_other by congruence.
        rewrite get_upd_same by lia. reflexivity.
      * rewrite fl_head0. apply chain_upd_keepnext; [reflexivity|].
        apply chain_upd_notin; [exact Hiv|exact fl_chain0].
    + reflexivity.
    + rewrite fl_tail0. symmetry. apply last_cons_cons.
    + cbn [length] in *. lia.
    + lia.
    + discriminate.
    + intros k Hk Hn. apply rem_dom. split.
      * apply fl_occ_dom0; [exact Hk|]. intro H. apply Hn. right. exact H.
      * intro; subst. apply Hn. left. reflexivity.
    + apply rem_nodup. exact fl_occ_nodup0.
    + intros k s Hks. apply rem_in in Hks. destruct Hks as [Hks Hki].
      destruct (fl_occ_sub0 k s Hks) as (H1 & H2 & H3).
      split; [exact H1|]. split; [intros [H|H]; [congruence|contradiction]|].
      rewrite fl_head0. rewrite get_upd_other by (intro; subst; apply H2; left; reflexivity).
      rewrite get_upd_other by congruence. exact H3.
  - apply Nat.ltb_ge in Ec.
    assert (vac = []).
    { destruct vac as [|v r]; [reflexivity|]. cbn [length] in fl_count0. lia. }
    subst vac. specialize (fl_full0 eq_refl).
    assert (Eu0 : used t = cap) by (unfold used; rewrite fl_full0, Nat.ltb_irrefl; reflexivity).
    assert (Eu : forall h tl c its, used {| t_head := h; t_tail := tl; t_last := t_last t; t_count := c; t_items := its |} = cap) by (intros; exact Eu0).
    constructor; rewrite ?Eu; cbn [t_items t_head t_tail t_last t_count hd last chain length].
    + rewrite !upd_length. exact fl_len0.
    + exact fl_cap0.
    + exact fl_last0.
    + constructor; [intros []|constructor].
    + intros v [<-|[]]. lia.
    + exact I.
    + reflexivity.
    + reflexivity.
    + cbn [length] in *. lia.
    + lia.
    + discriminate.
    + intros k Hk Hn. apply rem_dom. split.
      * apply fl_occ_dom0; [lia|intros []].
      * intro; subst. apply Hn. left. reflexivity.
    + apply rem_nodup. exact fl_occ_nodup0.
    + intros k s Hks. apply rem_in in Hks. destruct Hks as [Hks Hki].
      destruct (fl_occ_sub0 k s Hks) as (H1 & H2 & H3).
      split; [lia|]. split; [intros [H|[]]; congruence|].
      rewrite get_upd_other by congruence. exact H3.
Qed.

(* every reachable state: any sequence of emplace/remove keeps FL; capacity never leaks *)
Corollary count_is_occupancy t vac occ : FL t vac occ -> t_count t = length occ.
Proof. intros F; apply F. Qed.

Theorem clear_FL t vac occ : FL t vac occ -> FL (tl_clear t) [0] [].
Proof.
  intros F. destruct F as [fl_len0 fl_cap0 _ _ _ _ _ _ _ _ _ _ _ _].
  assert (U : used (tl_clear t) = 1).
  { unfold used, tl_clear; cbn. destruct cap; [lia|reflexivity]. }
  constructor; rewrite ?U; cbn [tl_clear t_items t_head t_tail t_last t_count hd last length map fst chain].
  - exact fl_len0.
  - exact fl_cap0.
  - lia.
  - constructor; [intros []|constructor].
  - intros v [<-|[]]; lia.
  - exact I.
  - reflexivity.
  - reflexivity.
  - reflexivity.
  - reflexivity.
  - discriminate.
  - intros i Hi Hn. exfalso. apply Hn. left. lia.
  - constructor.
  - intros i s [].
Qed.
End TLP.

