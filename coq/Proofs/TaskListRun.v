(* TaskListT over whole histories: the free-list invariant after any operation sequence, and "no leak". *)
From Coq Require Import List Arith Bool Lia.
From FFSM2 Require Import Model.TaskList Proofs.TaskListProofs.
Import ListNotations.

Section R.
Variable P : Type.
Variable cap : nat.

Inductive tl_op := OpEmplace (o d : nat) (p : option P) | OpRemove (i : nat) | OpClear.

Definition tl_step (t : tl P) (op : tl_op) : tl P :=
  match op with
  | OpEmplace o d p => fst (emplace P cap t o d p)
  | OpRemove i => remove P cap t i
  | OpClear => tl_clear P t
  end.
Definition tl_run (ops : list tl_op) (t : tl P) : tl P := fold_left tl_step ops t.

(* which slots are occupied, computed alongside: remove(i) asserts that slot i holds a task *)
Fixpoint occupied_after (ops : list tl_op) (t : tl P) (occ : list nat) : list nat :=
  match ops with
  | [] => occ
  | OpEmplace o d p :: r =>
      let '(t', i) := emplace P cap t o d p in occupied_after r t' (if i =? INVALID then occ else i :: occ)
  | OpRemove i :: r => occupied_after r (remove P cap t i) (filter (fun x => negb (x =? i)) occ)
  | OpClear :: r => occupied_after r (tl_clear P t) []
  end.
Fixpoint ops_ok_from (ops : list tl_op) (t : tl P) (occ : list nat) : Prop :=
  match ops with
  | [] => True
  | OpEmplace o d p :: r =>
      let '(t', i) := emplace P cap t o d p in ops_ok_from r t' (if i =? INVALID then occ else i :: occ)
  | OpRemove i :: r => In i occ /\ ops_ok_from r (remove P cap t i) (filter (fun x => negb (x =? i)) occ)
  | OpClear :: r => ops_ok_from r (tl_clear P t) []
  end.
Definition tl_ops_ok (ops : list tl_op) (t : tl P) : Prop := ops_ok_from ops t [].

Lemma map_fst_rem i (occ : list (nat * slot P)) :
  map fst (rem P i occ) = filter (fun x => negb (x =? i)) (map fst occ).
Proof.
  unfold rem. induction occ as [|[j s] occ IH]; cbn [filter map fst]; [reflexivity|].
  destruct (negb (j =? i)); cbn [map fst]; rewrite IH; reflexivity.
Qed.

Lemma run_FL_gen : forall ops t vac occ,
  FL P cap t vac occ -> ops_ok_from ops t (map fst occ) ->
  exists vac' occ', FL P cap (tl_run ops t) vac' occ'.
Proof.
  induction ops as [|op ops IH]; intros t vac occ F Hok; cbn [tl_run fold_left]; [eauto|].
  destruct op as [o d p|i|]; cbn [ops_ok_from tl_step] in *.
  - destruct (Nat.lt_ge_cases (t_count t) cap) as [Hlt|Hge].
    + destruct (emplace_FL P cap t vac occ o d p F Hlt) as (v0 & rest & Hv & Hs & Hlt0 & Hni & vac' & F').
      destruct (emplace P cap t o d p) as [t' i] eqn:E. cbn [fst snd] in *. subst i.
      assert (Hne : (v0 =? INVALID) = false).
      { apply Nat.eqb_neq. pose proof (fl_cap _ _ _ _ _ F). unfold INVALID. lia. }
      rewrite Hne in Hok. apply (IH t' vac' _ F'). exact Hok.
    + assert (Hc : t_count t = cap).
      { pose proof (fl_count _ _ _ _ _ F). pose proof (fl_last _ _ _ _ _ F).
        pose proof (used_le P cap t H0). lia. }
      rewrite (emplace_full P cap t vac occ o d p F Hc) in *. cbn [fst].
      rewrite Nat.eqb_refl in Hok. apply (IH t vac occ F Hok).
  - destruct Hok as [Hin Hok].
    pose proof (remove_FL P cap t vac occ i F Hin) as F'.
    apply (IH _ _ _ F'). rewrite map_fst_rem. exact Hok.
  - pose proof (clear_FL P cap t vac occ F) as F'. apply (IH _ _ _ F'). exact Hok.
Qed.

Theorem tl_run_FL : forall ops, 1 <= cap <= 255 ->
  tl_ops_ok ops (tl_init P cap) -> exists vac occ, FL P cap (tl_run ops (tl_init P cap)) vac occ.
Proof.
  intros ops Hc Hok. apply (run_FL_gen ops (tl_init P cap) [0] []); [apply init_FL; exact Hc|exact Hok].
Qed.

(* ---- no leak ---- *)
Fixpoint emplace_all (t : tl P) (tasks : list (nat * nat * option P)) : tl P * list nat :=
  match tasks with
  | [] => (t, [])
  | (o, d, p) :: r => let '(t1, i) := emplace P cap t o d p in
                      let '(t2, is) := emplace_all t1 r in (t2, i :: is)
  end.

Lemma count_of_FL t vac occ : FL P cap t vac occ -> t_count t = length occ.
Proof. intro F. exact (fl_count_occ _ _ _ _ _ F). Qed.

Lemma emplace_all_gen : forall tasks t vac occ,
  FL P cap t vac occ -> length occ + length tasks <= cap ->
  let '(t', idxs) := emplace_all t tasks in
  Forall (fun i => i < cap) idxs /\ length idxs = length tasks /\ NoDup idxs /\
  (forall i, In i idxs -> ~ In i (map fst occ)) /\
  exists vac' occ', FL P cap t' vac' occ' /\ length occ' = length occ + length tasks.
Proof.
  induction tasks as [|[[o d] p] tasks IH]; intros t vac occ F Hlen; cbn [emplace_all].
  - repeat split; try constructor. { intros i []. } exists vac, occ. split; [exact F|cbn; lia].
  - cbn [length] in Hlen.
    assert (Hlt : t_count t < cap) by (rewrite (count_of_FL t vac occ F); lia).
    destruct (emplace_FL P cap t vac occ o d p F Hlt) as (v0 & rest & Hv & Hs & Hlt0 & Hni & vac' & F').
    destruct (emplace P cap t o d p) as [t1 i] eqn:E. cbn [fst snd] in *. subst i.
    specialize (IH t1 vac' _ F'). cbn [length] in IH.
    destruct (emplace_all t1 tasks) as [t2 is].
    destruct IH as (Hall & Hl & Hnd & Hfresh & vac2 & occ2 & F2 & Hl2); [lia|].
    repeat split.
    + constructor; assumption.
    + cbn; lia.
    + constructor; [|exact Hnd]. intro Hin. apply (Hfresh _ Hin). cbn [map fst]. left. reflexivity.
    + intros i [<-|Hin]; [exact Hni|]. intro Hc. apply (Hfresh _ Hin). cbn [map fst]. right. exact Hc.
    + exists vac2, occ2. split; [exact F2|cbn [length]; lia].
Qed.

Theorem emplace_all_spec : forall t vac occ tasks,
  FL P cap t vac occ -> length occ + length tasks = cap ->
  let '(t', idxs) := emplace_all t tasks in
  Forall (fun i => i < cap) idxs /\ length idxs = length tasks /\ NoDup idxs /\ t_count t' = cap /\
  forall o d p, emplace P cap t' o d p = (t', INVALID).
Proof.
  intros t vac occ tasks F Hlen.
  pose proof (emplace_all_gen tasks t vac occ F) as H.
  destruct (emplace_all t tasks) as [t' idxs].
  destruct H as (Hall & Hl & Hnd & _ & vac' & occ' & F' & Hl'); [lia|].
  assert (Hc : t_count t' = cap) by (rewrite (count_of_FL t' vac' occ' F'); lia).
  repeat split; try assumption.
  intros o d p. exact (emplace_full P cap t' vac' occ' o d p F' Hc).
Qed.
End R.
