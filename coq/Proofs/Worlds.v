(* Several instances. The correspondence scripts live in worlds (Model/Multi.v): instances are constructed, destroyed,
   copy-constructed from one another, loaded from one another's save() and driven through the single-instance API.
   The model runner evaluates the extracted contract test first_violation (Proofs/Contract.v) on every script. This file
   closes the chain from that executable test to the single-instance theorems: if first_violation says None, then after
   every operation of the script every live instance satisfies the machine invariant (with well-formed report bits,
   PIw) - so every statement made for one call on a state with the invariant (all of C01..C12, C16) applies to every
   call the script makes on every instance, copies and loaded instances included - and every API operation the script
   performs is in_contract in the sense of Proofs/MachineLife.v. *)
From Coq Require Import List Arith Bool NArith Lia.
From FFSM2 Require Import Model.TaskList Model.BitArray Model.Plan Model.Ancestors Model.BitStream Model.Machine Model.Script Model.Multi
  Proofs.BitArrayProofs Proofs.MachineFrame Proofs.PlanProofs Proofs.MachinePlan Proofs.MachineLife Proofs.SerialProofs Proofs.Contract.
Import ListNotations.

Arguments INVALID : simpl never.

Section WW.
Variable P : Type.
Variable cfg : config.
Variable orc_of : nat -> oracle P.
Hypothesis Hcfg : wf_cfg cfg.
Hypothesis Hwf : forall i, wf_oracle P cfg (orc_of i).

Local Notation n := (c_n cfg).
Local Notation cap := (c_cap cfg).
Local Notation nN := (N.of_nat n).

Let Hn1 : (1 <= nN)%N.
Proof. pose proof (proj1 (proj1 Hcfg)). lia. Qed.
Let Hcap : 1 <= cap <= 255 := proj1 (proj2 Hcfg).
Let Hn : 1 <= n <= 255 := proj1 Hcfg.
Let HPIw : plan_inv_ok P cfg (PIw P cfg) := PIw_ok P cfg Hn1 Hcap.

Definition IInv (s : mstate P) : Prop := SInv P cfg (PIw P cfg) s.
Definition WInv (w : world P) : Prop := forall i s, get_inst P w i = Some s -> IInv s.

Lemma nth_set_nth_same {A} (l : list A) i v d : i < length l -> nth i (set_nth l i v) d = v.
Proof.
  revert i. induction l as [|h t IH]; intros [|i] H; cbn [set_nth nth length] in *; try lia; [reflexivity|].
  apply IH. lia.
Qed.
Lemma nth_set_nth_other {A} (l : list A) i j v d : i <> j -> nth j (set_nth l i v) d = nth j l d.
Proof.
  revert i j. induction l as [|h t IH]; intros [|i] [|j] H; cbn [set_nth nth]; try reflexivity; try congruence.
  apply IH. congruence.
Qed.
Lemma nth_set_nth_beyond {A} (l : list A) i v d : length l <= i -> nth i (set_nth l i v) d = nth i l d.
Proof.
  revert i. induction l as [|h t IH]; intros [|i] H; cbn [set_nth nth length] in *; try reflexivity; try lia.
  apply IH. lia.
Qed.

(* after writing slot i, every live instance is either the one written or one that was there before *)
Lemma get_set w i v j s :
  get_inst P {| insts := set_nth (insts P w) i v; glog := glog P w |} j = Some s ->
  (j = i /\ v = Some s) \/ get_inst P w j = Some s.
Proof.
  unfold get_inst. cbn [insts]. intro H.
  destruct (Nat.eq_dec i j) as [->|Hne].
  - destruct (Nat.lt_ge_cases j (length (insts P w))) as [Hlt|Hge].
    + rewrite nth_set_nth_same in H by exact Hlt. left. split; [reflexivity|exact H].
    + rewrite nth_set_nth_beyond in H by exact Hge. right. exact H.
  - rewrite nth_set_nth_other in H by exact Hne. right. exact H.
Qed.

Lemma finish_inv w i op before s' ret log0 :
  WInv w -> (forall s1, s' = Some s1 -> IInv s1) -> WInv (finish P cfg w i op before s' ret log0).
Proof.
  intros HW Hs j s Hj. unfold finish in Hj.
  assert (Hj' : get_inst P {| insts := set_nth (insts P w) i s'; glog := glog P w |} j = Some s).
  { unfold get_inst in *. cbn [insts] in *. destruct s'; exact Hj. }
  destruct (get_set w i s' j s Hj') as [[_ E]|E]; [exact (Hs s E)|exact (HW j s E)].
Qed.

Lemma copy_core_id (c : core P) : copy_core P c = c.
Proof. destruct c. reflexivity. Qed.

Theorem wstep_inv w op : WInv w -> wop_okb P cfg w op = true -> WInv (wstep P cfg orc_of w op).
Proof.
  intros HW Hok. destruct op as [i lg|i|i j|i j|i aop]; cbn [wstep wop_okb] in *.
  - (* construct *)
    apply finish_inv; [exact HW|]. intros s1 E. inversion E; subst s1.
    exact (proj1 (construct_spec P cfg (orc_of i) (PIw P cfg) HPIw (Hwf i) Hcfg lg)).
  - (* destroy: the instance is gone *)
    destruct (get_inst P w i) as [s|] eqn:Ei; [|discriminate].
    intros j s0 Hj.
    assert (Hj' : get_inst P {| insts := set_nth (insts P w) i None; glog := glog P w |} j = Some s0) by exact Hj.
    destruct (get_set w i None j s0 Hj') as [[_ E]|E]; [discriminate|exact (HW j s0 E)].
  - (* copy construction *)
    destruct (get_inst P w i) as [si|] eqn:Ei; [discriminate|].
    destruct (get_inst P w j) as [sj|] eqn:Ej; [|discriminate].
    apply finish_inv; [exact HW|]. intros s1 E. inversion E; subst s1.
    pose proof (HW j sj Ej) as Hj. unfold IInv, SInv in *. cbn [co]. rewrite copy_core_id. exact Hj.
  - (* load from another instance *)
    destruct (get_inst P w i) as [si|] eqn:Ei; [|discriminate].
    destruct (get_inst P w j) as [sj|] eqn:Ej; [|discriminate].
    apply andb_true_iff in Hok. destruct Hok as [Hs Hl].
    apply finish_inv; [exact HW|]. intros s1 E. inversion E; subst s1.
    pose proof (load_from_in_contract P cfg si sj Hn Hs Hl) as Hc. cbn [in_contract] in Hc. destruct Hc as [Hb Hauto].
    exact (proj1 (load_spec P cfg (orc_of i) (PIw P cfg) HPIw (Hwf i) Hcfg _ si (HW i si Ei) Hb Hauto)).
  - (* an API call on instance i *)
    destruct (get_inst P w i) as [s|] eqn:Ei; [|discriminate].
    pose proof (in_contractb_spec P cfg s aop Hok) as Hc.
    pose proof (step_spec P cfg (orc_of i) (PIw P cfg) HPIw (Hwf i) Hcfg s aop (HW i s Ei) Hc) as St. cbv zeta in St.
    destruct (step P cfg (orc_of i) s aop) as [s1 ret] eqn:Es. cbn [fst] in St.
    apply finish_inv; [exact HW|]. intros s2 E. inversion E; subst s2. exact (proj1 St).
Qed.

Lemma wrun_from_inv : forall ops w k,
  WInv w -> first_violation P cfg orc_of k w ops = None -> WInv (fold_left (wstep P cfg orc_of) ops w).
Proof.
  induction ops as [|op ops IH]; intros w k HW Hv; cbn [fold_left first_violation] in *; [exact HW|].
  destruct (wop_okb P cfg w op) eqn:Eok; [|discriminate].
  apply (IH _ (S k)); [apply wstep_inv; assumption|exact Hv].
Qed.

Lemma WInv_empty slots : WInv {| insts := repeat None slots; glog := [] |}.
Proof.
  intros i s H. unfold get_inst in H. cbn [insts] in H.
  assert (E : nth i (repeat (@None (mstate P)) slots) None = None).
  { destruct (Nat.lt_ge_cases i slots) as [Hlt|Hge].
    - apply nth_repeat.
    - apply nth_overflow. rewrite repeat_length. exact Hge. }
  rewrite E in H. discriminate.
Qed.

(* every script the runner accepts: after all of its operations (hence, applied to prefixes, after each of them) every
   live instance satisfies the invariant *)
Theorem wrun_inv slots ops :
  first_violation P cfg orc_of 0 {| insts := repeat None slots; glog := [] |} ops = None ->
  WInv (wrun P cfg orc_of slots ops).
Proof. intro H. unfold wrun. exact (wrun_from_inv ops _ 0 (WInv_empty slots) H). Qed.

Lemma first_violation_prefix : forall pre post w k,
  first_violation P cfg orc_of k w (pre ++ post) = None -> first_violation P cfg orc_of k w pre = None.
Proof.
  induction pre as [|op pre IH]; intros post w k H; cbn [app first_violation] in *; [reflexivity|].
  destruct (wop_okb P cfg w op); [|discriminate]. exact (IH post _ _ H).
Qed.

(* ... and every API call the script makes is made on an instance with the invariant, and is in contract there *)
Theorem every_call_of_every_script slots pre i aop post :
  first_violation P cfg orc_of 0 {| insts := repeat None slots; glog := [] |} (pre ++ WOp P i aop :: post) = None ->
  exists s, get_inst P (wrun P cfg orc_of slots pre) i = Some s /\ IInv s /\ in_contract P cfg s aop.
Proof.
  intro H.
  pose proof (wrun_inv slots pre (first_violation_prefix pre _ _ _ H)) as HW.
  assert (Hstep : forall ops w k, first_violation P cfg orc_of k w (ops ++ WOp P i aop :: post) = None ->
                  wop_okb P cfg (fold_left (wstep P cfg orc_of) ops w) (WOp P i aop) = true).
  { induction ops as [|op ops IH]; intros w k Hv; cbn [app fold_left first_violation] in *.
    - destruct (wop_okb P cfg w (WOp P i aop)); [reflexivity|discriminate].
    - destruct (wop_okb P cfg w op); [|discriminate]. exact (IH _ _ Hv). }
  specialize (Hstep pre _ 0 H). fold (wrun P cfg orc_of slots pre) in Hstep. cbn [wop_okb] in Hstep.
  destruct (get_inst P (wrun P cfg orc_of slots pre) i) as [s|] eqn:Ei; [|discriminate].
  exists s. split; [reflexivity|]. split; [exact (HW i s Ei)|apply in_contractb_spec; exact Hstep].
Qed.

(* ---- what the multi-instance operations do, at any point of any accepted script (C12, C17) ---- *)
Lemma get_inst_in_range w i s : get_inst P w i = Some s -> i < length (insts P w).
Proof.
  unfold get_inst. intro H. destruct (Nat.lt_ge_cases i (length (insts P w))) as [L|G]; [exact L|].
  rewrite nth_overflow in H by exact G. discriminate.
Qed.

Lemma get_finish_same w i op before s' ret log0 :
  i < length (insts P w) -> get_inst P (finish P cfg w i op before s' ret log0) i = s'.
Proof.
  intro H. unfold finish, get_inst. destruct s' as [s1|]; cbn [insts]; apply nth_set_nth_same; exact H.
Qed.

Lemma okb_at : forall ops w k op post,
  first_violation P cfg orc_of k w (ops ++ op :: post) = None ->
  wop_okb P cfg (fold_left (wstep P cfg orc_of) ops w) op = true.
Proof.
  induction ops as [|o ops IH]; intros w k op post Hv; cbn [app fold_left first_violation] in *.
  - destruct (wop_okb P cfg w op); [reflexivity|discriminate].
  - destruct (wop_okb P cfg w o); [|discriminate]. exact (IH _ _ _ _ Hv).
Qed.

Lemma wrun_snoc slots pre op : wrun P cfg orc_of slots (pre ++ [op]) = wstep P cfg orc_of (wrun P cfg orc_of slots pre) op.
Proof. unfold wrun. rewrite fold_left_app. reflexivity. Qed.

Lemma set_nth_length {A} (l : list A) k v : length (set_nth l k v) = length l.
Proof. revert k. induction l as [|h t IH]; intros [|k]; cbn [set_nth length]; auto. Qed.

Lemma wstep_slots w op : length (insts P (wstep P cfg orc_of w op)) = length (insts P w).
Proof.
  destruct op as [i lg|i|i j|i j|i aop]; cbn [wstep]; unfold finish;
    repeat match goal with |- context [match ?x with _ => _ end] => destruct x end; cbn [insts]; rewrite ?set_nth_length; reflexivity.
Qed.

Lemma wrun_slots slots ops : length (insts P (wrun P cfg orc_of slots ops)) = slots.
Proof.
  unfold wrun.
  assert (G : forall ops w, length (insts P (fold_left (wstep P cfg orc_of) ops w)) = length (insts P w)).
  { induction ops0 as [|op ops0 IH]; intro w; cbn [fold_left]; [reflexivity|]. rewrite IH. apply wstep_slots. }
  rewrite G. cbn [insts]. apply repeat_length.
Qed.

(* C12: j.save(buffer); i.load(buffer) anywhere in an accepted script leaves instance i with instance j's activity, by
   exactly the lifecycle change needed, whatever the two instances went through before (copies, loads, other calls) *)
Theorem every_load_between_instances slots pre i j post :
  first_violation P cfg orc_of 0 {| insts := repeat None slots; glog := [] |} (pre ++ WLoadFrom P i j :: post) = None ->
  exists si sj si',
    get_inst P (wrun P cfg orc_of slots pre) i = Some si /\
    get_inst P (wrun P cfg orc_of slots pre) j = Some sj /\
    get_inst P (wrun P cfg orc_of slots (pre ++ [WLoadFrom P i j])) i = Some si' /\
    active P (co P si') = active P (co P sj) /\
    exists l, tr P si' = l ++ tr P si /\ change P cfg (active P (co P si)) (active P (co P sj)) l /\ Forall (only_life P) l.
Proof.
  intro H.
  pose proof (wrun_inv slots pre (first_violation_prefix pre _ _ _ H)) as HW.
  pose proof (okb_at pre _ 0 _ post H) as Hok. fold (wrun P cfg orc_of slots pre) in Hok. cbn [wop_okb] in Hok.
  destruct (get_inst P (wrun P cfg orc_of slots pre) i) as [si|] eqn:Ei; [|discriminate].
  destruct (get_inst P (wrun P cfg orc_of slots pre) j) as [sj|] eqn:Ej; [|discriminate].
  apply andb_true_iff in Hok. destruct Hok as [Hs Hl].
  assert (Hauto : c_manual cfg = false -> is_on P cfg si).
  { intro Hm. rewrite Hm in Hl. cbn [orb] in Hl. apply Nat.ltb_lt. exact Hl. }
  pose proof (load_roundtrip P cfg (orc_of i) (PIw P cfg) HPIw (Hwf i) Hcfg (co P sj) si (HW i si Ei) (saver_okb_spec P cfg _ Hs) Hauto) as R.
  cbv zeta in R. destruct R as (_ & A & _ & l & El & C).
  exists si, sj, (load P cfg (orc_of i) (save P cfg (co P sj)) si).
  split; [reflexivity|]. split; [reflexivity|]. split.
  - rewrite wrun_snoc. cbn [wstep]. rewrite Ei, Ej. apply get_finish_same. exact (get_inst_in_range _ _ _ Ei).
  - split; [exact A|]. exists l. split; [exact El|]. split; [exact C|exact (change_only_life P cfg _ _ _ C)].
Qed.

(* C17: copy construction anywhere in an accepted script yields an instance whose core is the original's, so everything
   the instance reports (active state, isActive table, request, previous transition, plan, serialized form) is equal,
   and the original is untouched *)
Theorem every_copy_equals_its_original slots pre i j post :
  first_violation P cfg orc_of 0 {| insts := repeat None slots; glog := [] |} (pre ++ WCopy P i j :: post) = None ->
  i < slots ->
  exists sj sc,
    get_inst P (wrun P cfg orc_of slots pre) j = Some sj /\
    get_inst P (wrun P cfg orc_of slots (pre ++ [WCopy P i j])) i = Some sc /\
    co P sc = co P sj /\ tr P sc = [] /\
    observe P cfg (co P sc) = observe P cfg (co P sj) /\
    get_inst P (wrun P cfg orc_of slots (pre ++ [WCopy P i j])) j = Some sj.
Proof.
  intros H Hi.
  pose proof (okb_at pre _ 0 _ post H) as Hok. fold (wrun P cfg orc_of slots pre) in Hok. cbn [wop_okb] in Hok.
  destruct (get_inst P (wrun P cfg orc_of slots pre) i) as [si|] eqn:Ei; [discriminate|].
  destruct (get_inst P (wrun P cfg orc_of slots pre) j) as [sj|] eqn:Ej; [|discriminate].
  assert (Hne : i <> j) by (apply Nat.eqb_neq; apply negb_true_iff; exact Hok).
  exists sj, {| co := copy_core P (co P sj); tr := [] |}.
  split; [reflexivity|]. rewrite wrun_snoc. cbn [wstep]. rewrite Ej. split.
  - apply get_finish_same. rewrite wrun_slots. exact Hi.
  - cbn [co tr]. rewrite copy_core_id. split; [reflexivity|]. split; [reflexivity|]. split; [reflexivity|].
    unfold finish, get_inst. cbn [insts]. rewrite nth_set_nth_other by exact Hne. exact Ej.
Qed.

End WW.
