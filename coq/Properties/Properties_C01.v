(* C01 — Exactly one active state; enter/exit strictly paired over the whole lifetime. Theorems only.
   Vocabulary (Proofs/MachineFrame.v, Proofs/MachineLife.v):
     SInv s          between API calls: registry.requested is INVALID, the machine is inactive (active = INVALID) or has
                     exactly one active state < n, the outstanding request (if any) names a state, the plan is well formed;
     deliv w m a l   l are the events of ONE delivery of callback m to w while a is the active state: only callbacks of (w, m),
                     each recipient (injected bases, then/before the state itself, per C15) exactly once, in order, every
                     view reporting id_of w and control.isActive(k) = (k = a) for all k;
     change a a' l   the lifecycle events of one call: none | exit(a) then enter(a') | reenter(a) | root enter then enter(a')
                     | exit(a) then root exit;
     life_shape a a' l = (a change a a' preceded by a quiet stretch: no enter/exit/reenter at all, every view shows a);
     life_chain a0 a l = the trace l is a concatenation of life_shapes leading from a0 to a.  *)
From Coq Require Import List Arith.
From FFSM2 Require Import Model.TaskList Model.Plan Model.Machine Proofs.MachineFrame Proofs.MachinePlan Proofs.MachineLife Proofs.SerialProofs.
Import ListNotations.

(* every API history from construction, every behaviour of the callbacks, every n, capacity, limit, activation mode,
   head or no head, payload type: the state between calls is well formed and the whole trace is a chain of lifecycle shapes *)
Theorem C01_every_history : forall (P : Type) cfg (orc : oracle P),
  wf_cfg cfg -> wf_oracle P cfg orc -> forall lg ops,
  ops_ok P cfg orc (construct P cfg orc lg) ops ->
  let s := run P cfg orc lg ops in
  SInv P cfg (PIc P cfg) s /\ life_chain P cfg INVALID (active P (co P s)) (tr P s).
Proof.
  intros P cfg orc Hcfg Hwf. exact (run_life P cfg orc (PIc P cfg) (PIc_ok P cfg (proj1 (proj2 Hcfg))) Hwf Hcfg).
Qed.
Print Assumptions C01_every_history.

(* one API call on any reachable state *)
Theorem C01_one_call : forall (P : Type) cfg (orc : oracle P),
  wf_cfg cfg -> wf_oracle P cfg orc -> forall s op,
  SInv P cfg (PIc P cfg) s -> in_contract P cfg s op ->
  let s' := fst (step P cfg orc s op) in
  SInv P cfg (PIc P cfg) s' /\
  exists l, tr P s' = l ++ tr P s /\ life_shape P cfg (active P (co P s)) (active P (co P s')) l.
Proof.
  intros P cfg orc Hcfg Hwf. exact (step_spec P cfg orc (PIc P cfg) (PIc_ok P cfg (proj1 (proj2 Hcfg))) Hwf Hcfg).
Qed.
Print Assumptions C01_one_call.

(* construction activates an automatic machine (root enter, then the initial or redirected state) and leaves a manual one inactive;
   destruction of an automatic machine exits the active state and then the root *)
Theorem C01_construct : forall (P : Type) cfg (orc : oracle P),
  wf_cfg cfg -> wf_oracle P cfg orc -> forall lg,
  let s := construct P cfg orc lg in
  SInv P cfg (PIc P cfg) s /\ life_chain P cfg INVALID (active P (co P s)) (tr P s) /\
  (c_manual cfg = false -> is_on P cfg s) /\ (c_manual cfg = true -> is_off P s).
Proof.
  intros P cfg orc Hcfg Hwf. exact (construct_spec P cfg orc (PIc P cfg) (PIc_ok P cfg (proj1 (proj2 Hcfg))) Hwf Hcfg).
Qed.
Print Assumptions C01_construct.
Theorem C01_destroy : forall (P : Type) cfg (orc : oracle P),
  wf_cfg cfg -> wf_oracle P cfg orc -> forall s a0,
  SInv P cfg (PIc P cfg) s -> (c_manual cfg = false -> is_on P cfg s) -> life_chain P cfg a0 (active P (co P s)) (tr P s) ->
  let s' := destroy P cfg orc s in
  life_chain P cfg a0 (active P (co P s')) (tr P s') /\ (c_manual cfg = false -> is_off P s').
Proof.
  intros P cfg orc Hcfg Hwf. exact (destroy_spec P cfg orc (PIc P cfg) (PIc_ok P cfg (proj1 (proj2 Hcfg))) Hwf).
Qed.
Print Assumptions C01_destroy.

(* deactivation: exit(active) then exit(root), nothing else; reenter only to the active state: these are the constructors of [change] *)
Theorem C01_exit_pairs : forall (P : Type) cfg (orc : oracle P),
  wf_cfg cfg -> wf_oracle P cfg orc -> forall s a,
  active P (co P s) = a -> a < c_n cfg -> PIc P cfg (plan P (co P s)) ->
  let s' := final_exit P cfg orc s in
  SInv P cfg (PIc P cfg) s' /\ active P (co P s') = INVALID /\ logger P (co P s') = logger P (co P s) /\
  exists l, tr P s' = l ++ tr P s /\ change P cfg a INVALID l.
Proof.
  intros P cfg orc Hcfg Hwf. exact (final_exit_spec P cfg orc (PIc P cfg) (PIc_ok P cfg (proj1 (proj2 Hcfg))) Hwf).
Qed.
Print Assumptions C01_exit_pairs.

(* a lifecycle change runs enter/exit/reenter callbacks only (no guard, no phase callback in between) *)
Theorem C01_change_only_lifecycle : forall (P : Type) cfg a a' l, change P cfg a a' l -> Forall (only_life P) l.
Proof. exact change_only_life. Qed.
Print Assumptions C01_change_only_lifecycle.
