(* C01 - Exactly one active state; enter/exit strictly paired over the whole lifetime. Theorems only. SInv s = between
   API calls: registry.requested is INVALID, the machine is inactive (active = INVALID) or has exactly one active state
   < n, the outstanding request (if any) names a state, the plan is well formed (PIc); deliv w m a l = l are the events
   of ONE delivery of callback m to w while a is active: only callbacks of (w, m), each recipient (injected bases and
   the state itself, in C15 order) exactly once, every view reporting id_of w and isActive(k) = (k = a); change a a' l
   = the lifecycle events of one call: none | exit(a);enter(a') | reenter(a) | root enter;enter(a') | exit(a);root
   exit; life_shape a a' l = a change preceded by a quiet stretch (no enter/exit/reenter at all, every view shows a);
   life_chain a0 a l = the trace l is a concatenation of life_shapes from a0 to a; mon = the executable lifecycle
   monitor of Proofs/LifeMonitor.v (an automaton over the states' own enter/exit/reenter callbacks that also checks
   every view's isActive bits). *)
From Coq Require Import List Arith Bool NArith.
From FFSM2 Require Import Model.TaskList Model.BitArray Model.BitStream Model.Plan Model.Ancestors Model.Machine
  Proofs.BitArrayProofs Proofs.TaskListProofs Proofs.TaskListRun Proofs.PlanProofs Proofs.MachineFrame Proofs.MachinePlan Proofs.MachineLife Proofs.GuardProofs Proofs.CycleProofs Proofs.PlanStep
  Proofs.SerialProofs Proofs.LogProofs Proofs.MachineTop Model.Multi Generated.InitFacts Proofs.ConstructProofs Proofs.LifeMonitor Proofs.ActivationRounds Proofs.IndexSafety Proofs.FeatureProofs Model.Script Proofs.Contract Proofs.Histories Proofs.StatusBits Proofs.Worlds Model.Cxx Generated.LeafCode Proofs.LeafTactics Proofs.LeafConsts Proofs.LeafCodeTaskList Proofs.LeafCodeStream Proofs.LeafCodeWide.
Import ListNotations.

(* every API history from construction, every behaviour of the callbacks, every n <= 255, capacity, limit, activation
   mode, head or no head, payload type: the state between calls is well formed and the whole trace is a chain of
   lifecycle shapes *)
Theorem C01_every_history :
  forall (P : Type) (cfg : config) (orc : oracle P),
         wf_cfg cfg ->
         wf_oracle P cfg orc ->
         forall (lg : bool) (ops : list (api_op P)),
         ops_ok P cfg orc (construct P cfg orc lg) ops ->
         let s := Machine.run P cfg orc lg ops in
         SInv P cfg (PIc P cfg) s /\ life_chain P cfg INVALID (active P (co P s)) (tr P s).
Proof. exact (fun P cfg orc (Hcfg : wf_cfg cfg) (Hwf : wf_oracle P cfg orc) => run_life P cfg orc (PIc P cfg) (PIc_ok P cfg (proj1 (proj2 Hcfg))) Hwf Hcfg). Qed.
Print Assumptions C01_every_history.

(* the executable lifecycle monitor accepts the trace of every history and ends in the state matching activeStateId()
   (for configurations whose states define enter/exit/reenter, so that the lifecycle is observable) *)
Theorem C01_monitor_accepts_every_history :
  forall (P : Type) (cfg : config) (orc : oracle P),
         wf_cfg cfg ->
         wf_oracle P cfg orc ->
         c_def_state cfg MEnter = true ->
         c_def_state cfg MExit = true ->
         c_def_state cfg MReenter = true ->
         forall (lg : bool) (ops : list (api_op P)),
         ops_ok P cfg orc (construct P cfg orc lg) ops ->
         exists st : lstate,
           mon P (c_n cfg) (tr P (Machine.run P cfg orc lg ops)) LsOff = Some st /\
           compatible (c_n cfg) st (active P (co P (Machine.run P cfg orc lg ops))).
Proof. exact (run_accepted). Qed.
Print Assumptions C01_monitor_accepts_every_history.

(* one API call on any reachable state *)
Theorem C01_one_call :
  forall (P : Type) (cfg : config) (orc : oracle P),
         wf_cfg cfg ->
         wf_oracle P cfg orc ->
         forall (s : mstate P) (op : api_op P),
         SInv P cfg (PIc P cfg) s ->
         in_contract P cfg s op ->
         let s' := fst (step P cfg orc s op) in
         SInv P cfg (PIc P cfg) s' /\
         (exists l : list (event P),
            tr P s' = l ++ tr P s /\ life_shape P cfg (active P (co P s)) (active P (co P s')) l).
Proof. exact (fun P cfg orc (Hcfg : wf_cfg cfg) (Hwf : wf_oracle P cfg orc) => step_spec P cfg orc (PIc P cfg) (PIc_ok P cfg (proj1 (proj2 Hcfg))) Hwf Hcfg). Qed.
Print Assumptions C01_one_call.

(* construction activates an automatic machine (root enter, then the initial or redirected state) and leaves a manual
   one inactive *)
Theorem C01_construct :
  forall (P : Type) (cfg : config) (orc : oracle P),
         wf_cfg cfg ->
         wf_oracle P cfg orc ->
         forall lg : bool,
         let s := construct P cfg orc lg in
         SInv P cfg (PIc P cfg) s /\
         life_chain P cfg INVALID (active P (co P s)) (tr P s) /\
         (c_manual cfg = false -> is_on P cfg s) /\ (c_manual cfg = true -> is_off P s).
Proof. exact (fun P cfg orc (Hcfg : wf_cfg cfg) (Hwf : wf_oracle P cfg orc) => construct_spec P cfg orc (PIc P cfg) (PIc_ok P cfg (proj1 (proj2 Hcfg))) Hwf Hcfg). Qed.
Print Assumptions C01_construct.

(* destruction of an automatic machine exits the active state and then the root *)
Theorem C01_destroy :
  forall (P : Type) (cfg : config) (orc : oracle P),
         wf_cfg cfg ->
         wf_oracle P cfg orc ->
         forall (s : mstate P) (a0 : nat),
         SInv P cfg (PIc P cfg) s ->
         (c_manual cfg = false -> is_on P cfg s) ->
         life_chain P cfg a0 (active P (co P s)) (tr P s) ->
         let s' := destroy P cfg orc s in
         life_chain P cfg a0 (active P (co P s')) (tr P s') /\ (c_manual cfg = false -> is_off P s').
Proof. exact (fun P cfg orc (Hcfg : wf_cfg cfg) (Hwf : wf_oracle P cfg orc) => destroy_spec P cfg orc (PIc P cfg) (PIc_ok P cfg (proj1 (proj2 Hcfg))) Hwf). Qed.
Print Assumptions C01_destroy.

(* deactivation: exit(active) then exit(root), nothing else *)
Theorem C01_exit_pairs :
  forall (P : Type) (cfg : config) (orc : oracle P),
         wf_cfg cfg ->
         wf_oracle P cfg orc ->
         forall (s : mstate P) (a : nat),
         active P (co P s) = a ->
         a < c_n cfg ->
         PIc P cfg (plan P (co P s)) ->
         let s' := final_exit P cfg orc s in
         SInv P cfg (PIc P cfg) s' /\
         active P (co P s') = INVALID /\
         logger P (co P s') = logger P (co P s) /\
         (exists l : list (event P), tr P s' = l ++ tr P s /\ change P cfg a INVALID l).
Proof. exact (fun P cfg orc (Hcfg : wf_cfg cfg) (Hwf : wf_oracle P cfg orc) => final_exit_spec P cfg orc (PIc P cfg) (PIc_ok P cfg (proj1 (proj2 Hcfg))) Hwf). Qed.
Print Assumptions C01_exit_pairs.

(* a lifecycle change runs enter/exit/reenter callbacks only *)
Theorem C01_change_only_lifecycle :
  forall (P : Type) (cfg : config) (a a' : nat) (l : list (event P)),
         change P cfg a a' l -> Forall (only_life P) l.
Proof. exact (change_only_life). Qed.
Print Assumptions C01_change_only_lifecycle.

(* in any accepted trace the next own lifecycle callback of a state after enter(k) is exit(k) or reenter(k) *)
Theorem C01_after_enter_comes_exit_or_reenter :
  forall (P : Type) (n : nat) (l3 : list (event P)) (e2 : event P) (l2 : list (event P)) 
           (k : nat) (v : Machine.view P) (l1 : list (event P)) (st st' : lstate),
         mon P n (l3 ++ e2 :: l2 ++ EvCb P (St k) Own MEnter v :: l1) st = Some st' ->
         forallb (fun e : event P => negb (state_life P e)) l2 = true ->
         state_life P e2 = true ->
         exists v2 : Machine.view P, e2 = EvCb P (St k) Own MExit v2 \/ e2 = EvCb P (St k) Own MReenter v2.
Proof. exact (accepted_after_enter). Qed.
Print Assumptions C01_after_enter_comes_exit_or_reenter.

Theorem C01_no_two_enters_without_exit :
  forall (P : Type) (n : nat) (l3 : list (event P)) (k2 : nat) (v2 : Machine.view P)
           (l2 : list (event P)) (k1 : nat) (v1 : Machine.view P) (l1 : list (event P)) 
           (st st' : lstate),
         mon P n (l3 ++ EvCb P (St k2) Own MEnter v2 :: l2 ++ EvCb P (St k1) Own MEnter v1 :: l1) st = Some st' ->
         existsb (own_exit_of P k1) l2 = true.
Proof. exact (accepted_enter_enter). Qed.
Print Assumptions C01_no_two_enters_without_exit.

Theorem C01_views_show_the_entered_state :
  forall (P : Type) (n : nat) (l2 : list (event P)) (k : nat) (m : Ancestors.method)
           (v : Machine.view P) (l1 : list (event P)) (st st' : lstate),
         mon P n (l2 ++ EvCb P (St k) Own m v :: l1) st = Some st' ->
         is_life m = true -> v_act P v = LifeMonitor.bits n k.
Proof. exact (accepted_life_view). Qed.
Print Assumptions C01_views_show_the_entered_state.

(* the correspondence check's scripted callbacks satisfy wf_oracle when the extracted test table_okb says so (the model
   runner evaluates it for every script) *)
Theorem C01_scripted_callbacks_are_in_the_domain :
  forall (P : Type) (cfg : config) (tab : list (entry P)),
         table_okb P cfg tab = true -> wf_oracle P cfg (table_oracle P tab).
Proof. exact (table_oracle_wf). Qed.
Print Assumptions C01_scripted_callbacks_are_in_the_domain.

(* ... and an operation the extracted test in_contractb accepts is in_contract (the model runner evaluates
   first_violation for every script and the check skips a script that is not) *)
Theorem C01_scripted_operations_are_in_the_domain :
  forall (P : Type) (cfg : config) (s : mstate P) (op : api_op P),
         in_contractb P cfg s op = true -> in_contract P cfg s op.
Proof. exact (in_contractb_spec). Qed.
Print Assumptions C01_scripted_operations_are_in_the_domain.

Theorem C01_loads_between_instances_are_in_the_domain :
  forall (P : Type) (cfg : config) (si sj : mstate P),
         1 <= c_n cfg <= 255 ->
         saver_okb P cfg (co P sj) = true ->
         c_manual cfg || is_onb P cfg si = true -> in_contract P cfg si (OLoad P (save P cfg (co P sj))).
Proof. exact (load_from_in_contract). Qed.
Print Assumptions C01_loads_between_instances_are_in_the_domain.

(* what a prefix of a history produced stays in the trace: later calls only add events (so an enter() once delivered is
   never un-delivered and the pairing argument is over one growing trace) *)
Theorem C01_trace_only_grows :
  forall (P : Type) (cfg : config) (orc : oracle P),
         wf_cfg cfg ->
         wf_oracle P cfg orc ->
         forall (lg : bool) (pre post : list (api_op P)),
         ops_ok P cfg orc (construct P cfg orc lg) (pre ++ post) ->
         exists l : list (event P),
           tr P (Machine.run P cfg orc lg (pre ++ post)) = l ++ tr P (Machine.run P cfg orc lg pre).
Proof. exact (trace_monotone). Qed.
Print Assumptions C01_trace_only_grows.

(* several instances (construction, destruction, copy construction, load from another instance's save(), API calls): if
   the extracted contract test first_violation accepts a script - the model runner evaluates it for every script of the
   correspondence check - then every live instance satisfies the machine invariant (with well-formed report bits)
   afterwards, copies and loaded instances included *)
Theorem C01_every_instance_of_every_accepted_script_has_the_invariant :
  forall (P : Type) (cfg : config) (orc_of : nat -> oracle P),
         wf_cfg cfg ->
         (forall i : nat, wf_oracle P cfg (orc_of i)) ->
         forall (slots : nat) (ops : list (wop P)),
         first_violation P cfg orc_of 0 {| insts := repeat None slots; glog := [] |} ops = None ->
         WInv P cfg (wrun P cfg orc_of slots ops).
Proof. exact (wrun_inv). Qed.
Print Assumptions C01_every_instance_of_every_accepted_script_has_the_invariant.

(* ... and every API call the script makes is made on an instance with the invariant and is in_contract there: the per-
   call statements of C01..C12 and C16 apply to every call of every script the check runs *)
Theorem C01_every_call_of_every_accepted_script_is_in_the_domain :
  forall (P : Type) (cfg : config) (orc_of : nat -> oracle P),
         wf_cfg cfg ->
         (forall i : nat, wf_oracle P cfg (orc_of i)) ->
         forall (slots : nat) (pre : list (wop P)) (i : nat) (aop : api_op P) (post : list (wop P)),
         first_violation P cfg orc_of 0 {| insts := repeat None slots; glog := [] |}
           (pre ++ WOp P i aop :: post) = None ->
         exists s : mstate P,
           get_inst P (wrun P cfg orc_of slots pre) i = Some s /\ IInv P cfg s /\ in_contract P cfg s aop.
Proof. exact (every_call_of_every_script). Qed.
Print Assumptions C01_every_call_of_every_accepted_script_is_in_the_domain.

