(* C02 - Transition outcome: last surviving request wins, applied only when processed. Theorems only. Vocabulary: Ready
   cfg s a = the machine is at a point where requests are processed (or between API calls) with state a < n active,
   registry.requested = INVALID, the outstanding request (if any) names a state, the plan is well formed; Inv = the
   same without naming a. loop_rounds = the guard rounds the substitution loop executes (ghost-instrumented copy of the
   loop, proved equal to it: transitions_loop_g_erase), each with its pending transition, whether it was cancelled, and
   whether it was dropped by applyRequest's same-destination rule; last_survivor = the pending transition of the last
   round neither cancelled nor dropped; rounds_shape / guard_round describe the events of the rounds (exit guard of the
   active state, then - unless it cancelled - entry guard of the destination; every guard view shows that round's
   pending transition and the survivor so far); change a a' l = the lifecycle events exit(a);enter(a') | reenter(a) |
   ...; quiet a l = no enter/exit/reenter in l and every view shows a active. *)
From Coq Require Import List Arith Bool NArith.
From FFSM2 Require Import Model.TaskList Model.BitArray Model.BitStream Model.Plan Model.Ancestors Model.Machine
  Proofs.BitArrayProofs Proofs.TaskListProofs Proofs.TaskListRun Proofs.PlanProofs Proofs.MachineFrame Proofs.MachinePlan Proofs.MachineLife Proofs.GuardProofs Proofs.CycleProofs Proofs.PlanStep
  Proofs.SerialProofs Proofs.LogProofs Proofs.MachineTop Model.Multi Generated.InitFacts Proofs.ConstructProofs Proofs.LifeMonitor Proofs.ActivationRounds Proofs.IndexSafety Proofs.FeatureProofs Model.Script Proofs.Contract Proofs.Histories Proofs.StatusBits Proofs.Worlds Model.Cxx Generated.LeafCode Proofs.LeafTactics Proofs.LeafConsts Proofs.LeafCodeTaskList Proofs.LeafCodeStream Proofs.LeafCodeWide.
Import ListNotations.

(* what one processing step does, for every reachable state, every callback behaviour, every n and limit: the active
   state afterwards is the destination of the last surviving round, reached by exit(old);enter(new) or reenter alone,
   each lifecycle callback seeing the surviving transition as current; if nothing survived, the active state is
   unchanged and only guard events were appended *)
Theorem C02_process_request :
  forall (P : Type) (cfg : config) (orc : oracle P),
         wf_cfg cfg ->
         wf_oracle P cfg orc ->
         forall (s : mstate P) (a : nat),
         Ready P cfg s a ->
         let s1 := loop_state P cfg orc (c_limit cfg) (t_empty P) s in
         let rounds := loop_rounds P cfg orc (c_limit cfg) (t_empty P) s in
         let surv := last_survivor P rounds in
         let s' := process_request P cfg orc s in
         exists lr : list (event P),
           tr P s1 = lr ++ tr P s /\
           rounds_shape P cfg a (t_empty P) rounds lr /\
           MachineFrame.quiet P cfg a lr /\
           length rounds <= c_limit cfg /\
           requested P (co P s') = INVALID /\
           request P (co P s') = request P (co P s1) /\
           previous P (co P s') = (if c_history cfg then surv else previous P (co P s)) /\
           logger P (co P s') = logger P (co P s) /\
           Inv P cfg s' /\
           (if t_valid P surv
            then
             t_dest P surv < c_n cfg /\
             active P (co P s') = t_dest P surv /\
             (exists lc : list (event P),
                tr P s' = lc ++ lr ++ tr P s /\
                change P cfg a (t_dest P surv) lc /\ Forall (gview P KPlan surv (t_empty P)) lc)
            else active P (co P s') = a /\ tr P s' = lr ++ tr P s).
Proof. exact (process_request_top). Qed.
Print Assumptions C02_process_request.

(* changeTo/changeWith from outside change nothing but the outstanding request (and log at most one record) *)
Theorem C02_request_is_lazy_api :
  forall (P : Type) (cfg : config) (d : nat) (p : option P) (s : mstate P),
         let s' := change_to P cfg d p s in
         active P (co P s') = active P (co P s) /\
         requested P (co P s') = requested P (co P s) /\
         previous P (co P s') = previous P (co P s) /\
         plan P (co P s') = plan P (co P s) /\
         logger P (co P s') = logger P (co P s) /\
         request P (co P s') = {| t_origin := INVALID; t_dest := d; t_pay := p |} /\
         (exists l : list (event P), tr P s' = l ++ tr P s /\ length l <= 1 /\ Forall (GuardProofs.is_log P) l).
Proof. exact (request_is_lazy). Qed.
Print Assumptions C02_request_is_lazy_api.

(* an action performed through a control changes neither the active state nor registry.requested; a permitted
   changeTo/changeWith overwrites the outstanding request with (caller, destination, payload) *)
Theorem C02_request_is_lazy_callback :
  forall (P : Type) (cfg : config),
         wf_cfg cfg ->
         forall (origin : nat) (a0 : action P) (s : mstate P) (k : ctl P),
         wf_action P cfg a0 ->
         let
         '(s', _, res) := perform P cfg origin a0 (s, k) in
          active P (co P s') = active P (co P s) /\
          requested P (co P s') = requested P (co P s) /\
          previous P (co P s') = previous P (co P s) /\
          logger P (co P s') = logger P (co P s) /\
          (exists l : list (event P), tr P s' = l ++ tr P s /\ Forall (GuardProofs.is_log P) l) /\
          request P (co P s') =
          match a0 with
          | AChange _ d =>
              match res with
              | ROk _ => {| t_origin := origin; t_dest := d; t_pay := None |}
              | _ => request P (co P s)
              end
          | AChangeWith _ d p0 =>
              match res with
              | ROk _ => {| t_origin := origin; t_dest := d; t_pay := Some p0 |}
              | _ => request P (co P s)
              end
          | _ => request P (co P s)
          end.
Proof. exact (action_request_is_lazy_top). Qed.
Print Assumptions C02_request_is_lazy_callback.

(* a later request replaces an earlier unprocessed one *)
Theorem C02_later_request_replaces_earlier :
  forall (P : Type) (cfg : config) (d1 : nat) (p1 : option P) (d2 : nat) (p2 : option P) (s : mstate P),
         co P (change_to P cfg d2 p2 (change_to P cfg d1 p1 s)) = co P (change_to P cfg d2 p2 s).
Proof. exact (request_overwrites). Qed.
Print Assumptions C02_later_request_replaces_earlier.

(* update()/react(): the phase callbacks and the plan step apply no transition (quiet), then requests are processed
   exactly once *)
Theorem C02_update_processes_at_the_end :
  forall (P : Type) (cfg : config) (orc : oracle P),
         wf_cfg cfg ->
         wf_oracle P cfg orc ->
         forall (mpre mmid mpost : Ancestors.method) (s : mstate P) (a : nat),
         is_life mpre = false ->
         is_life mmid = false ->
         is_life mpost = false ->
         Ready P cfg s a ->
         exists s5 : mstate P,
           cycle P cfg orc mpre mmid mpost s = process_request P cfg orc s5 /\
           Ready P cfg s5 a /\
           (exists l : list (event P), tr P s5 = l ++ tr P s /\ MachineFrame.quiet P cfg a l).
Proof. exact (cycle_processes_last). Qed.
Print Assumptions C02_update_processes_at_the_end.

(* the hypothesis Ready of the statements above holds in every state reached by an in-contract history (when the
   machine is active) *)
Theorem C02_every_reachable_state_is_ready :
  forall (P : Type) (cfg : config) (orc : oracle P),
         wf_cfg cfg ->
         wf_oracle P cfg orc ->
         forall (lg : bool) (ops : list (api_op P)),
         ops_ok P cfg orc (construct P cfg orc lg) ops ->
         let s := Machine.run P cfg orc lg ops in
         Inv P cfg s /\ (active P (co P s) < c_n cfg -> Ready P cfg s (active P (co P s))).
Proof. exact (reachable_ready). Qed.
Print Assumptions C02_every_reachable_state_is_ready.

(* the applied transition was the pending transition of a round that was neither cancelled nor dropped, and no later
   round survived *)
Theorem C02_survivor_is_a_round_that_passed :
  forall (P : Type) (cfg : config) (orc : oracle P) (s : mstate P),
         t_valid P (last_survivor P (loop_rounds P cfg orc (c_limit cfg) (t_empty P) s)) = true ->
         exists (l1 : list (round P)) (r : round P) (l2 : list (round P)),
           loop_rounds P cfg orc (c_limit cfg) (t_empty P) s = l1 ++ r :: l2 /\
           r_pend P r = last_survivor P (loop_rounds P cfg orc (c_limit cfg) (t_empty P) s) /\
           r_cancelled P r = false /\
           r_deduped P r = false /\ Forall (fun r' : round P => survives P r' = false) l2.
Proof. exact (applied_passed_guards). Qed.
Print Assumptions C02_survivor_is_a_round_that_passed.

(* wherever an in-contract history from construction is cut, the state before the next call satisfies the invariant, is
   Ready when the machine is active, and the call is one step of the model - so every per-call statement of this file
   applies to every call of every history *)
Theorem C02_cut_any_history_anywhere :
  forall (P : Type) (cfg : config) (orc : oracle P),
         wf_cfg cfg ->
         wf_oracle P cfg orc ->
         forall (lg : bool) (pre : list (api_op P)) (op : api_op P) (post : list (api_op P)),
         ops_ok P cfg orc (construct P cfg orc lg) (pre ++ op :: post) ->
         let s := Machine.run P cfg orc lg pre in
         Inv P cfg s /\
         in_contract P cfg s op /\
         (is_on P cfg s -> Ready P cfg s (active P (co P s))) /\
         Machine.run P cfg orc lg (pre ++ [op]) = fst (step P cfg orc s op) /\
         ops_ok P cfg orc (construct P cfg orc lg) pre.
Proof. exact (at_every_call). Qed.
Print Assumptions C02_cut_any_history_anywhere.

(* every changeTo()/changeWith() made from outside, at any point of any history: active state, plan and previous
   transition are unchanged, the request is stored, at most one log record and no callback *)
Theorem C02_every_external_request_of_every_history :
  forall (P : Type) (cfg : config) (orc : oracle P),
         wf_cfg cfg ->
         wf_oracle P cfg orc ->
         forall (lg : bool) (pre : list (api_op P)) (d : nat) (p : option P) (post : list (api_op P)),
         let op := match p with
                   | Some x => OChangeWith P d x
                   | None => OChange P d
                   end in
         ops_ok P cfg orc (construct P cfg orc lg) (pre ++ op :: post) ->
         let s := Machine.run P cfg orc lg pre in
         let s' := Machine.run P cfg orc lg (pre ++ [op]) in
         active P (co P s') = active P (co P s) /\
         plan P (co P s') = plan P (co P s) /\
         previous P (co P s') = previous P (co P s) /\
         request P (co P s') = {| t_origin := INVALID; t_dest := d; t_pay := p |} /\
         (exists l : list (event P), tr P s' = l ++ tr P s /\ length l <= 1 /\ Forall (GuardProofs.is_log P) l).
Proof. exact (every_change_of_every_history). Qed.
Print Assumptions C02_every_external_request_of_every_history.

(* every immediateChangeTo()/immediateChangeWith(), at any point of any history: at most SUBSTITUTION_LIMIT guard
   rounds, and the active state afterwards is the last survivor's destination, or unchanged when nothing survived *)
Theorem C02_every_immediate_change_of_every_history :
  forall (P : Type) (cfg : config) (orc : oracle P),
         wf_cfg cfg ->
         wf_oracle P cfg orc ->
         forall (lg : bool) (pre : list (api_op P)) (d : nat) (p : option P) (post : list (api_op P)),
         let op := match p with
                   | Some x => OImmChangeWith P d x
                   | None => OImmChange P d
                   end in
         ops_ok P cfg orc (construct P cfg orc lg) (pre ++ op :: post) ->
         let s := Machine.run P cfg orc lg pre in
         let a := active P (co P s) in
         let s0 := change_to P cfg d p s in
         let rounds := loop_rounds P cfg orc (c_limit cfg) (t_empty P) s0 in
         let surv := last_survivor P rounds in
         let s' := Machine.run P cfg orc lg (pre ++ [op]) in
         a < c_n cfg /\
         d < c_n cfg /\
         length rounds <= c_limit cfg /\
         Inv P cfg s' /\
         (if t_valid P surv
          then active P (co P s') = t_dest P surv /\ t_dest P surv < c_n cfg
          else active P (co P s') = a).
Proof. exact (every_immediate_change_of_every_history). Qed.
Print Assumptions C02_every_immediate_change_of_every_history.

(* over whole histories: every update(), react(), immediateChangeTo() and immediateChangeWith() of every in-contract
   history processes requests exactly once, from a Ready state reached by callbacks that applied no transition - so
   every statement of this file made for process_request on a Ready state holds for every processing step of every
   history *)
Theorem C02_every_processing_step_of_every_history :
  forall (P : Type) (cfg : config) (orc : oracle P),
         wf_cfg cfg ->
         wf_oracle P cfg orc ->
         forall (lg : bool) (pre : list (api_op P)) (op : api_op P) (post : list (api_op P)),
         ops_ok P cfg orc (construct P cfg orc lg) (pre ++ op :: post) ->
         is_processing_op P op = true ->
         let s := Machine.run P cfg orc lg pre in
         let a := active P (co P s) in
         exists s5 : mstate P,
           Ready P cfg s5 a /\
           Machine.run P cfg orc lg (pre ++ [op]) = process_request P cfg orc s5 /\
           (exists l : list (event P), tr P s5 = l ++ tr P s /\ MachineFrame.quiet P cfg a l).
Proof. exact (every_processing_step_of_every_history). Qed.
Print Assumptions C02_every_processing_step_of_every_history.

