(* C03 - Guards can veto: a cancelled transition is never applied. Theorems only. Vocabulary: Ready cfg s a = the
   machine is at a point where requests are processed (or between API calls) with state a < n active,
   registry.requested = INVALID, the outstanding request (if any) names a state, the plan is well formed; Inv = the
   same without naming a. loop_rounds = the guard rounds the substitution loop executes (ghost-instrumented copy of the
   loop, proved equal to it: transitions_loop_g_erase), each with its pending transition, whether it was cancelled, and
   whether it was dropped by applyRequest's same-destination rule; last_survivor = the pending transition of the last
   round neither cancelled nor dropped; rounds_shape / guard_round describe the events of the rounds (exit guard of the
   active state, then - unless it cancelled - entry guard of the destination; every guard view shows that round's
   pending transition and the survivor so far); change a a' l = the lifecycle events exit(a);enter(a') | reenter(a) |
   ...; quiet a l = no enter/exit/reenter in l and every view shows a active. *)
From Coq Require Import List Arith Bool NArith.
From FFSM2 Require Import Model.TaskList Model.BitArray Model.BitStream Model.Plan Model.Ancestors Model.Machine
  Proofs.BitArrayProofs Proofs.TaskListProofs Proofs.TaskListRun Proofs.PlanProofs Proofs.MachineFrame Proofs.MachinePlan Proofs.MachineLife Proofs.GuardProofs Proofs.CycleProofs Proofs.PlanStep
  Proofs.SerialProofs Proofs.LogProofs Proofs.MachineTop Model.Multi Generated.InitFacts Proofs.ConstructProofs Proofs.LifeMonitor Proofs.ActivationRounds Proofs.IndexSafety Proofs.FeatureProofs Model.Script Proofs.Contract Proofs.Histories Proofs.StatusBits Proofs.Worlds Model.Cxx Generated.LeafCode Proofs.LeafTactics Proofs.LeafConsts Proofs.LeafCodeTaskList Proofs.LeafCodeStream Proofs.LeafCodeWide.
Import ListNotations.

(* a destination that is not the last survivor's is not the active state afterwards: a request cancelled by a guard is
   not applied on account of that request *)
Theorem C03_cancelled_never_entered :
  forall (P : Type) (cfg : config) (orc : oracle P),
         wf_cfg cfg ->
         wf_oracle P cfg orc ->
         forall (s : mstate P) (a d : nat),
         Ready P cfg s a ->
         let surv := last_survivor P (loop_rounds P cfg orc (c_limit cfg) (t_empty P) s) in
         t_valid P surv = true -> t_dest P surv <> d -> active P (co P (process_request P cfg orc s)) <> d.
Proof. exact (cancelled_never_entered_top). Qed.
Print Assumptions C03_cancelled_never_entered.

(* if every round was cancelled the machine stays put *)
Theorem C03_all_cancelled_stays_put :
  forall (P : Type) (cfg : config) (orc : oracle P),
         wf_cfg cfg ->
         wf_oracle P cfg orc ->
         forall (s : mstate P) (a : nat),
         Ready P cfg s a ->
         Forall (fun r : round P => r_cancelled P r = true) (loop_rounds P cfg orc (c_limit cfg) (t_empty P) s) ->
         active P (co P (process_request P cfg orc s)) = a.
Proof. exact (all_cancelled_stays_top). Qed.
Print Assumptions C03_all_cancelled_stays_put.

(* every enter() delivered during processing goes to the last survivor's destination *)
Theorem C03_only_the_survivor_is_entered :
  forall (P : Type) (cfg : config) (orc : oracle P),
         wf_cfg cfg ->
         wf_oracle P cfg orc ->
         forall (s : mstate P) (a : nat),
         Ready P cfg s a ->
         let surv := last_survivor P (loop_rounds P cfg orc (c_limit cfg) (t_empty P) s) in
         exists l : list (event P),
           tr P (process_request P cfg orc s) = l ++ tr P s /\
           Forall
             (fun e : event P =>
              match e with
              | EvCb _ w _ MEnter _ => t_valid P surv = true /\ w = St (t_dest P surv)
              | EvCb _ w _ MEntryGuard _ | EvCb _ w _ MReenter _ | EvCb _ w _ MPreUpdate _ |
                EvCb _ w _ MUpdate _ | EvCb _ w _ MPostUpdate _ | EvCb _ w _ MPreReact _ |
                EvCb _ w _ MReact _ | EvCb _ w _ MPostReact _ | EvCb _ w _ MQuery _ | 
                EvCb _ w _ MExitGuard _ | EvCb _ w _ MExit _ | EvCb _ w _ MPlanSucceeded _ |
                EvCb _ w _ MPlanFailed _ => True
              | _ => True
              end) l.
Proof. exact (enter_only_survivor_top). Qed.
Print Assumptions C03_only_the_survivor_is_entered.

(* a round counts as cancelled exactly when a guard callback of that round performed cancelPendingTransition() *)
Theorem C03_round_cancelled_iff_cancel_action :
  forall (P : Type) (cfg : config) (a d : nat) (cur pend : transition P) (c : bool) (l : list (event P)),
         guard_round P cfg a d cur pend c l -> c = true <-> In (EvAct P (ACancel P) (ROk P)) l.
Proof. exact (round_cancelled_iff). Qed.
Print Assumptions C03_round_cancelled_iff_cancel_action.

(* the exit guard of the active state is consulted first; if it cancelled, the entry guard is not consulted; otherwise
   the entry guard of the destination is *)
Theorem C03_exit_guard_first_and_short_circuit :
  forall (P : Type) (cfg : config) (a d : nat) (cur pend : transition P) (c : bool) (l : list (event P)),
         guard_round P cfg a d cur pend c l ->
         exists lx le : list (event P),
           l = le ++ lx /\
           deliv P cfg (leaf cfg a) MExitGuard a lx /\
           (In (EvAct P (ACancel P) (ROk P)) lx -> le = [] /\ c = true) /\
           (~ In (EvAct P (ACancel P) (ROk P)) lx -> deliv P cfg (leaf cfg d) MEntryGuard a le).
Proof. exact (exit_cancel_short_circuit). Qed.
Print Assumptions C03_exit_guard_first_and_short_circuit.

(* the events of the substitution loop are exactly those of its rounds (rounds_shape): no enter/exit/reenter between
   guards, every guard view shows the round's pending transition and the survivor so far, the next round's pending
   transition is the request written inside this round's guards (next_pend) *)
Theorem C03_rounds_and_their_events :
  forall (P : Type) (cfg : config) (orc : oracle P) (PI : plan_data P -> Prop),
         plan_inv_ok P cfg PI ->
         wf_oracle P cfg orc ->
         forall (fuel : nat) (cur : transition P) (s : mstate P),
         exists l : list (event P),
           tr P (loop_state P cfg orc fuel cur s) = l ++ tr P s /\
           rounds_shape P cfg (active P (co P s)) cur (loop_rounds P cfg orc fuel cur s) l /\
           active P (co P (loop_state P cfg orc fuel cur s)) = active P (co P s).
Proof. exact (round_events_proj). Qed.
Print Assumptions C03_rounds_and_their_events.

(* a request made from inside a guard becomes the pending transition of the next round (it is evaluated, not applied
   blindly) *)
Theorem C03_fresh_round_for_guard_requests :
  forall (P : Type) (cfg : config) (orc : oracle P) (f : nat) (cur : transition P) 
           (s : mstate P) (r' : round P) (rs' : list (round P)),
         t_valid P (request P (co P s)) = true ->
         t_neq P cur (t_to P (t_dest P (request P (co P s)))) = true ->
         let pend := request P (co P s) in
         let s2 :=
           upd_core P (fun c : core P => set_request P c (t_clear P (request P c)))
             (upd_core P (fun c : core P => set_requested P c (t_dest P pend)) s) in
         let s3 := fst (cancelled_by_guards P cfg orc cur pend s2) in
         let c := snd (cancelled_by_guards P cfg orc cur pend s2) in
         loop_rounds P cfg orc (S f) cur s =
         {| r_pend := pend; r_cancelled := c; r_deduped := false |} :: r' :: rs' ->
         t_valid P (request P (co P s2)) = false /\
         r_pend P r' = request P (co P s3) /\ t_valid P (request P (co P s3)) = true.
Proof. exact (fresh_round). Qed.
Print Assumptions C03_fresh_round_for_guard_requests.

(* replayTransition applies the transition with lifecycle callbacks only (change), whatever the callbacks do *)
Theorem C03_replay_consults_no_guards :
  forall (P : Type) (cfg : config) (orc : oracle P) (PI : plan_data P -> Prop),
         plan_inv_ok P cfg PI ->
         wf_oracle P cfg orc ->
         wf_cfg cfg ->
         forall (d : nat) (s : mstate P) (a : nat),
         SInv P cfg PI s ->
         active P (co P s) = a ->
         a < c_n cfg ->
         d < c_n cfg ->
         let s' := fst (replay_transition P cfg orc d s) in
         SInv P cfg PI s' /\
         active P (co P s') = d /\
         logger P (co P s') = logger P (co P s) /\
         snd (replay_transition P cfg orc d s) = true /\
         (exists l : list (event P), tr P s' = l ++ tr P s /\ change P cfg a d l).
Proof. exact (replay_transition_spec). Qed.
Print Assumptions C03_replay_consults_no_guards.

(* a lifecycle change consists of enter/exit/reenter callbacks only *)
Theorem C03_lifecycle_change_has_no_guards :
  forall (P : Type) (cfg : config) (a a' : nat) (l : list (event P)),
         change P cfg a a' l -> Forall (only_life P) l.
Proof. exact (change_only_life). Qed.
Print Assumptions C03_lifecycle_change_has_no_guards.

(* over whole histories: every update(), react(), immediateChangeTo() and immediateChangeWith() of every in-contract
   history processes requests exactly once, from a Ready state reached by callbacks that applied no transition - so
   every statement of this file made for process_request on a Ready state holds for every processing step of every
   history *)
Theorem C03_every_processing_step_of_every_history :
  forall (P : Type) (cfg : config) (orc : oracle P),
         wf_cfg cfg ->
         wf_oracle P cfg orc ->
         forall (lg : bool) (pre : list (api_op P)) (op : api_op P) (post : list (api_op P)),
         ops_ok P cfg orc (construct P cfg orc lg) (pre ++ op :: post) ->
         is_processing_op P op = true ->
         let s := Machine.run P cfg orc lg pre in
         let a := active P (co P s) in
         exists s5 : mstate P,
           Ready P cfg s5 a /\
           Machine.run P cfg orc lg (pre ++ [op]) = process_request P cfg orc s5 /\
           (exists l : list (event P), tr P s5 = l ++ tr P s /\ MachineFrame.quiet P cfg a l).
Proof. exact (every_processing_step_of_every_history). Qed.
Print Assumptions C03_every_processing_step_of_every_history.

