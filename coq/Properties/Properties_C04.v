(* C04 - Request processing terminates within the substitution limit. Theorems only. (All model functions are total Coq
   functions, so termination itself is by construction: the substitution loops recurse on fuel = SUBSTITUTION_LIMIT.)
   Vocabulary: Ready cfg s a = the machine is at a point where requests are processed (or between API calls) with state
   a < n active, registry.requested = INVALID, the outstanding request (if any) names a state, the plan is well formed;
   Inv = the same without naming a. loop_rounds = the guard rounds the substitution loop executes (ghost-instrumented
   copy of the loop, proved equal to it: transitions_loop_g_erase), each with its pending transition, whether it was
   cancelled, and whether it was dropped by applyRequest's same-destination rule; last_survivor = the pending
   transition of the last round neither cancelled nor dropped; rounds_shape / guard_round describe the events of the
   rounds (exit guard of the active state, then - unless it cancelled - entry guard of the destination; every guard
   view shows that round's pending transition and the survivor so far); change a a' l = the lifecycle events
   exit(a);enter(a') | reenter(a) | ...; quiet a l = no enter/exit/reenter in l and every view shows a active. *)
From Coq Require Import List Arith Bool NArith.
From FFSM2 Require Import Model.TaskList Model.BitArray Model.BitStream Model.Plan Model.Ancestors Model.Machine
  Proofs.BitArrayProofs Proofs.TaskListProofs Proofs.TaskListRun Proofs.PlanProofs Proofs.MachineFrame Proofs.MachinePlan Proofs.MachineLife Proofs.GuardProofs Proofs.CycleProofs Proofs.PlanStep
  Proofs.SerialProofs Proofs.LogProofs Proofs.MachineTop Model.Multi Generated.InitFacts Proofs.ConstructProofs Proofs.LifeMonitor Proofs.ActivationRounds Proofs.IndexSafety Proofs.FeatureProofs Model.Script Proofs.Contract Proofs.Histories Proofs.StatusBits Proofs.Worlds Model.Cxx Generated.LeafCode Proofs.LeafTactics Proofs.LeafConsts Proofs.LeafCodeTaskList Proofs.LeafCodeStream Proofs.LeafCodeWide.
Import ListNotations.

(* at most SUBSTITUTION_LIMIT guard rounds per processing step, whatever the guards do *)
Theorem C04_rounds_le_limit :
  forall (P : Type) (cfg : config) (orc : oracle P) (cur : transition P) (s : mstate P),
         length (loop_rounds P cfg orc (c_limit cfg) cur s) <= c_limit cfg.
Proof. exact (rounds_le_limit). Qed.
Print Assumptions C04_rounds_le_limit.

(* the request left over when the loop stops is kept untouched, and one is left over only if all SUBSTITUTION_LIMIT
   rounds were used *)
Theorem C04_leftover_untouched :
  forall (P : Type) (cfg : config) (orc : oracle P),
         wf_cfg cfg ->
         wf_oracle P cfg orc ->
         forall (s : mstate P) (a : nat),
         Ready P cfg s a ->
         let s' := process_request P cfg orc s in
         let rounds := loop_rounds P cfg orc (c_limit cfg) (t_empty P) s in
         request P (co P s') = request P (co P (loop_state P cfg orc (c_limit cfg) (t_empty P) s)) /\
         length rounds <= c_limit cfg /\
         (t_valid P (request P (co P s')) = true -> length rounds = c_limit cfg).
Proof. exact (leftover_top). Qed.
Print Assumptions C04_leftover_untouched.

(* a valid left-over request means the fuel was exhausted *)
Theorem C04_leftover_means_full :
  forall (P : Type) (cfg : config) (orc : oracle P) (fuel : nat) (cur : transition P) (s : mstate P),
         t_valid P (request P (co P (loop_state P cfg orc fuel cur s))) = true ->
         length (loop_rounds P cfg orc fuel cur s) = fuel.
Proof. exact (leftover_full). Qed.
Print Assumptions C04_leftover_means_full.

(* when the limit is reached the call still ends with exactly one active state: the last survivor's destination (or the
   old state), by the same theorem as C02 *)
Theorem C04_state_chosen_among_survivors :
  forall (P : Type) (cfg : config) (orc : oracle P),
         wf_cfg cfg ->
         wf_oracle P cfg orc ->
         forall (s : mstate P) (a : nat),
         Ready P cfg s a ->
         let s1 := loop_state P cfg orc (c_limit cfg) (t_empty P) s in
         let rounds := loop_rounds P cfg orc (c_limit cfg) (t_empty P) s in
         let surv := last_survivor P rounds in
         let s' := process_request P cfg orc s in
         exists lr : list (event P),
           tr P s1 = lr ++ tr P s /\
           rounds_shape P cfg a (t_empty P) rounds lr /\
           MachineFrame.quiet P cfg a lr /\
           length rounds <= c_limit cfg /\
           requested P (co P s') = INVALID /\
           request P (co P s') = request P (co P s1) /\
           previous P (co P s') = (if c_history cfg then surv else previous P (co P s)) /\
           logger P (co P s') = logger P (co P s) /\
           Inv P cfg s' /\
           (if t_valid P surv
            then
             t_dest P surv < c_n cfg /\
             active P (co P s') = t_dest P surv /\
             (exists lc : list (event P),
                tr P s' = lc ++ lr ++ tr P s /\
                change P cfg a (t_dest P surv) lc /\ Forall (gview P KPlan surv (t_empty P)) lc)
            else active P (co P s') = a /\ tr P s' = lr ++ tr P s).
Proof. exact (process_request_top). Qed.
Print Assumptions C04_state_chosen_among_survivors.

(* activation: ends with exactly one active state below n and registry.requested consumed, for any guard behaviour (the
   redirection loop of initialEnter recurses on fuel = SUBSTITUTION_LIMIT after one evaluation of the initial entry
   guards) *)
Theorem C04_activation :
  forall (P : Type) (cfg : config) (orc : oracle P) (PI : plan_data P -> Prop),
         plan_inv_ok P cfg PI ->
         wf_oracle P cfg orc ->
         wf_cfg cfg ->
         forall s : mstate P,
         active P (co P s) = INVALID ->
         RW P cfg (co P s) ->
         PI (plan P (co P s)) ->
         let s' := initial_enter P cfg orc s in
         SInv P cfg PI s' /\
         active P (co P s') < c_n cfg /\
         logger P (co P s') = logger P (co P s) /\
         (exists l : list (event P), tr P s' = l ++ tr P s /\ life_shape P cfg INVALID (active P (co P s')) l).
Proof. exact (initial_enter_spec). Qed.
Print Assumptions C04_activation.

(* activation: at most SUBSTITUTION_LIMIT redirection rounds *)
Theorem C04_activation_rounds_le_limit :
  forall (P : Type) (cfg : config) (orc : oracle P) (cur : transition P) (s : mstate P),
         length (iloop_rounds P cfg orc (c_limit cfg) cur s) <= c_limit cfg.
Proof. exact (initial_rounds_le_limit). Qed.
Print Assumptions C04_activation_rounds_le_limit.

(* activation = one evaluation of the initial entry guards (verdict ignored), at most SUBSTITUTION_LIMIT rounds, then
   entry into the last survivor's destination or state 0 *)
Theorem C04_activation_exact :
  forall (P : Type) (cfg : config) (orc : oracle P) (PI : plan_data P -> Prop),
         plan_inv_ok P cfg PI ->
         wf_oracle P cfg orc ->
         wf_cfg cfg ->
         forall s : mstate P,
         active P (co P s) = INVALID ->
         RW P cfg (co P s) ->
         PI (plan P (co P s)) ->
         let rounds := act_rounds P cfg orc s in
         let surv := act_survivor P cfg orc s in
         let s' := initial_enter P cfg orc s in
         length rounds <= c_limit cfg /\
         Forall (fun r : round P => t_valid P (r_pend P r) = true) rounds /\
         (t_valid P surv = true -> t_dest P surv < c_n cfg) /\
         active P (co P s') = (if t_valid P surv then t_dest P surv else 0) /\
         active P (co P s') < c_n cfg /\
         requested P (co P s') = INVALID /\
         previous P (co P s') = (if c_history cfg then surv else previous P (co P s)) /\
         (exists l0 lr lc : list (event P),
            tr P (act_s2 P cfg orc s) = l0 ++ tr P s /\
            MachineFrame.quiet P cfg INVALID l0 /\
            tr P (act_s3 P cfg orc s) = lr ++ tr P (act_s2 P cfg orc s) /\
            MachineFrame.quiet P cfg INVALID lr /\
            tr P s' = lc ++ tr P (act_s3 P cfg orc s) /\ change P cfg INVALID (active P (co P s')) lc).
Proof. exact (initial_enter_rounds). Qed.
Print Assumptions C04_activation_exact.

(* the number of root entry-guard evaluations during activation is one plus the rounds that reached their guards, at
   most 1 + SUBSTITUTION_LIMIT *)
Theorem C04_activation_guard_evaluations :
  forall (P : Type) (cfg : config) (orc : oracle P) (PI : plan_data P -> Prop),
         plan_inv_ok P cfg PI ->
         wf_oracle P cfg orc ->
         wf_cfg cfg ->
         forall s : mstate P,
         active P (co P s) = INVALID ->
         RW P cfg (co P s) ->
         PI (plan P (co P s)) ->
         exists l : list (event P),
           tr P (initial_enter P cfg orc s) = l ++ tr P s /\
           rg_count P l = rg_per_eval cfg * (1 + guarded P (act_rounds P cfg orc s)) /\
           rg_count P l <= 1 + c_limit cfg.
Proof. exact (initial_enter_guard_evals). Qed.
Print Assumptions C04_activation_guard_evaluations.

(* at any point of any history an immediate change uses at most SUBSTITUTION_LIMIT guard rounds and ends with exactly
   one active state below n *)
Theorem C04_every_immediate_change_of_every_history :
  forall (P : Type) (cfg : config) (orc : oracle P),
         wf_cfg cfg ->
         wf_oracle P cfg orc ->
         forall (lg : bool) (pre : list (api_op P)) (d : nat) (p : option P) (post : list (api_op P)),
         let op := match p with
                   | Some x => OImmChangeWith P d x
                   | None => OImmChange P d
                   end in
         ops_ok P cfg orc (construct P cfg orc lg) (pre ++ op :: post) ->
         let s := Machine.run P cfg orc lg pre in
         let a := active P (co P s) in
         let s0 := change_to P cfg d p s in
         let rounds := loop_rounds P cfg orc (c_limit cfg) (t_empty P) s0 in
         let surv := last_survivor P rounds in
         let s' := Machine.run P cfg orc lg (pre ++ [op]) in
         a < c_n cfg /\
         d < c_n cfg /\
         length rounds <= c_limit cfg /\
         Inv P cfg s' /\
         (if t_valid P surv
          then active P (co P s') = t_dest P surv /\ t_dest P surv < c_n cfg
          else active P (co P s') = a).
Proof. exact (every_immediate_change_of_every_history). Qed.
Print Assumptions C04_every_immediate_change_of_every_history.

(* likewise every update()/react() of every history ends with one active state below n and the invariant restored *)
Theorem C04_every_cycle_of_every_history :
  forall (P : Type) (cfg : config) (orc : oracle P),
         wf_cfg cfg ->
         wf_oracle P cfg orc ->
         forall (lg : bool) (pre : list (api_op P)) (op : api_op P) (post : list (api_op P))
           (mpre mmid mpost : Ancestors.method),
         ops_ok P cfg orc (construct P cfg orc lg) (pre ++ op :: post) ->
         is_cycle_op P op = Some (mpre, mmid, mpost) ->
         let s := Machine.run P cfg orc lg pre in
         let a := active P (co P s) in
         let s' := Machine.run P cfg orc lg (pre ++ [op]) in
         a < c_n cfg /\
         Inv P cfg s' /\
         active P (co P s') < c_n cfg /\
         (exists l_proc l_plan l_phase : list (event P),
            tr P s' = l_proc ++ l_plan ++ l_phase ++ tr P s /\
            delivs P cfg a
              [(Root, mpre); (St a, mpre); (Root, mmid); (St a, mmid); (St a, mpost); (Root, mpost)] l_phase /\
            Forall (kview P (mk_ctl P KFull (t_empty P) (t_empty P))) l_phase /\
            Forall (plan_ev P cfg a) l_plan /\
            (c_plans cfg = false -> l_plan = []) /\ life_shape P cfg a (active P (co P s')) l_proc).
Proof. exact (every_cycle_of_every_history). Qed.
Print Assumptions C04_every_cycle_of_every_history.

(* over whole histories: every update(), react(), immediateChangeTo() and immediateChangeWith() of every in-contract
   history processes requests exactly once, from a Ready state reached by callbacks that applied no transition - so
   every statement of this file made for process_request on a Ready state holds for every processing step of every
   history *)
Theorem C04_every_processing_step_of_every_history :
  forall (P : Type) (cfg : config) (orc : oracle P),
         wf_cfg cfg ->
         wf_oracle P cfg orc ->
         forall (lg : bool) (pre : list (api_op P)) (op : api_op P) (post : list (api_op P)),
         ops_ok P cfg orc (construct P cfg orc lg) (pre ++ op :: post) ->
         is_processing_op P op = true ->
         let s := Machine.run P cfg orc lg pre in
         let a := active P (co P s) in
         exists s5 : mstate P,
           Ready P cfg s5 a /\
           Machine.run P cfg orc lg (pre ++ [op]) = process_request P cfg orc s5 /\
           (exists l : list (event P), tr P s5 = l ++ tr P s /\ MachineFrame.quiet P cfg a l).
Proof. exact (every_processing_step_of_every_history). Qed.
Print Assumptions C04_every_processing_step_of_every_history.

