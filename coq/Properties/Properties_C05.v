(* C05 - Update/react cycle: fixed callback order, active state only, requests last. Theorems only. delivs a ds l = l
   is the concatenation of one delivery (deliv: every recipient exactly once, in C15 order, views showing a active) per
   (who, method) of ds, oldest first; cbs l = the (who, recipient, method) of the callbacks in l, oldest first;
   expected_cbs = the same computed from the configuration. The plan's structural invariant is a parameter PI with
   plan_inv_ok P cfg PI in the statements taken from Proofs/CycleProofs.v / Proofs/PlanStep.v; the last theorem of this
   file shows the concrete invariant PIc (the plan refines a bounded task list whose tasks name states,
   Proofs/PlanProofs.v, Proofs/MachinePlan.v) satisfies it. *)
From Coq Require Import List Arith Bool NArith.
From FFSM2 Require Import Model.TaskList Model.BitArray Model.BitStream Model.Plan Model.Ancestors Model.Machine
  Proofs.BitArrayProofs Proofs.TaskListProofs Proofs.TaskListRun Proofs.PlanProofs Proofs.MachineFrame Proofs.MachinePlan Proofs.MachineLife Proofs.GuardProofs Proofs.CycleProofs Proofs.PlanStep
  Proofs.SerialProofs Proofs.LogProofs Proofs.MachineTop Model.Multi Generated.InitFacts Proofs.ConstructProofs Proofs.LifeMonitor Proofs.ActivationRounds Proofs.IndexSafety Proofs.FeatureProofs Model.Script Proofs.Contract Proofs.Histories Proofs.StatusBits Proofs.Worlds Model.Cxx Generated.LeafCode Proofs.LeafTactics Proofs.LeafConsts Proofs.LeafCodeTaskList Proofs.LeafCodeStream Proofs.LeafCodeWide.
Import ListNotations.

(* update(): the oldest events of the call are exactly preUpdate(root), preUpdate(a), update(root), update(a),
   postUpdate(a), postUpdate(root) - each recipient once -, only the root and the state active at the start are
   addressed, and every guard/enter/exit/reenter of the call is newer than all of them, whatever the callbacks request
   or report on the way *)
Theorem C05_update_order :
  forall (P : Type) (cfg : config) (orc : oracle P) (PI : plan_data P -> Prop),
         plan_inv_ok P cfg PI ->
         wf_oracle P cfg orc ->
         forall (s : mstate P) (a : nat),
         c_cap cfg <= 255 ->
         active P (co P s) = a ->
         a < c_n cfg ->
         requested P (co P s) = INVALID ->
         RW P cfg (co P s) ->
         PI (plan P (co P s)) ->
         exists l_rest l_phase : list (event P),
           tr P (Machine.update P cfg orc s) = l_rest ++ l_phase ++ tr P s /\
           cbs P l_phase = expected_cbs cfg (update_phases a) /\
           Forall (phase_ev P cfg a MPreUpdate MUpdate MPostUpdate) l_phase /\
           (forall (x y : list (event P)) (w : who) (r : recipient) (m : Ancestors.method) (v : Machine.view P),
            x ++ EvCb P w r m v :: y = l_rest ++ l_phase ->
            is_transition_method m = true -> exists y' : list (event P), y = y' ++ l_phase) /\
           Forall (kview P (mk_ctl P KFull (t_empty P) (t_empty P))) l_phase.
Proof. exact (update_cycle_order). Qed.
Print Assumptions C05_update_order.

(* react(): the same with preReact/react/postReact *)
Theorem C05_react_order :
  forall (P : Type) (cfg : config) (orc : oracle P) (PI : plan_data P -> Prop),
         plan_inv_ok P cfg PI ->
         wf_oracle P cfg orc ->
         forall (s : mstate P) (a : nat),
         c_cap cfg <= 255 ->
         active P (co P s) = a ->
         a < c_n cfg ->
         requested P (co P s) = INVALID ->
         RW P cfg (co P s) ->
         PI (plan P (co P s)) ->
         exists l_rest l_phase : list (event P),
           tr P (react P cfg orc s) = l_rest ++ l_phase ++ tr P s /\
           cbs P l_phase = expected_cbs cfg (react_phases a) /\
           Forall (phase_ev P cfg a MPreReact MReact MPostReact) l_phase /\
           (forall (x y : list (event P)) (w : who) (r : recipient) (m : Ancestors.method) (v : Machine.view P),
            x ++ EvCb P w r m v :: y = l_rest ++ l_phase ->
            is_transition_method m = true -> exists y' : list (event P), y = y' ++ l_phase) /\
           Forall (kview P (mk_ctl P KFull (t_empty P) (t_empty P))) l_phase.
Proof. exact (react_cycle_order). Qed.
Print Assumptions C05_react_order.

(* the whole cycle: six phase deliveries, then the plan step (only planSucceeded/planFailed on the root, nothing when
   plans are off), then request processing *)
Theorem C05_cycle_shape :
  forall (P : Type) (cfg : config) (orc : oracle P) (PI : plan_data P -> Prop),
         plan_inv_ok P cfg PI ->
         wf_oracle P cfg orc ->
         forall (mpre mmid mpost : Ancestors.method) (s : mstate P) (a : nat),
         c_cap cfg <= 255 ->
         active P (co P s) = a ->
         a < c_n cfg ->
         requested P (co P s) = INVALID ->
         RW P cfg (co P s) ->
         PI (plan P (co P s)) ->
         let s' := cycle P cfg orc mpre mmid mpost s in
         SInv P cfg PI s' /\
         active P (co P s') < c_n cfg /\
         logger P (co P s') = logger P (co P s) /\
         (exists l_proc l_plan l_phase : list (event P),
            tr P s' = l_proc ++ l_plan ++ l_phase ++ tr P s /\
            delivs P cfg a
              [(Root, mpre); (St a, mpre); (Root, mmid); (St a, mmid); (St a, mpost); (Root, mpost)] l_phase /\
            Forall (kview P (mk_ctl P KFull (t_empty P) (t_empty P))) l_phase /\
            Forall (plan_ev P cfg a) l_plan /\
            (c_plans cfg = false -> l_plan = []) /\ life_shape P cfg a (active P (co P s')) l_proc).
Proof. exact (cycle_shape). Qed.
Print Assumptions C05_cycle_shape.

(* query(): query(root), query(active) and the core is left unchanged *)
Theorem C05_query :
  forall (P : Type) (cfg : config) (orc : oracle P) (PI : plan_data P -> Prop),
         plan_inv_ok P cfg PI ->
         wf_oracle P cfg orc ->
         forall (s : mstate P) (a : nat),
         active P (co P s) = a ->
         a < c_n cfg ->
         co P (query P cfg orc s) = co P s /\
         (exists l : list (event P),
            tr P (query P cfg orc s) = l ++ tr P s /\ delivs P cfg a [(Root, MQuery); (St a, MQuery)] l).
Proof. exact (query_shape). Qed.
Print Assumptions C05_query.

(* a sequence of deliveries reaches exactly the expected recipients, once each, in order *)
Theorem C05_exactly_once_in_order :
  forall (P : Type) (cfg : config) (a : nat) (ds : list (who * Ancestors.method)) (l : list (event P)),
         delivs P cfg a ds l -> cbs P l = expected_cbs cfg ds.
Proof. exact (delivs_cbs). Qed.
Print Assumptions C05_exactly_once_in_order.

(* every update()/react() at any point of any in-contract history: the six phase deliveries to the root and to the
   state active when the call began, in order, each recipient once; then the plan step; then request processing *)
Theorem C05_every_cycle_of_every_history :
  forall (P : Type) (cfg : config) (orc : oracle P),
         wf_cfg cfg ->
         wf_oracle P cfg orc ->
         forall (lg : bool) (pre : list (api_op P)) (op : api_op P) (post : list (api_op P))
           (mpre mmid mpost : Ancestors.method),
         ops_ok P cfg orc (construct P cfg orc lg) (pre ++ op :: post) ->
         is_cycle_op P op = Some (mpre, mmid, mpost) ->
         let s := Machine.run P cfg orc lg pre in
         let a := active P (co P s) in
         let s' := Machine.run P cfg orc lg (pre ++ [op]) in
         a < c_n cfg /\
         Inv P cfg s' /\
         active P (co P s') < c_n cfg /\
         (exists l_proc l_plan l_phase : list (event P),
            tr P s' = l_proc ++ l_plan ++ l_phase ++ tr P s /\
            delivs P cfg a
              [(Root, mpre); (St a, mpre); (Root, mmid); (St a, mmid); (St a, mpost); (Root, mpost)] l_phase /\
            Forall (kview P (mk_ctl P KFull (t_empty P) (t_empty P))) l_phase /\
            Forall (plan_ev P cfg a) l_plan /\
            (c_plans cfg = false -> l_plan = []) /\ life_shape P cfg a (active P (co P s')) l_proc).
Proof. exact (every_cycle_of_every_history). Qed.
Print Assumptions C05_every_cycle_of_every_history.

(* every query() of every history: query(root), query(active), core unchanged *)
Theorem C05_every_query_of_every_history :
  forall (P : Type) (cfg : config) (orc : oracle P),
         wf_cfg cfg ->
         wf_oracle P cfg orc ->
         forall (lg : bool) (pre post : list (api_op P)),
         ops_ok P cfg orc (construct P cfg orc lg) (pre ++ OQuery P :: post) ->
         let s := Machine.run P cfg orc lg pre in
         let a := active P (co P s) in
         let s' := Machine.run P cfg orc lg (pre ++ [OQuery P]) in
         co P s' = co P s /\
         (exists l : list (event P), tr P s' = l ++ tr P s /\ delivs P cfg a [(Root, MQuery); (St a, MQuery)] l).
Proof. exact (every_query_of_every_history). Qed.
Print Assumptions C05_every_query_of_every_history.

(* the abstract plan invariant the statements above quantify over is inhabited by the concrete one *)
Theorem plan_invariant_exists :
  forall (P : Type) (cfg : config), 1 <= c_cap cfg <= 255 -> plan_inv_ok P cfg (PIc P cfg).
Proof. exact (PIc_ok). Qed.
Print Assumptions plan_invariant_exists.

