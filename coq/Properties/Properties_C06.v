(* C06 - Control objects give a consistent view inside every callback. Theorems only. The plan's structural invariant
   is a parameter PI with plan_inv_ok P cfg PI in the statements taken from Proofs/CycleProofs.v / Proofs/PlanStep.v;
   the last theorem of this file shows the concrete invariant PIc (the plan refines a bounded task list whose tasks
   name states, Proofs/PlanProofs.v, Proofs/MachinePlan.v) satisfies it. *)
From Coq Require Import List Arith Bool NArith.
From FFSM2 Require Import Model.TaskList Model.BitArray Model.BitStream Model.Plan Model.Ancestors Model.Machine
  Proofs.BitArrayProofs Proofs.TaskListProofs Proofs.TaskListRun Proofs.PlanProofs Proofs.MachineFrame Proofs.MachinePlan Proofs.MachineLife Proofs.GuardProofs Proofs.CycleProofs Proofs.PlanStep
  Proofs.SerialProofs Proofs.LogProofs Proofs.MachineTop Model.Multi Generated.InitFacts Proofs.ConstructProofs Proofs.LifeMonitor Proofs.ActivationRounds Proofs.IndexSafety Proofs.FeatureProofs Model.Script Proofs.Contract Proofs.Histories Proofs.StatusBits Proofs.Worlds Model.Cxx Generated.LeafCode Proofs.LeafTactics Proofs.LeafConsts Proofs.LeafCodeTaskList Proofs.LeafCodeStream Proofs.LeafCodeWide.
Import ListNotations.

(* every callback of a delivery to w sees stateId() = id_of w (255 for the root), isActive(k) = (k = active) for every
   k, and the control's current/pending transition and kind *)
Theorem C06_view_of_a_delivery :
  forall (P : Type) (cfg : config) (orc : oracle P) (PI : plan_data P -> Prop),
         plan_inv_ok P cfg PI ->
         wf_oracle P cfg orc ->
         forall (w : who) (m : Ancestors.method) (s : mstate P) (k : ctl P),
         let
         '(s', k') := deliver P cfg orc w m (s, k) in
          same_ctl_but P k k' /\
          (exists l : list (event P),
             tr P s' = l ++ tr P s /\
             deliv P cfg w m (active P (co P s)) l /\ Forall (cb_view P cfg w k (active P (co P s))) l).
Proof. exact (view_spec). Qed.
Print Assumptions C06_view_of_a_delivery.

(* the view is built from the core at the moment of the callback: request() is the outstanding request, isActive(k)
   compares with registry.active for every control flavour *)
Theorem C06_view_fields :
  forall (P : Type) (cfg : config) (origin : nat) (k : ctl P) (c : core P),
         let v := mk_view P cfg origin k c in
         v_id P v = origin /\
         v_kind P v = k_kind P k /\
         v_cur P v = k_cur P k /\
         v_pend P v = k_pend P k /\
         v_req P v = request P c /\ v_act P v = map (fun j : nat => active P c =? j) (seq 0 (c_n cfg)).
Proof. exact (mk_view_fields). Qed.
Print Assumptions C06_view_fields.

(* control.isActive(k) inside a callback equals what the instance itself reports for every k (including 0 and inactive
   ids), for guard, plan, full and const controls *)
Theorem C06_control_agrees_with_instance :
  forall (P : Type) (cfg : config) (origin : nat) (k : ctl P) (c : core P),
         v_act P (mk_view P cfg origin k c) = o_act P (observe P cfg c).
Proof. exact (view_act_agrees_with_instance). Qed.
Print Assumptions C06_control_agrees_with_instance.

(* guards see the pending transition being evaluated and the transition accepted so far *)
Theorem C06_guards_see_pending_and_current :
  forall (P : Type) (cfg : config) (orc : oracle P) (PI : plan_data P -> Prop),
         plan_inv_ok P cfg PI ->
         wf_oracle P cfg orc ->
         forall (cur pend : transition P) (s : mstate P) (w : who) (r : recipient) 
           (m : Ancestors.method) (v : Machine.view P),
         In (EvCb P w r m v) (tr P (fst (cancelled_by_guards P cfg orc cur pend s))) ->
         In (EvCb P w r m v) (tr P s) \/ v_kind P v = KGuard /\ v_cur P v = cur /\ v_pend P v = pend.
Proof. exact (guards_see_pending). Qed.
Print Assumptions C06_guards_see_pending_and_current.

(* a changeTo made through a control records the calling state (255 for the root) as origin *)
Theorem C06_request_records_caller :
  forall (P : Type) (cfg : config) (orc : oracle P) (PI : plan_data P -> Prop),
         plan_inv_ok P cfg PI ->
         wf_oracle P cfg orc ->
         forall (w : who) (r : recipient) (m : Ancestors.method) (s : mstate P) (k : ctl P)
           (acts : list (action P)) (d : nat),
         can_change (k_kind P k) = true ->
         orc (tr P s) w r m (mk_view P cfg (id_of w) k (co P s)) = acts ++ [AChange P d] ->
         request P (co P (fst (invoke P cfg orc w r m (s, k)))) =
         {| t_origin := id_of w; t_dest := d; t_pay := None |}.
Proof. exact (invoke_records_caller). Qed.
Print Assumptions C06_request_records_caller.

(* likewise changeWith *)
Theorem C06_request_with_payload_records_caller :
  forall (P : Type) (cfg : config) (orc : oracle P) (PI : plan_data P -> Prop),
         plan_inv_ok P cfg PI ->
         wf_oracle P cfg orc ->
         forall (w : who) (r : recipient) (m : Ancestors.method) (s : mstate P) (k : ctl P)
           (acts : list (action P)) (d : nat) (p : P),
         can_change (k_kind P k) = true ->
         c_payload cfg = true ->
         orc (tr P s) w r m (mk_view P cfg (id_of w) k (co P s)) = acts ++ [AChangeWith P d p] ->
         request P (co P (fst (invoke P cfg orc w r m (s, k)))) =
         {| t_origin := id_of w; t_dest := d; t_pay := Some p |}.
Proof. exact (invoke_records_caller_with). Qed.
Print Assumptions C06_request_with_payload_records_caller.

(* over whole histories: every callback delivered anywhere in any in-contract history sees stateId() = its own id (255
   for the root) and an isActive() table that is the characteristic vector of a single id - consistent for every k at
   once *)
Theorem C06_every_view_of_every_history :
  forall (P : Type) (cfg : config) (orc : oracle P),
         wf_cfg cfg ->
         wf_oracle P cfg orc ->
         forall (lg : bool) (ops : list (api_op P)),
         ops_ok P cfg orc (construct P cfg orc lg) ops ->
         Forall (view_ok P cfg) (tr P (Machine.run P cfg orc lg ops)).
Proof. exact (every_view_of_every_history). Qed.
Print Assumptions C06_every_view_of_every_history.

(* the abstract plan invariant the statements above quantify over is inhabited by the concrete one *)
Theorem plan_invariant_exists :
  forall (P : Type) (cfg : config), 1 <= c_cap cfg <= 255 -> plan_inv_ok P cfg (PIc P cfg).
Proof. exact (PIc_ok). Qed.
Print Assumptions plan_invariant_exists.

