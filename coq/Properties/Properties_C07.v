(* C07 - Payloads travel intact with the transition they were attached to. Theorems only. The payload type P is
   arbitrary (every theorem is parametric in it) and transitions are moved as whole records (origin, destination,
   optional payload). The plan's structural invariant is a parameter PI with plan_inv_ok P cfg PI in the statements
   taken from Proofs/CycleProofs.v / Proofs/PlanStep.v; the last theorem of this file shows the concrete invariant PIc
   (the plan refines a bounded task list whose tasks name states, Proofs/PlanProofs.v, Proofs/MachinePlan.v) satisfies
   it. *)
From Coq Require Import List Arith Bool NArith.
From FFSM2 Require Import Model.TaskList Model.BitArray Model.BitStream Model.Plan Model.Ancestors Model.Machine
  Proofs.BitArrayProofs Proofs.TaskListProofs Proofs.TaskListRun Proofs.PlanProofs Proofs.MachineFrame Proofs.MachinePlan Proofs.MachineLife Proofs.GuardProofs Proofs.CycleProofs Proofs.PlanStep
  Proofs.SerialProofs Proofs.LogProofs Proofs.MachineTop Model.Multi Generated.InitFacts Proofs.ConstructProofs Proofs.LifeMonitor Proofs.ActivationRounds Proofs.IndexSafety Proofs.FeatureProofs Model.Script Proofs.Contract Proofs.Histories Proofs.StatusBits Proofs.Worlds Model.Cxx Generated.LeafCode Proofs.LeafTactics Proofs.LeafConsts Proofs.LeafCodeTaskList Proofs.LeafCodeStream Proofs.LeafCodeWide.
Import ListNotations.

(* changeWith(d, p) from outside stores exactly (255, d, Some p); changeTo stores None *)
Theorem C07_api_request :
  forall (P : Type) (cfg : config) (d : nat) (p : option P) (s : mstate P),
         let s' := change_to P cfg d p s in
         request P (co P s') = {| t_origin := INVALID; t_dest := d; t_pay := p |} /\
         active P (co P s') = active P (co P s) /\
         requested P (co P s') = requested P (co P s) /\
         previous P (co P s') = previous P (co P s) /\ plan P (co P s') = plan P (co P s).
Proof. exact (change_to_spec). Qed.
Print Assumptions C07_api_request.

(* the guards of a round see, as pending transition, the whole request record of that round *)
Theorem C07_guards_see_the_request :
  forall (P : Type) (cfg : config) (orc : oracle P) (PI : plan_data P -> Prop),
         plan_inv_ok P cfg PI ->
         wf_oracle P cfg orc ->
         forall (cur pend : transition P) (s : mstate P) (w : who) (r : recipient) 
           (m : Ancestors.method) (v : Machine.view P),
         In (EvCb P w r m v) (tr P (fst (cancelled_by_guards P cfg orc cur pend s))) ->
         In (EvCb P w r m v) (tr P s) \/ v_kind P v = KGuard /\ v_cur P v = cur /\ v_pend P v = pend.
Proof. exact (guards_see_pending). Qed.
Print Assumptions C07_guards_see_the_request.

(* exit/enter/reenter see the surviving transition (with its payload) as current transition *)
Theorem C07_destination_sees_the_survivor :
  forall (P : Type) (cfg : config) (orc : oracle P) (PI : plan_data P -> Prop),
         plan_inv_ok P cfg PI ->
         wf_oracle P cfg orc ->
         forall (cur : transition P) (s : mstate P) (w : who) (r : recipient) (m : Ancestors.method)
           (v : Machine.view P),
         In (EvCb P w r m v) (tr P (deep_change_to_requested P cfg orc cur s)) ->
         In (EvCb P w r m v) (tr P s) \/ v_kind P v = KPlan /\ v_cur P v = cur.
Proof. exact (lifecycle_sees_current). Qed.
Print Assumptions C07_destination_sees_the_survivor.

(* previousTransition() afterwards is the survivor, payload included; every lifecycle view carries it (gview KPlan
   surv) *)
Theorem C07_whole_step :
  forall (P : Type) (cfg : config) (orc : oracle P),
         wf_cfg cfg ->
         wf_oracle P cfg orc ->
         forall (s : mstate P) (a : nat),
         Ready P cfg s a ->
         let s1 := loop_state P cfg orc (c_limit cfg) (t_empty P) s in
         let rounds := loop_rounds P cfg orc (c_limit cfg) (t_empty P) s in
         let surv := last_survivor P rounds in
         let s' := process_request P cfg orc s in
         exists lr : list (event P),
           tr P s1 = lr ++ tr P s /\
           rounds_shape P cfg a (t_empty P) rounds lr /\
           MachineFrame.quiet P cfg a lr /\
           length rounds <= c_limit cfg /\
           requested P (co P s') = INVALID /\
           request P (co P s') = request P (co P s1) /\
           previous P (co P s') = (if c_history cfg then surv else previous P (co P s)) /\
           logger P (co P s') = logger P (co P s) /\
           Inv P cfg s' /\
           (if t_valid P surv
            then
             t_dest P surv < c_n cfg /\
             active P (co P s') = t_dest P surv /\
             (exists lc : list (event P),
                tr P s' = lc ++ lr ++ tr P s /\
                change P cfg a (t_dest P surv) lc /\ Forall (gview P KPlan surv (t_empty P)) lc)
            else active P (co P s') = a /\ tr P s' = lr ++ tr P s).
Proof. exact (process_request_top). Qed.
Print Assumptions C07_whole_step.

(* any predicate on payloads that holds of every payload the callbacks supply holds of every payload shown anywhere
   (request, pending, current, previous): no payload is invented or mixed up *)
Theorem C07_payload_predicate_preserved :
  forall (P : Type) (cfg : config) (orc : oracle P) (PI : plan_data P -> Prop),
         plan_inv_ok P cfg PI ->
         wf_oracle P cfg orc ->
         forall Q : option P -> Prop,
         Q None ->
         orc_pay P orc Q ->
         forall s : mstate P,
         req_pay P Q s ->
         let s' := process_request P cfg orc s in
         req_pay P Q s' /\ (c_history cfg = true -> Q (t_pay P (previous P (co P s')))) /\ ext P Q s s'.
Proof. exact (process_request_pay). Qed.
Print Assumptions C07_payload_predicate_preserved.

(* if nobody supplies a payload none is exposed *)
Theorem C07_no_payload_invented :
  forall (P : Type) (cfg : config) (orc : oracle P) (PI : plan_data P -> Prop),
         plan_inv_ok P cfg PI ->
         wf_oracle P cfg orc ->
         forall s : mstate P,
         no_change_with P orc ->
         t_pay P (request P (co P s)) = None ->
         let s' := process_request P cfg orc s in
         t_pay P (request P (co P s')) = None /\
         (c_history cfg = true -> t_pay P (previous P (co P s')) = None) /\
         (exists l : list (event P),
            tr P s' = l ++ tr P s /\
            (forall (w : who) (r : recipient) (m : Ancestors.method) (v : Machine.view P),
             In (EvCb P w r m v) l ->
             t_pay P (v_req P v) = None /\ t_pay P (v_cur P v) = None /\ t_pay P (v_pend P v) = None)).
Proof. exact (no_payload_invented). Qed.
Print Assumptions C07_no_payload_invented.

(* a firing plan task issues (origin, destination, the task's payload) *)
Theorem C07_plan_task_payload :
  forall (P : Type) (cfg : config) (f curr next : nat) (tc : ba) (s : mstate P),
         (curr <? c_cap cfg) = true ->
         let t := task_at P (plan P (co P s)) curr in
         registry_is_active P (co P s) (tk_origin t) = true ->
         ba_get (pd_succ (plan P (co P s))) (N.of_nat (tk_origin t)) = true ->
         exists (s1 : mstate P) (tc1 : ba),
           plan_scan P cfg (S f) curr next tc s =
           plan_scan P cfg f next (it_next P (c_cap cfg) (plan P (co P s1)) next) tc1 s1 /\
           request P (co P s1) = {| t_origin := tk_origin t; t_dest := tk_dest t; t_pay := tk_payload t |} /\
           tr P s1 = tr P (log_rec P cfg (LTransition (tk_origin t) (tk_dest t)) s).
Proof. exact (plan_scan_fire_step). Qed.
Print Assumptions C07_plan_task_payload.

(* over whole histories: every update(), react(), immediateChangeTo() and immediateChangeWith() of every in-contract
   history processes requests exactly once, from a Ready state reached by callbacks that applied no transition - so
   every statement of this file made for process_request on a Ready state holds for every processing step of every
   history *)
Theorem C07_every_processing_step_of_every_history :
  forall (P : Type) (cfg : config) (orc : oracle P),
         wf_cfg cfg ->
         wf_oracle P cfg orc ->
         forall (lg : bool) (pre : list (api_op P)) (op : api_op P) (post : list (api_op P)),
         ops_ok P cfg orc (construct P cfg orc lg) (pre ++ op :: post) ->
         is_processing_op P op = true ->
         let s := Machine.run P cfg orc lg pre in
         let a := active P (co P s) in
         exists s5 : mstate P,
           Ready P cfg s5 a /\
           Machine.run P cfg orc lg (pre ++ [op]) = process_request P cfg orc s5 /\
           (exists l : list (event P), tr P s5 = l ++ tr P s /\ MachineFrame.quiet P cfg a l).
Proof. exact (every_processing_step_of_every_history). Qed.
Print Assumptions C07_every_processing_step_of_every_history.

(* the abstract plan invariant the statements above quantify over is inhabited by the concrete one *)
Theorem plan_invariant_exists :
  forall (P : Type) (cfg : config), 1 <= c_cap cfg <= 255 -> plan_inv_ok P cfg (PIc P cfg).
Proof. exact (PIc_ok). Qed.
Print Assumptions plan_invariant_exists.

