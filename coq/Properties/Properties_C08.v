(* C08 - Plan tasks fire in order, only for the succeeded active state, and only once. Theorems only. fire_scan a sa
   defer ts = (fired, remaining, success bit of a afterwards, clear-after-scan) is the abstract firing rule over the
   plan as a list of tasks; plan_scan_spec proves the C++ scan (iterator with cached next over the index-linked plan)
   implements it. *)
From Coq Require Import List Arith Bool NArith.
From FFSM2 Require Import Model.TaskList Model.BitArray Model.BitStream Model.Plan Model.Ancestors Model.Machine
  Proofs.BitArrayProofs Proofs.TaskListProofs Proofs.TaskListRun Proofs.PlanProofs Proofs.MachineFrame Proofs.MachinePlan Proofs.MachineLife Proofs.GuardProofs Proofs.CycleProofs Proofs.PlanStep
  Proofs.SerialProofs Proofs.LogProofs Proofs.MachineTop Model.Multi Generated.InitFacts Proofs.ConstructProofs Proofs.LifeMonitor Proofs.ActivationRounds Proofs.IndexSafety Proofs.FeatureProofs Model.Script Proofs.Contract Proofs.Histories Proofs.StatusBits Proofs.Worlds Model.Cxx Generated.LeafCode Proofs.LeafTactics Proofs.LeafConsts Proofs.LeafCodeTaskList Proofs.LeafCodeStream Proofs.LeafCodeWide.
Import ListNotations.

(* the SUCCESS branch of the plan step: remaining tasks in original order, the request is the last fired task's
   (origin, destination, payload), the success bit of the active state is consumed accordingly, other bits and
   everything else unchanged, one transition record per fired task and no callback *)
Theorem C08_scan_implements_fire_scan :
  forall (P : Type) (cfg : config),
         1 <= c_n cfg <= 255 ->
         1 <= c_cap cfg <= 255 ->
         forall (orc : oracle P) (s : mstate P) (k : ctl P) (fired remaining : list (task P)) 
           (sa' d' : bool) (s' : mstate P) (k' : ctl P),
         PIc P cfg (plan P (co P s)) ->
         active P (co P s) < c_n cfg ->
         wf (N.of_nat (c_n cfg)) (pd_succ (plan P (co P s))) ->
         plan_tasks P (c_cap cfg) (plan P (co P s)) <> [] ->
         fire_scan P (active P (co P s)) (ba_get (pd_succ (plan P (co P s))) (N.of_nat (active P (co P s))))
           false (plan_tasks P (c_cap cfg) (plan P (co P s))) = (fired, remaining, sa', d') ->
         update_plan P cfg orc SSuccess (s, k) = (s', k') ->
         k' = k /\ fire_post P cfg s fired remaining sa' d' s'.
Proof. exact (plan_scan_spec). Qed.
Print Assumptions C08_scan_implements_fire_scan.

(* only a prefix of tasks whose origin is the active state is scanned; the scan stops at the first task of another
   origin; fired and kept tasks partition that prefix in order *)
Theorem C08_fire_scan_shape :
  forall (P : Type) (a : nat) (ts : list (task P)) (sa defer : bool),
         let
         '(fired, remaining, _, _) := fire_scan P a sa defer ts in
          exists scanned kept rest : list (task P),
            ts = scanned ++ rest /\
            Forall (fun t : task P => tk_origin t = a) scanned /\
            merge fired kept scanned /\
            remaining = kept ++ rest /\ match rest with
                                        | [] => True
                                        | u :: _ => tk_origin u <> a
                                        end.
Proof. exact (fire_scan_shape). Qed.
Print Assumptions C08_fire_scan_shape.

Theorem C08_fired_have_active_origin :
  forall (P : Type) (a : nat) (ts : list (task P)) (sa defer : bool),
         let '(fired, _, _, _) := fire_scan P a sa defer ts in Forall (fun t : task P => tk_origin t = a) fired.
Proof. exact (fired_all_origin_a). Qed.
Print Assumptions C08_fired_have_active_origin.

Theorem C08_no_task_fires_past_another_origin :
  forall (P : Type) (a : nat) (ts : list (task P)) (sa defer : bool),
         let
         '(fired, _, _, _) := fire_scan P a sa defer ts in
          exists scanned rest : list (task P),
            ts = scanned ++ rest /\ subseq fired scanned /\ Forall (fun t : task P => tk_origin t = a) scanned.
Proof. exact (fired_prefix). Qed.
Print Assumptions C08_no_task_fires_past_another_origin.

Theorem C08_order_preserved :
  forall (P : Type) (a : nat) (ts : list (task P)) (sa defer : bool),
         let '(fired, remaining, _, _) := fire_scan P a sa defer ts in subseq remaining ts /\ subseq fired ts.
Proof. exact (remaining_order). Qed.
Print Assumptions C08_order_preserved.

(* fired tasks are removed: lengths add up *)
Theorem C08_fired_once :
  forall (P : Type) (a : nat) (ts : list (task P)) (sa defer : bool),
         let
         '(fired, remaining, _, _) := fire_scan P a sa defer ts in length ts = length fired + length remaining.
Proof. exact (fired_once). Qed.
Print Assumptions C08_fired_once.

(* converse: the head task fires when its origin is active and has an outstanding success *)
Theorem C08_head_fires :
  forall (P : Type) (a : nat) (t : task P) (r : list (task P)) (defer : bool),
         tk_origin t = a ->
         let '(fired, _, _, _) := fire_scan P a true defer (t :: r) in exists f : list (task P), fired = t :: f.
Proof. exact (head_fires). Qed.
Print Assumptions C08_head_fires.

Theorem C08_no_success_no_fire :
  forall (P : Type) (a : nat) (ts : list (task P)) (defer : bool),
         let
         '(fired, remaining, sa', d') := fire_scan P a false defer ts in
          fired = [] /\ remaining = ts /\ sa' = false /\ d' = defer.
Proof. exact (no_success_no_fire). Qed.
Print Assumptions C08_no_success_no_fire.

(* a success report is consumed by the tasks it fires *)
Theorem C08_success_consumed :
  forall (P : Type) (a : nat) (ts : list (task P)) (sa defer : bool),
         let '(fired, _, sa', d') := fire_scan P a sa defer ts in fired <> [] -> sa' && negb d' = false.
Proof. exact (success_consumed). Qed.
Print Assumptions C08_success_consumed.

(* the plan step runs inside update()/react() only (step's other operations never call it: see Model/Machine.v step),
   before request processing *)
Theorem C08_plan_step_only_in_update_react :
  forall (P : Type) (cfg : config) (orc : oracle P),
         wf_cfg cfg ->
         wf_oracle P cfg orc ->
         forall (mpre mmid mpost : Ancestors.method) (s : mstate P) (a : nat),
         is_life mpre = false ->
         is_life mmid = false ->
         is_life mpost = false ->
         Ready P cfg s a ->
         exists s5 : mstate P,
           cycle P cfg orc mpre mmid mpost s = process_request P cfg orc s5 /\
           Ready P cfg s5 a /\
           (exists l : list (event P), tr P s5 = l ++ tr P s /\ MachineFrame.quiet P cfg a l).
Proof. exact (cycle_processes_last). Qed.
Print Assumptions C08_plan_step_only_in_update_react.

(* over whole histories: at the plan step of every update()/react() of every in-contract history the state active when
   the call began is still the active one, the plan satisfies its invariant and both report bit arrays are well formed
   - the hypotheses under which the statements of this file describe the step - and the call is: six phase deliveries;
   the plan step from that state; request processing *)
Theorem C08_every_plan_step_of_every_history :
  forall (P : Type) (cfg : config) (orc : oracle P),
         wf_cfg cfg ->
         wf_oracle P cfg orc ->
         forall (lg : bool) (pre : list (api_op P)) (op : api_op P) (post : list (api_op P))
           (mpre mmid mpost : Ancestors.method),
         ops_ok P cfg orc (construct P cfg orc lg) (pre ++ op :: post) ->
         is_cycle_op P op = Some (mpre, mmid, mpost) ->
         let s := Machine.run P cfg orc lg pre in
         let a := active P (co P s) in
         let
         '(s3, k3) := at_plan_step P cfg orc mpre mmid mpost s in
          a < c_n cfg /\
          active P (co P s3) = a /\
          PIc P cfg (plan P (co P s3)) /\
          wf (N.of_nat (c_n cfg)) (pd_succ (plan P (co P s3))) /\
          wf (N.of_nat (c_n cfg)) (pd_fail (plan P (co P s3))) /\
          (exists l : list (event P), tr P s3 = l ++ tr P s /\ MachineFrame.quiet P cfg a l) /\
          Machine.run P cfg orc lg (pre ++ [op]) =
          (let
           '(s4, _) := if c_plans cfg then deep_update_plans P cfg orc (s3, k3) else (s3, k3) in
            process_request P cfg orc (if c_plans cfg then upd_plan P (pd_clear_region_statuses P) s4 else s4)).
Proof. exact (every_plan_step_of_every_history). Qed.
Print Assumptions C08_every_plan_step_of_every_history.

(* the abstract plan invariant the statements above quantify over is inhabited by the concrete one *)
Theorem plan_invariant_exists :
  forall (P : Type) (cfg : config), 1 <= c_cap cfg <= 255 -> plan_inv_ok P cfg (PIc P cfg).
Proof. exact (PIc_ok). Qed.
Print Assumptions plan_invariant_exists.

(* the tie to the source, by proof: the static constants of BitArrayT<N> as tools/leafcode.py translates them from
   clang's typed AST of /repo's current bit_array.hpp / utility.hpp on every run (Generated/LeafCode.v; contain()
   included), evaluated in the interpreter of Model/Cxx.v (C++ integer semantics), are CAPACITY = N and UNIT_COUNT =
   ceil(N / 8) for every N up to 255 - the size the model gives the report-bit arrays and the serialized form's byte
   count rest on *)
Theorem C08_source_constants_are_the_model :
  forall cap : Z,
         BinInt.Z.le (Zpos 1) cap /\ BinInt.Z.le cap (Zpos 255) ->
         build_consts leaf_ftable ba_consts_defs (ncapacity cap) = Some (ba_consts cap).
Proof. exact (src_BitArray_consts). Qed.
Print Assumptions C08_source_constants_are_the_model.

(* contain(x, to) of utility.hpp, as translated from the current source, is ceil(x / to) for all one-byte operands (no
   wrap-around in the intermediate sum) *)
Theorem C08_source_contain_is_the_model :
  forall x t : Z,
         BinInt.Z.le Z0 x /\ BinInt.Z.le x (Zpos 255) ->
         BinInt.Z.le (Zpos 1) t /\ BinInt.Z.le t (Zpos 255) ->
         call2 leaf_ftable contain_u8_fn x t = Some (BinInt.Z.div (BinInt.Z.sub (BinInt.Z.add x t) (Zpos 1)) t).
Proof. exact (src_contain_u8). Qed.
Print Assumptions C08_source_contain_is_the_model.

