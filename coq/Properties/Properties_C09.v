(* C09 - planSucceeded / planFailed are delivered exactly when warranted. Theorems only. plan_st c = strongest of the
   cycle's task status and the active state's latched report (failure over success); outcome_post m st ... = exactly
   one delivery of m to the root, afterwards the plan is empty and every report bit below n is clear. *)
From Coq Require Import List Arith Bool NArith.
From FFSM2 Require Import Model.TaskList Model.BitArray Model.BitStream Model.Plan Model.Ancestors Model.Machine
  Proofs.BitArrayProofs Proofs.TaskListProofs Proofs.TaskListRun Proofs.PlanProofs Proofs.MachineFrame Proofs.MachinePlan Proofs.MachineLife Proofs.GuardProofs Proofs.CycleProofs Proofs.PlanStep
  Proofs.SerialProofs Proofs.LogProofs Proofs.MachineTop Model.Multi Generated.InitFacts Proofs.ConstructProofs Proofs.LifeMonitor Proofs.ActivationRounds Proofs.IndexSafety Proofs.FeatureProofs Model.Script Proofs.Contract Proofs.Histories Proofs.StatusBits Proofs.Worlds Model.Cxx Generated.LeafCode Proofs.LeafTactics Proofs.LeafConsts Proofs.LeafCodeTaskList Proofs.LeafCodeStream Proofs.LeafCodeWide.
Import ListNotations.

(* no status or no plan ever created: nothing happens *)
Theorem C09_idle :
  forall (P : Type) (cfg : config) (orc : oracle P) (s : mstate P) (k : ctl P),
         active P (co P s) < c_n cfg ->
         st_bool (plan_st P (co P s)) = false \/ pd_exists (plan P (co P s)) = false ->
         deep_update_plans P cfg orc (s, k) = (s, k).
Proof. exact (dup_idle). Qed.
Print Assumptions C09_idle.

(* failure outstanding: planFailed, plan cleared, no task fires *)
Theorem C09_failure :
  forall (P : Type) (cfg : config),
         1 <= c_n cfg <= 255 ->
         1 <= c_cap cfg <= 255 ->
         forall orc : oracle P,
         wf_oracle P cfg orc ->
         forall (s : mstate P) (k : ctl P) (s' : mstate P) (k' : ctl P),
         active P (co P s) < c_n cfg ->
         PIc P cfg (plan P (co P s)) ->
         pd_exists (plan P (co P s)) = true ->
         plan_st P (co P s) = SFailure ->
         deep_update_plans P cfg orc (s, k) = (s', k') -> outcome_post P cfg orc MPlanFailed SFailure s k s' k'.
Proof. exact (dup_failure). Qed.
Print Assumptions C09_failure.

(* success outstanding and no task remains: planSucceeded, plan cleared (even if the callback appended tasks) *)
Theorem C09_success_empty :
  forall (P : Type) (cfg : config),
         1 <= c_n cfg <= 255 ->
         1 <= c_cap cfg <= 255 ->
         forall orc : oracle P,
         wf_oracle P cfg orc ->
         forall (s : mstate P) (k : ctl P) (s' : mstate P) (k' : ctl P),
         active P (co P s) < c_n cfg ->
         PIc P cfg (plan P (co P s)) ->
         pd_exists (plan P (co P s)) = true ->
         plan_st P (co P s) = SSuccess ->
         plan_tasks P (c_cap cfg) (plan P (co P s)) = [] ->
         deep_update_plans P cfg orc (s, k) = (s', k') ->
         outcome_post P cfg orc MPlanSucceeded SSuccess s k s' k'.
Proof. exact (dup_success_empty). Qed.
Print Assumptions C09_success_empty.

(* success outstanding and tasks remain: tasks fire, no outcome callback *)
Theorem C09_success_fire :
  forall (P : Type) (cfg : config),
         1 <= c_n cfg <= 255 ->
         1 <= c_cap cfg <= 255 ->
         forall (orc : oracle P) (s : mstate P) (k : ctl P) (s' : mstate P) (k' : ctl P)
           (fired remaining : list (task P)) (sa' d' : bool),
         active P (co P s) < c_n cfg ->
         PIc P cfg (plan P (co P s)) ->
         wf (N.of_nat (c_n cfg)) (pd_succ (plan P (co P s))) ->
         pd_exists (plan P (co P s)) = true ->
         plan_st P (co P s) = SSuccess ->
         plan_tasks P (c_cap cfg) (plan P (co P s)) <> [] ->
         fire_scan P (active P (co P s)) (ba_get (pd_succ (plan P (co P s))) (N.of_nat (active P (co P s))))
           false (plan_tasks P (c_cap cfg) (plan P (co P s))) = (fired, remaining, sa', d') ->
         deep_update_plans P cfg orc (s, k) = (s', k') -> k' = k /\ fire_post P cfg s fired remaining sa' d' s'.
Proof. exact (dup_success_fire). Qed.
Print Assumptions C09_success_fire.

(* at most one of the two callbacks per cycle *)
Theorem C09_never_both :
  forall (P : Type) (cfg : config),
         1 <= c_n cfg <= 255 ->
         1 <= c_cap cfg <= 255 ->
         forall orc : oracle P,
         wf_oracle P cfg orc ->
         forall (s : mstate P) (k : ctl P) (s' : mstate P) (k' : ctl P),
         active P (co P s) < c_n cfg ->
         PIc P cfg (plan P (co P s)) ->
         wf (N.of_nat (c_n cfg)) (pd_succ (plan P (co P s))) ->
         deep_update_plans P cfg orc (s, k) = (s', k') ->
         exists l : list (event P),
           tr P s' = l ++ tr P s /\
           (Forall (noncb P) l \/
            deliv P cfg Root MPlanFailed (active P (co P s)) l \/
            deliv P cfg Root MPlanSucceeded (active P (co P s)) l).
Proof. exact (dup_never_both). Qed.
Print Assumptions C09_never_both.

(* plan exists and the active state reported failure: planFailed is delivered in that cycle *)
Theorem C09_failure_delivered :
  forall (P : Type) (cfg : config),
         1 <= c_n cfg <= 255 ->
         1 <= c_cap cfg <= 255 ->
         forall orc : oracle P,
         wf_oracle P cfg orc ->
         forall (s : mstate P) (k : ctl P) (s' : mstate P) (k' : ctl P),
         active P (co P s) < c_n cfg ->
         PIc P cfg (plan P (co P s)) ->
         pd_exists (plan P (co P s)) = true ->
         ba_get (pd_fail (plan P (co P s))) (N.of_nat (active P (co P s))) = true ->
         deep_update_plans P cfg orc (s, k) = (s', k') ->
         plan_st P (co P s) = SFailure /\ outcome_post P cfg orc MPlanFailed SFailure s k s' k'.
Proof. exact (failure_delivered). Qed.
Print Assumptions C09_failure_delivered.

(* planExists becomes true only through an append: on a machine to which no task has been added neither callback is
   ever delivered *)
Theorem C09_exists_only_by_append :
  forall (P : Type) (cfg : config) (orc : oracle P),
         (forall (t : list (event P)) (w : who) (r : recipient) (m : Ancestors.method) (v : Machine.view P),
          Forall (no_append P) (orc t w r m v)) ->
         forall (s : mstate P) (op : api_op P),
         ~ append_op P op ->
         pd_exists (plan P (co P (fst (step P cfg orc s op)))) = true -> pd_exists (plan P (co P s)) = true.
Proof. exact (plan_exists_only_by_append). Qed.
Print Assumptions C09_exists_only_by_append.

(* over whole histories: the hypotheses of the case statements above hold at the plan step of every update()/react() of
   every in-contract history *)
Theorem C09_every_plan_step_of_every_history :
  forall (P : Type) (cfg : config) (orc : oracle P),
         wf_cfg cfg ->
         wf_oracle P cfg orc ->
         forall (lg : bool) (pre : list (api_op P)) (op : api_op P) (post : list (api_op P))
           (mpre mmid mpost : Ancestors.method),
         ops_ok P cfg orc (construct P cfg orc lg) (pre ++ op :: post) ->
         is_cycle_op P op = Some (mpre, mmid, mpost) ->
         let s := Machine.run P cfg orc lg pre in
         let a := active P (co P s) in
         let
         '(s3, k3) := at_plan_step P cfg orc mpre mmid mpost s in
          a < c_n cfg /\
          active P (co P s3) = a /\
          PIc P cfg (plan P (co P s3)) /\
          wf (N.of_nat (c_n cfg)) (pd_succ (plan P (co P s3))) /\
          wf (N.of_nat (c_n cfg)) (pd_fail (plan P (co P s3))) /\
          (exists l : list (event P), tr P s3 = l ++ tr P s /\ MachineFrame.quiet P cfg a l) /\
          Machine.run P cfg orc lg (pre ++ [op]) =
          (let
           '(s4, _) := if c_plans cfg then deep_update_plans P cfg orc (s3, k3) else (s3, k3) in
            process_request P cfg orc (if c_plans cfg then upd_plan P (pd_clear_region_statuses P) s4 else s4)).
Proof. exact (every_plan_step_of_every_history). Qed.
Print Assumptions C09_every_plan_step_of_every_history.

(* the converse over whole histories: in any cycle of any history in which a plan exists and the active state has a
   failure outstanding when the plan step runs, planFailed() is delivered in that cycle, no task fires and the plan is
   empty afterwards *)
Theorem C09_failure_delivered_in_every_history :
  forall (P : Type) (cfg : config) (orc : oracle P),
         wf_cfg cfg ->
         wf_oracle P cfg orc ->
         forall (lg : bool) (pre : list (api_op P)) (op : api_op P) (post : list (api_op P))
           (mpre mmid mpost : Ancestors.method),
         c_plans cfg = true ->
         ops_ok P cfg orc (construct P cfg orc lg) (pre ++ op :: post) ->
         is_cycle_op P op = Some (mpre, mmid, mpost) ->
         let s := Machine.run P cfg orc lg pre in
         let
         '(s3, k3) := at_plan_step P cfg orc mpre mmid mpost s in
          pd_exists (plan P (co P s3)) = true ->
          ba_get (pd_fail (plan P (co P s3))) (N.of_nat (active P (co P s3))) = true ->
          let
          '(s4, k4) := deep_update_plans P cfg orc (s3, k3) in
           outcome_post P cfg orc MPlanFailed SFailure s3 k3 s4 k4.
Proof. exact (failure_delivered_in_every_history). Qed.
Print Assumptions C09_failure_delivered_in_every_history.

(* the abstract plan invariant the statements above quantify over is inhabited by the concrete one *)
Theorem plan_invariant_exists :
  forall (P : Type) (cfg : config), 1 <= c_cap cfg <= 255 -> plan_inv_ok P cfg (PIc P cfg).
Proof. exact (PIc_ok). Qed.
Print Assumptions plan_invariant_exists.

(* the tie to the source, by proof: the static constants of BitArrayT<N> as tools/leafcode.py translates them from
   clang's typed AST of /repo's current bit_array.hpp / utility.hpp on every run (Generated/LeafCode.v; contain()
   included), evaluated in the interpreter of Model/Cxx.v (C++ integer semantics), are CAPACITY = N and UNIT_COUNT =
   ceil(N / 8) for every N up to 255 - the size the model gives the report-bit arrays and the serialized form's byte
   count rest on *)
Theorem C09_source_constants_are_the_model :
  forall cap : Z,
         BinInt.Z.le (Zpos 1) cap /\ BinInt.Z.le cap (Zpos 255) ->
         build_consts leaf_ftable ba_consts_defs (ncapacity cap) = Some (ba_consts cap).
Proof. exact (src_BitArray_consts). Qed.
Print Assumptions C09_source_constants_are_the_model.

(* contain(x, to) of utility.hpp, as translated from the current source, is ceil(x / to) for all one-byte operands (no
   wrap-around in the intermediate sum) *)
Theorem C09_source_contain_is_the_model :
  forall x t : Z,
         BinInt.Z.le Z0 x /\ BinInt.Z.le x (Zpos 255) ->
         BinInt.Z.le (Zpos 1) t /\ BinInt.Z.le t (Zpos 255) ->
         call2 leaf_ftable contain_u8_fn x t = Some (BinInt.Z.div (BinInt.Z.sub (BinInt.Z.add x t) (Zpos 1)) t).
Proof. exact (src_contain_u8). Qed.
Print Assumptions C09_source_contain_is_the_model.

