(* C10 - Plan capacity is exact, order-preserving and never leaks. Theorems only. Three layers. (1) TaskListT, the slot
   allocator with an intrusive free list: invariant FL t vac occ (vac = the vacant slots chained from the head, occ =
   the occupied slots with their contents); (2) the plan = doubly linked order over those slots (PlanInv d order;
   tasks_of d order = the plan as a list of tasks), with the C++ iterator that caches the next index;
   plan_refines_list: over operation lists of any length (append, append with payload, remove through an iterator at
   position k, clear) the model returns exactly what a bounded list returns; (3) the machine: in every reachable state
   the plan satisfies the invariant and, when empty, offers the whole capacity again. For every capacity 1..255. *)
From Coq Require Import List Arith Bool NArith.
From FFSM2 Require Import Model.TaskList Model.BitArray Model.BitStream Model.Plan Model.Ancestors Model.Machine
  Proofs.BitArrayProofs Proofs.TaskListProofs Proofs.TaskListRun Proofs.PlanProofs Proofs.MachineFrame Proofs.MachinePlan Proofs.MachineLife Proofs.GuardProofs Proofs.CycleProofs Proofs.PlanStep
  Proofs.SerialProofs Proofs.LogProofs Proofs.MachineTop Model.Multi Generated.InitFacts Proofs.ConstructProofs Proofs.LifeMonitor Proofs.ActivationRounds Proofs.IndexSafety Proofs.FeatureProofs Model.Script Proofs.Contract Proofs.Histories Proofs.StatusBits Proofs.Worlds Model.Cxx Generated.LeafCode Proofs.LeafTactics Proofs.LeafConsts Proofs.LeafCodeTaskList Proofs.LeafCodeStream Proofs.LeafCodeWide Proofs.LeafCodePlan Proofs.LeafCodePlanRemove Proofs.LeafCodePlanAppend Proofs.LeafCodePlanChange Proofs.LeafCodePlanInv.
Import ListNotations.

(* every history of plan edits, any length: returned values (append succeeded / refused, the tasks an iterating removal
   visited) and the plan as seen afterwards equal those of the obvious bounded list *)
Theorem C10_plan_refines_a_bounded_list :
  forall (P : Type) (cap n : nat) (ops : list (plan_op P)),
         1 <= cap <= 255 -> model_run P cap n (pd_init P cap n) ops = abs_run P cap (abs_init P) ops.
Proof. exact (plan_refines_list). Qed.
Print Assumptions C10_plan_refines_a_bounded_list.

Theorem C10_invariant_over_histories :
  forall (P : Type) (cap n : nat) (ops : list (plan_op P)),
         1 <= cap <= 255 ->
         exists order : list nat,
           PlanInv P cap (model_state P cap n (pd_init P cap n) ops) order /\
           length order <= cap /\
           tasks_of P (model_state P cap n (pd_init P cap n) ops) order =
           a_tasks P (abs_state P cap (abs_init P) ops) /\
           plan_tasks P cap (model_state P cap n (pd_init P cap n) ops) =
           a_tasks P (abs_state P cap (abs_init P) ops) /\
           pd_exists (model_state P cap n (pd_init P cap n) ops) =
           a_exists P (abs_state P cap (abs_init P) ops).
Proof. exact (plan_run_inv). Qed.
Print Assumptions C10_invariant_over_histories.

(* append succeeds exactly when fewer than capacity tasks are present, adds at the end, leaves everything else alone;
   otherwise returns false and changes nothing *)
Theorem C10_append :
  forall (P : Type) (cap : nat) (d : plan_data P) (order : list nat) (o dst : nat),
         PlanInv P cap d order ->
         if length order <? cap
         then
          exists (i : nat) (d' : plan_data P),
            plan_append P cap d o dst = (d', true) /\
            ~ In i order /\
            PlanInv P cap d' (order ++ [i]) /\
            tasks_of P d' (order ++ [i]) = tasks_of P d order ++ [mk_task P o dst None] /\
            pd_exists d' = true /\ same_aux P d d'
         else plan_append P cap d o dst = (d, false).
Proof. exact (plan_append_spec). Qed.
Print Assumptions C10_append.

Theorem C10_append_with_payload :
  forall (P : Type) (cap : nat) (d : plan_data P) (order : list nat) (o dst : nat) (p : P),
         PlanInv P cap d order ->
         if length order <? cap
         then
          exists (i : nat) (d' : plan_data P),
            plan_append_with P cap d o dst p = (d', true) /\
            ~ In i order /\
            PlanInv P cap d' (order ++ [i]) /\
            tasks_of P d' (order ++ [i]) = tasks_of P d order ++ [mk_task P o dst (Some p)] /\
            pd_exists d' = true /\ same_aux P d d'
         else plan_append_with P cap d o dst p = (pd_with_exists P d true, false).
Proof. exact (plan_append_with_spec). Qed.
Print Assumptions C10_append_with_payload.

(* the iterator with cached next yields precisely the tasks appended and not yet removed, in append order *)
Theorem C10_iteration_yields_the_tasks_in_order :
  forall (P : Type) (cap : nat) (d : plan_data P) (order : list nat),
         PlanInv P cap d order -> plan_tasks P cap d = tasks_of P d order.
Proof. exact (plan_tasks_spec). Qed.
Print Assumptions C10_iteration_yields_the_tasks_in_order.

Theorem C10_first_last :
  forall (P : Type) (cap : nat) (d : plan_data P) (order : list nat) (dflt : task P),
         PlanInv P cap d order ->
         order <> [] ->
         plan_first P d = hd dflt (tasks_of P d order) /\ plan_last P d = last (tasks_of P d order) dflt.
Proof. exact (plan_first_last_spec). Qed.
Print Assumptions C10_first_last.

Theorem C10_nonempty :
  forall (P : Type) (cap : nat) (d : plan_data P) (order : list nat),
         PlanInv P cap d order -> plan_nonempty P cap d = negb (length order =? 0).
Proof. exact (plan_nonempty_spec). Qed.
Print Assumptions C10_nonempty.

(* removing any task keeps the others, their contents and their order *)
Theorem C10_remove_anywhere :
  forall (P : Type) (cap : nat) (d : plan_data P) (l1 : list nat) (x : nat) (l2 : list nat),
         PlanInv P cap d (l1 ++ x :: l2) ->
         PlanInv P cap (plan_remove P cap d x) (l1 ++ l2) /\
         (forall i : nat, In i (l1 ++ l2) -> task_at P (plan_remove P cap d x) i = task_at P d i) /\
         tasks_of P (plan_remove P cap d x) (l1 ++ l2) = tasks_of P d (l1 ++ l2) /\
         same_rest P d (plan_remove P cap d x).
Proof. exact (plan_remove_spec). Qed.
Print Assumptions C10_remove_anywhere.

(* removing through an iterator does not disturb the iteration over the rest: every task is still visited once, in
   order *)
Theorem C10_remove_while_iterating :
  forall (P : Type) (cap : nat) (d : plan_data P) (order : list nat) (k : nat),
         PlanInv P cap d order ->
         exists d' : plan_data P,
           plan_remove_at P cap d k = (d', tasks_of P d order) /\
           (if k <? length order
            then
             PlanInv P cap d' (remove_nth k order) /\
             tasks_of P d' (remove_nth k order) = remove_nth k (tasks_of P d order) /\ same_rest P d d'
            else d' = d).
Proof. exact (plan_remove_at_spec). Qed.
Print Assumptions C10_remove_while_iterating.

Theorem C10_clear :
  forall (P : Type) (cap n : nat) (d : plan_data P) (order : list nat),
         PlanInv P cap d order ->
         PlanInv P cap (plan_clear P cap n d) [] /\
         plan_tasks P cap (plan_clear P cap n d) = [] /\
         pd_exists (plan_clear P cap n d) = pd_exists d /\
         pd_head_status (plan_clear P cap n d) = pd_head_status d /\
         pd_sub_status (plan_clear P cap n d) = pd_sub_status d /\
         pd_succ (plan_clear P cap n d) = clear_bits n (pd_succ d) /\
         pd_fail (plan_clear P cap n d) = clear_bits n (pd_fail d).
Proof. exact (plan_clear_spec). Qed.
Print Assumptions C10_clear.

Theorem C10_data_clear :
  forall (P : Type) (cap : nat) (d : plan_data P) (order : list nat),
         PlanInv P cap d order ->
         PlanInv P cap (pd_clear P d) [] /\
         plan_tasks P cap (pd_clear P d) = [] /\ pd_exists (pd_clear P d) = false.
Proof. exact (pd_clear_spec). Qed.
Print Assumptions C10_data_clear.

(* no leak: from any state of the free list in which the plan is empty, capacity consecutive appends succeed and the
   next is refused *)
Theorem C10_capacity_restored :
  forall (P : Type) (cap : nat) (d : plan_data P) (ts : list (nat * nat)),
         PlanInv P cap d [] ->
         length ts = cap ->
         exists d' : plan_data P,
           append_all P cap d ts = (d', repeat true cap) /\
           plan_tasks P cap d' = map (fun x : nat * nat => mk_task P (fst x) (snd x) None) ts /\
           (forall o dst : nat, plan_append P cap d' o dst = (d', false)) /\
           (forall (o dst : nat) (p : P), plan_append_with P cap d' o dst p = (pd_with_exists P d' true, false)).
Proof. exact (capacity_restored). Qed.
Print Assumptions C10_capacity_restored.

(* ... and every state a machine reaches through any in-contract API history (consumption by firing, plan-outcome
   clearing, exits, load included) is such a state *)
Theorem C10_every_reachable_machine_state :
  forall (P : Type) (cfg : config) (orc : oracle P),
         wf_cfg cfg ->
         wf_oracle P cfg orc ->
         forall (lg : bool) (ops : list (api_op P)) (ts : list (nat * nat)),
         ops_ok P cfg orc (construct P cfg orc lg) ops ->
         let d := plan P (co P (Machine.run P cfg orc lg ops)) in
         PIc P cfg d /\
         (plan_tasks P (c_cap cfg) d = [] ->
          length ts = c_cap cfg ->
          exists d' : plan_data P,
            append_all P (c_cap cfg) d ts = (d', repeat true (c_cap cfg)) /\
            (forall o dst : nat, plan_append P (c_cap cfg) d' o dst = (d', false))).
Proof. exact (reachable_plan_capacity). Qed.
Print Assumptions C10_every_reachable_machine_state.

Theorem C10_tasklist_init :
  forall (P : Type) (cap : nat),
         1 <= cap <= 255 ->
         FL P cap {| t_head := 0; t_tail := 0; t_last := 0; t_count := 0; t_items := repeat (dslot P) cap |}
           [0] [].
Proof. exact (init_FL). Qed.
Print Assumptions C10_tasklist_init.

(* the slot allocator: emplace on a full list reports INVALID and changes nothing *)
Theorem C10_tasklist_full :
  forall (P : Type) (cap : nat) (t : tl P) (vac : list nat) (occ : list (nat * slot P)) 
           (o d : nat) (p : option P),
         FL P cap t vac occ -> t_count t = cap -> emplace P cap t o d p = (t, INVALID).
Proof. exact (emplace_full). Qed.
Print Assumptions C10_tasklist_full.

(* emplace with room returns a slot that was vacant, stores the task there, keeps every occupied slot *)
Theorem C10_tasklist_emplace :
  forall (P : Type) (cap : nat) (t : tl P) (vac : list nat) (occ : list (nat * slot P)) 
           (o d : nat) (p : option P),
         FL P cap t vac occ ->
         t_count t < cap ->
         exists (v0 : nat) (rest : list nat),
           vac = v0 :: rest /\
           snd (emplace P cap t o d p) = v0 /\
           v0 < cap /\
           ~ In v0 (map fst occ) /\
           (exists vac' : list nat,
              FL P cap (fst (emplace P cap t o d p)) vac'
                ((v0, {| s_prev := o; s_next := d; s_pay := p |}) :: occ)).
Proof. exact (emplace_FL). Qed.
Print Assumptions C10_tasklist_emplace.

Theorem C10_tasklist_remove :
  forall (P : Type) (cap : nat) (t : tl P) (vac : list nat) (occ : list (nat * slot P)) (i : nat),
         FL P cap t vac occ -> In i (map fst occ) -> FL P cap (remove P cap t i) (i :: vac) (rem P i occ).
Proof. exact (remove_FL). Qed.
Print Assumptions C10_tasklist_remove.

Theorem C10_tasklist_clear :
  forall (P : Type) (cap : nat) (t : tl P) (vac : list nat) (occ : list (nat * slot P)),
         FL P cap t vac occ -> FL P cap (tl_clear P t) [0] [].
Proof. exact (clear_FL). Qed.
Print Assumptions C10_tasklist_clear.

Theorem C10_tasklist_every_history :
  forall (P : Type) (cap : nat) (ops : list (tl_op P)),
         1 <= cap <= 255 ->
         tl_ops_ok P cap ops (tl_init P cap) ->
         exists (vac : list nat) (occ : list (nat * slot P)),
           FL P cap (tl_run P cap ops (tl_init P cap)) vac occ.
Proof. exact (tl_run_FL). Qed.
Print Assumptions C10_tasklist_every_history.

Theorem C10_tasklist_no_leak :
  forall (P : Type) (cap : nat) (t : tl P) (vac : list nat) (occ : list (nat * slot P))
           (tasks : list (nat * nat * option P)),
         FL P cap t vac occ ->
         length occ + length tasks = cap ->
         let
         '(t', idxs) := emplace_all P cap t tasks in
          Forall (fun i : nat => i < cap) idxs /\
          length idxs = length tasks /\
          NoDup idxs /\
          t_count t' = cap /\ (forall (o d : nat) (p : option P), emplace P cap t' o d p = (t', INVALID)).
Proof. exact (emplace_all_spec). Qed.
Print Assumptions C10_tasklist_no_leak.

(* the tie to the source, by proof (DESIGN.md 4.7): the body of TaskListT<void, N>::emplace(origin, destination) as
   tools/leafcode.py translates it from clang's typed AST of /repo's current task_list.inl on every run (the array of
   items as one array per field, prev/next sharing storage with origin/destination as the union in TaskBase says), run
   in the interpreter of Model/Cxx.v on any list satisfying the invariant FL - hence on every list any operation
   sequence reaches - stays inside the array and computes exactly the model's emplace, for every capacity up to 255 *)
Theorem C10_source_emplace_is_the_model :
  forall (P : Type) (cap : nat) (t : tl P) (vac : list nat) (occ : list (nat * slot P)) 
           (o d : nat) (p : option P),
         FL P cap t vac occ ->
         o <= 255 ->
         d <= 255 ->
         result
           (run leaf_ftable (tl_consts cap) TaskListT_void_5__emplace_u8_u8
              [BinInt.Z.of_nat o; BinInt.Z.of_nat d] (tl_fields t) (tl_arrays t)) =
         (let '(t', r) := emplace P cap t o d p in Some (Some (BinInt.Z.of_nat r), tl_fields t', tl_arrays t')).
Proof. exact (src_TaskList_emplace_FL). Qed.
Print Assumptions C10_source_emplace_is_the_model.

(* the tie to the source, by proof (DESIGN.md 4.7): the body of TaskListT<void, N>::remove(i) as tools/leafcode.py
   translates it from clang's typed AST of /repo's current task_list.inl on every run (the array of items as one array
   per field, prev/next sharing storage with origin/destination as the union in TaskBase says), run in the interpreter
   of Model/Cxx.v on any list satisfying the invariant FL - hence on every list any operation sequence reaches - stays
   inside the array and computes exactly the model's remove, for every capacity up to 255 *)
Theorem C10_source_remove_is_the_model :
  forall (P : Type) (cap : nat) (t : tl P) (vac : list nat) (occ : list (nat * slot P)) (i : nat),
         FL P cap t vac occ ->
         In i (map fst occ) ->
         result
           (run leaf_ftable (tl_consts cap) TaskListT_void_5__remove [BinInt.Z.of_nat i] 
              (tl_fields t) (tl_arrays t)) =
         Some (None, tl_fields (remove P cap t i), tl_arrays (remove P cap t i)).
Proof. exact (src_TaskList_remove_FL). Qed.
Print Assumptions C10_source_remove_is_the_model.

(* ... and clear() resets exactly the four indices *)
Theorem C10_source_clear_is_the_model :
  forall (P : Type) (cap : nat) (t : tl P),
         result (run leaf_ftable (tl_consts cap) TaskListT_void_5__clear [] (tl_fields t) (tl_arrays t)) =
         Some (None, tl_fields (tl_clear P t), tl_arrays (tl_clear P t)).
Proof. exact (src_TaskList_clear). Qed.
Print Assumptions C10_source_clear_is_the_model.

(* over whole histories: any in-contract sequence of emplace / remove / clear from a freshly constructed list, executed
   by running the translated member functions one after the other on the object (src_run; None would be a fault), never
   faults and yields, object for object, the model's run - to which the invariant (tl_run_FL) and the no-leak / exact-
   capacity theorem (emplace_all_spec) above apply *)
Theorem C10_source_every_history :
  forall (P : Type) (cap : nat) (ops : list (tl_op P)),
         1 <= cap <= 255 ->
         tl_ops_ok P cap ops (tl_init P cap) ->
         Forall (ids_ok P) ops ->
         src_run P cap (obj_of P (tl_init P cap)) ops = Some (obj_of P (tl_run P cap ops (tl_init P cap))).
Proof. exact (src_TaskList_every_history). Qed.
Print Assumptions C10_source_every_history.

(* the tie to the source, by proof (DESIGN.md 4.7): the body of PlanT<Args>::append(origin, destination) as
   tools/leafcode.py translates it from clang's typed AST of /repo's current plan_1.inl on every run - the member
   functions of the sub-objects it calls (TaskListT::emplace / remove / count, StaticArrayT::operator[],
   PlanT::linkTask) inlined at the call site, running in _planData.tasks / _planData.taskLinks, so the term is
   everything the call executes - run in the interpreter of Model/Cxx.v on any plan data satisfying the plan invariant
   PlanInv (which pd_init establishes and every plan operation preserves: plan_append_spec, plan_remove_spec above)
   stays inside tasks and taskLinks and computes exactly the model's plan_append (capacity test, planExists, slot
   allocation, linking at the end of the plan order), for every capacity up to 255 *)
Theorem C10_source_plan_append_is_the_model :
  forall (P : Type) (cap : nat) (d : plan_data P) (order : list nat) (o dst : nat),
         PlanInv P cap d order ->
         o <= 255 ->
         dst <= 255 ->
         result
           (run leaf_ftable (pl_consts cap) PlanT__append [BinInt.Z.of_nat o; BinInt.Z.of_nat dst]
              (pd_fields d) (pd_arrays d)) =
         (let '(d', b) := plan_append P cap d o dst in Some (Some (b2z b), pd_fields d', pd_arrays d')).
Proof. exact (src_Plan_append_inv). Qed.
Print Assumptions C10_source_plan_append_is_the_model.

(* ... and so does the public entry point plan.change(origin, destination), whose body `return append(origin,
   destination);` the translator inlines as well: the term is everything a call of change() executes *)
Theorem C10_source_plan_change_is_the_model :
  forall (P : Type) (cap : nat) (d : plan_data P) (order : list nat) (o dst : nat),
         PlanInv P cap d order ->
         o <= 255 ->
         dst <= 255 ->
         result
           (run leaf_ftable (pl_consts cap) PlanT__change [BinInt.Z.of_nat o; BinInt.Z.of_nat dst]
              (pd_fields d) (pd_arrays d)) =
         (let '(d', b) := plan_append P cap d o dst in Some (Some (b2z b), pd_fields d', pd_arrays d')).
Proof. exact (src_Plan_change_inv). Qed.
Print Assumptions C10_source_plan_change_is_the_model.

(* the tie to the source, by proof (DESIGN.md 4.7): the body of PlanT<Args>::remove(index) as tools/leafcode.py
   translates it from clang's typed AST of /repo's current plan_1.inl on every run - the member functions of the sub-
   objects it calls (TaskListT::emplace / remove / count, StaticArrayT::operator[], PlanT::linkTask) inlined at the
   call site, running in _planData.tasks / _planData.taskLinks, so the term is everything the call executes - run in
   the interpreter of Model/Cxx.v on any plan data satisfying the plan invariant PlanInv (which pd_init establishes and
   every plan operation preserves: plan_append_spec, plan_remove_spec above) stays inside tasks and taskLinks and
   computes exactly the model's plan_remove (unlinking from the plan order, clearing the link, returning the slot), for
   every capacity up to 255 *)
Theorem C10_source_plan_remove_is_the_model :
  forall (P : Type) (cap : nat) (d : plan_data P) (l1 : list nat) (x : nat) (l2 : list nat),
         PlanInv P cap d (l1 ++ x :: l2) ->
         result (run leaf_ftable (pl_consts cap) PlanT__remove [BinInt.Z.of_nat x] (pd_fields d) (pd_arrays d)) =
         Some (None, pd_fields (plan_remove P cap d x), pd_arrays (plan_remove P cap d x)).
Proof. exact (src_Plan_remove_inv). Qed.
Print Assumptions C10_source_plan_remove_is_the_model.

(* explicit operator bool() of PlanT, as translated from the current source: true exactly when the plan order is non-
   empty *)
Theorem C10_source_plan_emptiness_test_is_the_model :
  forall (P : Type) (cap : nat) (d : plan_data P) (order : list nat),
         PlanInv P cap d order ->
         result (run leaf_ftable (pl_consts cap) PlanT__operator_bool [] (pd_fields d) (pd_arrays d)) =
         Some (Some (b2z (negb (length order =? 0))), pd_fields d, pd_arrays d).
Proof. exact (src_Plan_nonempty_inv). Qed.
Print Assumptions C10_source_plan_emptiness_test_is_the_model.

(* over whole histories: any in-contract sequence of append / remove-a-task-of-the-plan from a freshly constructed
   PlanDataT, executed by running the translated member functions one after the other on the object (src_prun; None
   would be a fault), never faults, returns what the model returns (the bool of every append) and leaves, object for
   object, the model's plan data - which satisfies PlanInv, so the capacity / order / no-leak statements of this file
   describe what the code in /repo does *)
Theorem C10_source_plan_every_history :
  forall (P : Type) (cap n : nat) (ops : list sop),
         1 <= cap <= 255 ->
         pops_ok P cap (pd_init P cap n) ops ->
         src_prun cap (pobj_of P (pd_init P cap n)) ops =
         Some (pobj_of P (fst (m_prun P cap (pd_init P cap n) ops)), snd (m_prun P cap (pd_init P cap n) ops)) /\
         (exists order : list nat, PlanInv P cap (fst (m_prun P cap (pd_init P cap n) ops)) order).
Proof. exact (src_Plan_every_history). Qed.
Print Assumptions C10_source_plan_every_history.

