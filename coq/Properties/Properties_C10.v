(* C10 — Plan capacity is exact, order-preserving and never leaks. Theorems only.
   Part 1 (this file, so far): the slot allocator under the plan, TaskListT. For every capacity 1..255 and
   every sequence of emplace / remove / clear of any length, the free-list invariant FL holds, emplace
   succeeds exactly when fewer than CAPACITY slots are occupied, returns a slot that was free, never
   disturbs an occupied slot, and the full capacity is available again whenever the list is empty. *)
From Coq Require Import List Arith Lia.
From FFSM2 Require Import Model.TaskList Proofs.TaskListProofs Proofs.TaskListRun.
Import ListNotations.

Theorem C10_tasklist_init : forall (P : Type) cap, 1 <= cap <= 255 -> FL P cap (tl_init P cap) [0] [].
Proof. exact init_FL. Qed.
Print Assumptions C10_tasklist_init.

(* emplace on a full list reports INVALID (255) and changes nothing *)
Theorem C10_tasklist_full : forall (P : Type) cap t vac occ o d p,
  FL P cap t vac occ -> t_count t = cap -> emplace P cap t o d p = (t, INVALID).
Proof. exact emplace_full. Qed.
Print Assumptions C10_tasklist_full.

(* emplace with room returns a slot that was vacant, stores the task there, keeps every occupied slot *)
Theorem C10_tasklist_emplace : forall (P : Type) cap t vac occ o d p,
  FL P cap t vac occ -> t_count t < cap ->
  exists v0 rest, vac = v0 :: rest /\ snd (emplace P cap t o d p) = v0 /\ v0 < cap /\ ~ In v0 (map fst occ) /\
    exists vac', FL P cap (fst (emplace P cap t o d p)) vac' ((v0, {| s_prev := o; s_next := d; s_pay := p |}) :: occ).
Proof. exact emplace_FL. Qed.
Print Assumptions C10_tasklist_emplace.

Theorem C10_tasklist_remove : forall (P : Type) cap t vac occ i,
  FL P cap t vac occ -> In i (map fst occ) -> FL P cap (remove P cap t i) (i :: vac) (rem P i occ).
Proof. exact remove_FL. Qed.
Print Assumptions C10_tasklist_remove.

Theorem C10_tasklist_clear : forall (P : Type) cap t vac occ, FL P cap t vac occ -> FL P cap (tl_clear P t) [0] [].
Proof. exact clear_FL. Qed.
Print Assumptions C10_tasklist_clear.

(* every history: the invariant holds after any sequence of operations that removes only occupied slots *)
Theorem C10_tasklist_every_history : forall (P : Type) cap ops, 1 <= cap <= 255 ->
  tl_ops_ok P cap ops (tl_init P cap) -> exists vac occ, FL P cap (tl_run P cap ops (tl_init P cap)) vac occ.
Proof. exact tl_run_FL. Qed.
Print Assumptions C10_tasklist_every_history.

(* no leak: from any reachable state with k slots occupied, cap - k further emplaces all succeed, and the next reports a full list *)
Theorem C10_tasklist_no_leak : forall (P : Type) cap t vac occ tasks,
  FL P cap t vac occ -> length occ + length tasks = cap ->
  let '(t', idxs) := emplace_all P cap t tasks in
  Forall (fun i => i < cap) idxs /\ length idxs = length tasks /\ NoDup idxs /\ t_count t' = cap /\
  forall o d p, emplace P cap t' o d p = (t', INVALID).
Proof. exact emplace_all_spec. Qed.
Print Assumptions C10_tasklist_no_leak.

Example C10_nonvacuous :
  let t0 := tl_init unit 2 in
  let '(t1, i1) := emplace unit 2 t0 0 1 None in
  let '(t2, i2) := emplace unit 2 t1 1 0 None in
  let '(t3, i3) := emplace unit 2 t2 1 1 None in
  let t4 := remove unit 2 t3 0 in
  let '(t5, i5) := emplace unit 2 t4 0 0 None in
  (i1, i2, i3, i5) = (0, 1, 255, 0).
Proof. vm_compute. reflexivity. Qed.
