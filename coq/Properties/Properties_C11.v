(* C11 - Transition history mirrors what happened; replay keeps replicas in sync. Theorems only. Vocabulary: Ready cfg
   s a = the machine is at a point where requests are processed (or between API calls) with state a < n active,
   registry.requested = INVALID, the outstanding request (if any) names a state, the plan is well formed; Inv = the
   same without naming a. loop_rounds = the guard rounds the substitution loop executes (ghost-instrumented copy of the
   loop, proved equal to it: transitions_loop_g_erase), each with its pending transition, whether it was cancelled, and
   whether it was dropped by applyRequest's same-destination rule; last_survivor = the pending transition of the last
   round neither cancelled nor dropped; rounds_shape / guard_round describe the events of the rounds (exit guard of the
   active state, then - unless it cancelled - entry guard of the destination; every guard view shows that round's
   pending transition and the survivor so far); change a a' l = the lifecycle events exit(a);enter(a') | reenter(a) |
   ...; quiet a l = no enter/exit/reenter in l and every view shows a active. *)
From Coq Require Import List Arith Bool NArith.
From FFSM2 Require Import Model.TaskList Model.BitArray Model.BitStream Model.Plan Model.Ancestors Model.Machine
  Proofs.BitArrayProofs Proofs.TaskListProofs Proofs.TaskListRun Proofs.PlanProofs Proofs.MachineFrame Proofs.MachinePlan Proofs.MachineLife Proofs.GuardProofs Proofs.CycleProofs Proofs.PlanStep
  Proofs.SerialProofs Proofs.LogProofs Proofs.MachineTop Model.Multi Generated.InitFacts Proofs.ConstructProofs Proofs.LifeMonitor Proofs.ActivationRounds Proofs.IndexSafety Proofs.FeatureProofs Model.Script Proofs.Contract Proofs.Histories Proofs.StatusBits Proofs.Worlds Model.Cxx Generated.LeafCode Proofs.LeafTactics Proofs.LeafConsts Proofs.LeafCodeTaskList Proofs.LeafCodeStream Proofs.LeafCodeWide.
Import ListNotations.

(* previousTransition() after a processing step is the surviving transition (origin, destination and payload), empty if
   none survived *)
Theorem C11_previous_is_the_survivor :
  forall (P : Type) (cfg : config) (orc : oracle P),
         wf_cfg cfg ->
         wf_oracle P cfg orc ->
         forall (s : mstate P) (a : nat),
         Ready P cfg s a ->
         let s1 := loop_state P cfg orc (c_limit cfg) (t_empty P) s in
         let rounds := loop_rounds P cfg orc (c_limit cfg) (t_empty P) s in
         let surv := last_survivor P rounds in
         let s' := process_request P cfg orc s in
         exists lr : list (event P),
           tr P s1 = lr ++ tr P s /\
           rounds_shape P cfg a (t_empty P) rounds lr /\
           MachineFrame.quiet P cfg a lr /\
           length rounds <= c_limit cfg /\
           requested P (co P s') = INVALID /\
           request P (co P s') = request P (co P s1) /\
           previous P (co P s') = (if c_history cfg then surv else previous P (co P s)) /\
           logger P (co P s') = logger P (co P s) /\
           Inv P cfg s' /\
           (if t_valid P surv
            then
             t_dest P surv < c_n cfg /\
             active P (co P s') = t_dest P surv /\
             (exists lc : list (event P),
                tr P s' = lc ++ lr ++ tr P s /\
                change P cfg a (t_dest P surv) lc /\ Forall (gview P KPlan surv (t_empty P)) lc)
            else active P (co P s') = a /\ tr P s' = lr ++ tr P s).
Proof. exact (process_request_top). Qed.
Print Assumptions C11_previous_is_the_survivor.

(* when previousTransition() is set its destination is the now-active state; when it is empty the active state did not
   change *)
Theorem C11_previous_names_the_active_state :
  forall (P : Type) (cfg : config) (orc : oracle P),
         wf_cfg cfg ->
         wf_oracle P cfg orc ->
         forall (s : mstate P) (a : nat),
         Ready P cfg s a ->
         c_history cfg = true ->
         let s' := process_request P cfg orc s in
         (t_valid P (previous P (co P s')) = true ->
          t_dest P (previous P (co P s')) = active P (co P s') /\ active P (co P s') < c_n cfg) /\
         (t_valid P (previous P (co P s')) = false -> active P (co P s') = a).
Proof. exact (previous_tracks_active). Qed.
Print Assumptions C11_previous_names_the_active_state.

(* feeding the authority's previousTransition().destination to replayTransition() on a replica in the same state
   reproduces the authority's active state, running enter/exit/reenter only, for arbitrary (hostile) replica callbacks
   orc' *)
Theorem C11_replica_in_sync :
  forall (P : Type) (cfg : config) (orc : oracle P),
         wf_cfg cfg ->
         wf_oracle P cfg orc ->
         forall orc' : oracle P,
         wf_oracle P cfg orc' ->
         forall (s : mstate P) (a : nat) (r : mstate P),
         Ready P cfg s a ->
         c_history cfg = true ->
         SInv P cfg (PIc P cfg) r ->
         active P (co P r) = a ->
         let s' := process_request P cfg orc s in
         let r' := feed P cfg orc' (previous P (co P s')) r in
         active P (co P r') = active P (co P s') /\
         SInv P cfg (PIc P cfg) r' /\
         (exists l : list (event P), tr P r' = l ++ tr P r /\ Forall (only_life P) l).
Proof. exact (replica_in_sync). Qed.
Print Assumptions C11_replica_in_sync.

(* replayTransition(d), d < n: returns true, the active state becomes d by exit/enter or reenter, no guard *)
Theorem C11_replay_transition :
  forall (P : Type) (cfg : config) (orc : oracle P) (PI : plan_data P -> Prop),
         plan_inv_ok P cfg PI ->
         wf_oracle P cfg orc ->
         wf_cfg cfg ->
         forall (d : nat) (s : mstate P) (a : nat),
         SInv P cfg PI s ->
         active P (co P s) = a ->
         a < c_n cfg ->
         d < c_n cfg ->
         let s' := fst (replay_transition P cfg orc d s) in
         SInv P cfg PI s' /\
         active P (co P s') = d /\
         logger P (co P s') = logger P (co P s) /\
         snd (replay_transition P cfg orc d s) = true /\
         (exists l : list (event P), tr P s' = l ++ tr P s /\ change P cfg a d l).
Proof. exact (replay_transition_spec). Qed.
Print Assumptions C11_replay_transition.

(* replayTransition(INVALID_STATE_ID) returns false and changes nothing at all *)
Theorem C11_replay_invalid_changes_nothing :
  forall (P : Type) (cfg : config) (orc : oracle P) (s : mstate P),
         replay_transition P cfg orc INVALID s = (s, false).
Proof. exact (replay_transition_invalid). Qed.
Print Assumptions C11_replay_invalid_changes_nothing.

(* replayEnter(d) on an inactive machine: root enter then enter(d), no guard *)
Theorem C11_replay_enter :
  forall (P : Type) (cfg : config) (orc : oracle P) (PI : plan_data P -> Prop),
         plan_inv_ok P cfg PI ->
         wf_oracle P cfg orc ->
         wf_cfg cfg ->
         forall (d : nat) (s : mstate P),
         SInv P cfg PI s ->
         active P (co P s) = INVALID ->
         d < c_n cfg ->
         let s' := replay_enter P cfg orc d s in
         SInv P cfg PI s' /\
         active P (co P s') = d /\
         logger P (co P s') = logger P (co P s) /\
         (exists l : list (event P), tr P s' = l ++ tr P s /\ change P cfg INVALID d l).
Proof. exact (replay_enter_spec). Qed.
Print Assumptions C11_replay_enter.

(* over whole histories: the authority runs any in-contract history of
   enter/exit/update/react/changeTo/changeWith/immediateChange*/succeed/fail/plan edits/query under callbacks orc; the
   replica (arbitrary callbacks orc') is driven only by replayEnter(previous.destination or 0) after enter(),
   replayTransition(previous.destination) after each processing call whose previousTransition() is set, exit() after
   exit(). After every call the replica's active state equals the authority's, and everything appended to the replica's
   trace is enter/exit/reenter - no guard is consulted on it *)
Theorem C11_replica_follows_every_history :
  forall (P : Type) (cfg : config) (orc orc' : oracle P),
         wf_cfg cfg ->
         wf_oracle P cfg orc ->
         wf_oracle P cfg orc' ->
         c_history cfg = true ->
         forall (lg lg' : bool) (ops : list (api_op P)),
         active P (co P (construct P cfg orc' lg')) = active P (co P (construct P cfg orc lg)) ->
         ops_ok P cfg orc (construct P cfg orc lg) ops ->
         Forall (auth_op P) ops ->
         let
         '(s', r') := follow P cfg orc orc' (construct P cfg orc lg) (construct P cfg orc' lg') ops in
          s' = Machine.run P cfg orc lg ops /\
          active P (co P r') = active P (co P s') /\
          (exists l : list (event P), tr P r' = l ++ tr P (construct P cfg orc' lg') /\ lifecycle_only P l).
Proof. exact (replica_follows_every_history). Qed.
Print Assumptions C11_replica_follows_every_history.

Theorem C11_replica_follows_from_any_agreeing_pair :
  forall (P : Type) (cfg : config) (orc orc' : oracle P),
         wf_cfg cfg ->
         wf_oracle P cfg orc ->
         wf_oracle P cfg orc' ->
         c_history cfg = true ->
         forall (ops : list (api_op P)) (s r : mstate P),
         Inv P cfg s ->
         SInv P cfg (PIc P cfg) r ->
         active P (co P r) = active P (co P s) ->
         ops_ok P cfg orc s ops ->
         Forall (auth_op P) ops ->
         let
         '(s', r') := follow P cfg orc orc' s r ops in
          s' = run_from P cfg orc s ops /\
          Inv P cfg s' /\
          SInv P cfg (PIc P cfg) r' /\
          active P (co P r') = active P (co P s') /\
          (exists l : list (event P), tr P r' = l ++ tr P r /\ lifecycle_only P l).
Proof. exact (replica_follows_from). Qed.
Print Assumptions C11_replica_follows_from_any_agreeing_pair.

(* manual activation: both instances are constructed inactive, so the premise 'constructed in the same state' holds
   whatever the callbacks do *)
Theorem C11_replica_follows_manual :
  forall (P : Type) (cfg : config) (orc orc' : oracle P),
         wf_cfg cfg ->
         wf_oracle P cfg orc ->
         wf_oracle P cfg orc' ->
         c_history cfg = true ->
         forall (lg lg' : bool) (ops : list (api_op P)),
         c_manual cfg = true ->
         ops_ok P cfg orc (construct P cfg orc lg) ops ->
         Forall (auth_op P) ops ->
         let
         '(s', r') := follow P cfg orc orc' (construct P cfg orc lg) (construct P cfg orc' lg') ops in
          s' = Machine.run P cfg orc lg ops /\
          active P (co P r') = active P (co P s') /\
          (exists l : list (event P), tr P r' = l ++ tr P (construct P cfg orc' lg') /\ lifecycle_only P l).
Proof. exact (replica_follows_manual). Qed.
Print Assumptions C11_replica_follows_manual.

(* one call of the authority and its mirror on the replica *)
Theorem C11_one_call_mirrored :
  forall (P : Type) (cfg : config) (orc orc' : oracle P),
         wf_cfg cfg ->
         wf_oracle P cfg orc ->
         wf_oracle P cfg orc' ->
         c_history cfg = true ->
         forall (s r : mstate P) (op : api_op P),
         Inv P cfg s ->
         SInv P cfg (PIc P cfg) r ->
         active P (co P r) = active P (co P s) ->
         in_contract P cfg s op ->
         auth_op P op ->
         let s' := fst (step P cfg orc s op) in
         let r' := mirror P cfg orc' op s' r in
         Inv P cfg s' /\
         SInv P cfg (PIc P cfg) r' /\
         active P (co P r') = active P (co P s') /\
         (exists l : list (event P), tr P r' = l ++ tr P r /\ lifecycle_only P l).
Proof. exact (follow_step). Qed.
Print Assumptions C11_one_call_mirrored.

(* over whole histories: every update(), react(), immediateChangeTo() and immediateChangeWith() of every in-contract
   history processes requests exactly once, from a Ready state reached by callbacks that applied no transition - so
   every statement of this file made for process_request on a Ready state holds for every processing step of every
   history *)
Theorem C11_every_processing_step_of_every_history :
  forall (P : Type) (cfg : config) (orc : oracle P),
         wf_cfg cfg ->
         wf_oracle P cfg orc ->
         forall (lg : bool) (pre : list (api_op P)) (op : api_op P) (post : list (api_op P)),
         ops_ok P cfg orc (construct P cfg orc lg) (pre ++ op :: post) ->
         is_processing_op P op = true ->
         let s := Machine.run P cfg orc lg pre in
         let a := active P (co P s) in
         exists s5 : mstate P,
           Ready P cfg s5 a /\
           Machine.run P cfg orc lg (pre ++ [op]) = process_request P cfg orc s5 /\
           (exists l : list (event P), tr P s5 = l ++ tr P s /\ MachineFrame.quiet P cfg a l).
Proof. exact (every_processing_step_of_every_history). Qed.
Print Assumptions C11_every_processing_step_of_every_history.

