(* C11 - Transition history mirrors what happened; replay keeps replicas in sync. Theorems only. Vocabulary: Ready cfg
   s a = the machine is at a point where requests are processed (or between API calls) with state a < n active,
   registry.requested = INVALID, the outstanding request (if any) names a state, the plan is well formed; Inv = the
   same without naming a. loop_rounds = the guard rounds the substitution loop executes (ghost-instrumented copy of the
   loop, proved equal to it: transitions_loop_g_erase), each with its pending transition, whether it was cancelled, and
   whether it was dropped by applyRequest's same-destination rule; last_survivor = the pending transition of the last
   round neither cancelled nor dropped; rounds_shape / guard_round describe the events of the rounds (exit guard of the
   active state, then - unless it cancelled - entry guard of the destination; every guard view shows that round's
   pending transition and the survivor so far); change a a' l = the lifecycle events exit(a);enter(a') | reenter(a) |
   ...; quiet a l = no enter/exit/reenter in l and every view shows a active. *)
From Coq Require Import List Arith Bool NArith.
From FFSM2 Require Import Model.TaskList Model.BitArray Model.BitStream Model.Plan Model.Ancestors Model.Machine
  Proofs.BitArrayProofs Proofs.MachineFrame Proofs.MachinePlan Proofs.MachineLife Proofs.GuardProofs Proofs.CycleProofs Proofs.PlanStep
  Proofs.SerialProofs Proofs.LogProofs Proofs.MachineTop Model.Multi Generated.InitFacts Proofs.ConstructProofs Proofs.LifeMonitor Proofs.ActivationRounds Proofs.IndexSafety Proofs.FeatureProofs.
Import ListNotations.

(* previousTransition() after a processing step is the surviving transition (origin, destination and payload), empty if
   none survived *)
Theorem C11_previous_is_the_survivor :
  forall (P : Type) (cfg : config) (orc : oracle P),
         wf_cfg cfg ->
         wf_oracle P cfg orc ->
         forall (s : mstate P) (a : nat),
         Ready P cfg s a ->
         let s1 := loop_state P cfg orc (c_limit cfg) (t_empty P) s in
         let rounds := loop_rounds P cfg orc (c_limit cfg) (t_empty P) s in
         let surv := last_survivor P rounds in
         let s' := process_request P cfg orc s in
         exists lr : list (event P),
           tr P s1 = lr ++ tr P s /\
           rounds_shape P cfg a (t_empty P) rounds lr /\
           MachineFrame.quiet P cfg a lr /\
           length rounds <= c_limit cfg /\
           requested P (co P s') = INVALID /\
           request P (co P s') = request P (co P s1) /\
           previous P (co P s') = (if c_history cfg then surv else previous P (co P s)) /\
           logger P (co P s') = logger P (co P s) /\
           Inv P cfg s' /\
           (if t_valid P surv
            then
             t_dest P surv < c_n cfg /\
             active P (co P s') = t_dest P surv /\
             (exists lc : list (event P),
                tr P s' = lc ++ lr ++ tr P s /\
                change P cfg a (t_dest P surv) lc /\ Forall (gview P KPlan surv (t_empty P)) lc)
            else active P (co P s') = a /\ tr P s' = lr ++ tr P s).
Proof. exact (process_request_top). Qed.
Print Assumptions C11_previous_is_the_survivor.

(* when previousTransition() is set its destination is the now-active state; when it is empty the active state did not
   change *)
Theorem C11_previous_names_the_active_state :
  forall (P : Type) (cfg : config) (orc : oracle P),
         wf_cfg cfg ->
         wf_oracle P cfg orc ->
         forall (s : mstate P) (a : nat),
         Ready P cfg s a ->
         c_history cfg = true ->
         let s' := process_request P cfg orc s in
         (t_valid P (previous P (co P s')) = true ->
          t_dest P (previous P (co P s')) = active P (co P s') /\ active P (co P s') < c_n cfg) /\
         (t_valid P (previous P (co P s')) = false -> active P (co P s') = a).
Proof. exact (previous_tracks_active). Qed.
Print Assumptions C11_previous_names_the_active_state.

(* feeding the authority's previousTransition().destination to replayTransition() on a replica in the same state
   reproduces the authority's active state, running enter/exit/reenter only, for arbitrary (hostile) replica callbacks
   orc' *)
Theorem C11_replica_in_sync :
  forall (P : Type) (cfg : config) (orc : oracle P),
         wf_cfg cfg ->
         wf_oracle P cfg orc ->
         forall orc' : oracle P,
         wf_oracle P cfg orc' ->
         forall (s : mstate P) (a : nat) (r : mstate P),
         Ready P cfg s a ->
         c_history cfg = true ->
         SInv P cfg (PIc P cfg) r ->
         active P (co P r) = a ->
         let s' := process_request P cfg orc s in
         let r' := feed P cfg orc' (previous P (co P s')) r in
         active P (co P r') = active P (co P s') /\
         SInv P cfg (PIc P cfg) r' /\
         (exists l : list (event P), tr P r' = l ++ tr P r /\ Forall (only_life P) l).
Proof. exact (replica_in_sync). Qed.
Print Assumptions C11_replica_in_sync.

(* replayTransition(d), d < n: returns true, the active state becomes d by exit/enter or reenter, no guard *)
Theorem C11_replay_transition :
  forall (P : Type) (cfg : config) (orc : oracle P) (PI : plan_data P -> Prop),
         plan_inv_ok P cfg PI ->
         wf_oracle P cfg orc ->
         wf_cfg cfg ->
         forall (d : nat) (s : mstate P) (a : nat),
         SInv P cfg PI s ->
         active P (co P s) = a ->
         a < c_n cfg ->
         d < c_n cfg ->
         let s' := fst (replay_transition P cfg orc d s) in
         SInv P cfg PI s' /\
         active P (co P s') = d /\
         logger P (co P s') = logger P (co P s) /\
         snd (replay_transition P cfg orc d s) = true /\
         (exists l : list (event P), tr P s' = l ++ tr P s /\ change P cfg a d l).
Proof. exact (replay_transition_spec). Qed.
Print Assumptions C11_replay_transition.

(* replayTransition(INVALID_STATE_ID) returns false and changes nothing at all *)
Theorem C11_replay_invalid_changes_nothing :
  forall (P : Type) (cfg : config) (orc : oracle P) (s : mstate P),
         replay_transition P cfg orc INVALID s = (s, false).
Proof. exact (replay_transition_invalid). Qed.
Print Assumptions C11_replay_invalid_changes_nothing.

(* replayEnter(d) on an inactive machine: root enter then enter(d), no guard *)
Theorem C11_replay_enter :
  forall (P : Type) (cfg : config) (orc : oracle P) (PI : plan_data P -> Prop),
         plan_inv_ok P cfg PI ->
         wf_oracle P cfg orc ->
         wf_cfg cfg ->
         forall (d : nat) (s : mstate P),
         SInv P cfg PI s ->
         active P (co P s) = INVALID ->
         d < c_n cfg ->
         let s' := replay_enter P cfg orc d s in
         SInv P cfg PI s' /\
         active P (co P s') = d /\
         logger P (co P s') = logger P (co P s) /\
         (exists l : list (event P), tr P s' = l ++ tr P s /\ change P cfg INVALID d l).
Proof. exact (replay_enter_spec). Qed.
Print Assumptions C11_replay_enter.

