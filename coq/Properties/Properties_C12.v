(* C12 - Serialization round-trips the activity state and is canonical. Theorems only. saver_ok = the saver is active
   with a state below n, or inactive (manual activation only). *)
From Coq Require Import List Arith Bool NArith.
From FFSM2 Require Import Model.TaskList Model.BitArray Model.BitStream Model.Plan Model.Ancestors Model.Machine
  Proofs.BitArrayProofs Proofs.TaskListProofs Proofs.TaskListRun Proofs.PlanProofs Proofs.MachineFrame Proofs.MachinePlan Proofs.MachineLife Proofs.GuardProofs Proofs.CycleProofs Proofs.PlanStep
  Proofs.SerialProofs Proofs.LogProofs Proofs.MachineTop Model.Multi Generated.InitFacts Proofs.ConstructProofs Proofs.LifeMonitor Proofs.ActivationRounds Proofs.IndexSafety Proofs.FeatureProofs Model.Script Proofs.Contract Proofs.Histories Proofs.StatusBits Proofs.Worlds Model.Cxx Generated.LeafCode Proofs.LeafTactics Proofs.LeafConsts Proofs.LeafCodeTaskList Proofs.LeafCodeStream Proofs.LeafCodeWide.
Import ListNotations.

(* loading what any instance of the same type saved, into any loader state: the loader ends with the saver's activity,
   by exactly the lifecycle change needed (none | exit;enter | reenter | root enter;enter | exit;root exit) - change
   contains no guard event *)
Theorem C12_load_roundtrip :
  forall (P : Type) (cfg : config) (orc : oracle P) (PI : plan_data P -> Prop),
         plan_inv_ok P cfg PI ->
         wf_oracle P cfg orc ->
         wf_cfg cfg ->
         forall (c0 : core P) (s : mstate P),
         SInv P cfg PI s ->
         saver_ok P cfg c0 ->
         (c_manual cfg = false -> is_on P cfg s) ->
         let s' := load P cfg orc (save P cfg c0) s in
         SInv P cfg PI s' /\
         active P (co P s') = active P c0 /\
         logger P (co P s') = logger P (co P s) /\
         (exists l : list (event P), tr P s' = l ++ tr P s /\ change P cfg (active P (co P s)) (active P c0) l).
Proof. exact (load_roundtrip). Qed.
Print Assumptions C12_load_roundtrip.

Theorem C12_change_has_no_guards :
  forall (P : Type) (cfg : config) (a a' : nat) (l : list (event P)),
         change P cfg a a' l -> Forall (only_life P) l.
Proof. exact (change_only_life). Qed.
Print Assumptions C12_change_has_no_guards.

(* save() is a function of (activation mode, n, active state) only and does not modify the machine (it takes the core
   and returns bytes) *)
Theorem C12_save_is_pure :
  forall (P : Type) (cfg : config) (c : core P),
         save P cfg c = save_bytes (c_manual cfg) (c_n cfg) (active P c).
Proof. exact (save_pure). Qed.
Print Assumptions C12_save_is_pure.

(* exactly ceil(SERIAL_BITS / 8) bytes, for every core *)
Theorem C12_save_length :
  forall (P : Type) (cfg : config) (c : core P),
         length (save P cfg c) = N.to_nat ((serial_bits cfg + 7) / 8).
Proof. exact (save_length). Qed.
Print Assumptions C12_save_length.

Theorem C12_save_fits :
  forall (P : Type) (cfg : config),
         n_ok cfg -> forall c : core P, (serial_bits cfg <= 9)%N /\ 1 <= length (save P cfg c) <= 2.
Proof. exact (save_le_2_bytes). Qed.
Print Assumptions C12_save_fits.

(* two machines produce equal buffers iff their activity states are equal *)
Theorem C12_canonical :
  forall (P : Type) (cfg : config),
         n_ok cfg ->
         forall c1 c2 : core P,
         saver_ok P cfg c1 -> saver_ok P cfg c2 -> save P cfg c1 = save P cfg c2 <-> active P c1 = active P c2.
Proof. exact (save_canonical). Qed.
Print Assumptions C12_canonical.

Theorem C12_read_back_active :
  forall (P : Type) (cfg : config),
         n_ok cfg ->
         forall (c : core P) (a : nat),
         active P c = a ->
         a < c_n cfg ->
         read (save P cfg c) 0 1 = (1%N, 1%N) /\
         read (save P cfg c) 1 (width_bits cfg) = (N.of_nat a, (1 + width_bits cfg)%N).
Proof. exact (save_read_active). Qed.
Print Assumptions C12_read_back_active.

Theorem C12_read_back_inactive :
  forall (P : Type) (cfg : config),
         n_ok cfg ->
         forall c : core P, c_manual cfg = true -> active P c = INVALID -> read (save P cfg c) 0 1 = (0%N, 1%N).
Proof. exact (save_read_inactive). Qed.
Print Assumptions C12_read_back_inactive.

(* load(save(c0)) with the bit stream eliminated *)
Theorem C12_load_of_save :
  forall (P : Type) (cfg : config) (orc : oracle P),
         n_ok cfg ->
         forall (c0 : core P) (s : mstate P),
         saver_ok P cfg c0 ->
         load P cfg orc (save P cfg c0) s =
         (if c_manual cfg
          then
           if machine_is_active P c0
           then
            if machine_is_active P (co P s)
            then base_load' P cfg orc (active P c0) s
            else load_enter' P cfg orc (active P c0) s
           else if machine_is_active P (co P s) then final_exit P cfg orc s else s
          else base_load' P cfg orc (active P c0) s).
Proof. exact (load_save_spec). Qed.
Print Assumptions C12_load_of_save.

Theorem C12_saved_buffer_in_contract :
  forall (P : Type) (cfg : config),
         n_ok cfg -> forall c0 : core P, saver_ok P cfg c0 -> buf_ok cfg (save P cfg c0).
Proof. exact (load_buffer_in_contract). Qed.
Print Assumptions C12_saved_buffer_in_contract.

(* over whole histories: whatever in-contract histories (and callbacks) the saver and the loader have behind them,
   load(save(saver)) into the loader leaves it with the saver's activity, by exactly the lifecycle change needed and
   enter/exit/reenter callbacks only *)
Theorem C12_between_any_two_histories :
  forall (P : Type) (cfg : config) (orc orc' : oracle P),
         wf_cfg cfg ->
         wf_oracle P cfg orc ->
         wf_oracle P cfg orc' ->
         forall (lg lg' : bool) (ops ops' : list (api_op P)),
         ops_ok P cfg orc (construct P cfg orc lg) ops ->
         ops_ok P cfg orc' (construct P cfg orc' lg') ops' ->
         (c_manual cfg = false -> is_on P cfg (Machine.run P cfg orc lg ops)) ->
         (c_manual cfg = false -> is_on P cfg (Machine.run P cfg orc' lg' ops')) ->
         let saver := Machine.run P cfg orc lg ops in
         let loader := Machine.run P cfg orc' lg' ops' in
         let loader' := load P cfg orc' (save P cfg (co P saver)) loader in
         active P (co P loader') = active P (co P saver) /\
         Inv P cfg loader' /\
         (exists l : list (event P),
            tr P loader' = l ++ tr P loader /\
            change P cfg (active P (co P loader)) (active P (co P saver)) l /\ Forall (only_life P) l).
Proof. exact (load_roundtrip_between_histories). Qed.
Print Assumptions C12_between_any_two_histories.

Theorem C12_reachable_states_can_be_saved :
  forall (P : Type) (cfg : config) (orc : oracle P),
         wf_cfg cfg ->
         wf_oracle P cfg orc ->
         forall (lg : bool) (ops : list (api_op P)),
         ops_ok P cfg orc (construct P cfg orc lg) ops ->
         (c_manual cfg = false -> is_on P cfg (Machine.run P cfg orc lg ops)) ->
         saver_ok P cfg (co P (Machine.run P cfg orc lg ops)).
Proof. exact (reachable_saver_ok). Qed.
Print Assumptions C12_reachable_states_can_be_saved.

(* the tie to the source, by proof: the static constants of BitArrayT<N> as tools/leafcode.py translates them from
   clang's typed AST of /repo's current bit_array.hpp / utility.hpp on every run (Generated/LeafCode.v; contain()
   included), evaluated in the interpreter of Model/Cxx.v (C++ integer semantics), are CAPACITY = N and UNIT_COUNT =
   ceil(N / 8) for every N up to 255 - the size the model gives the report-bit arrays and the serialized form's byte
   count rest on *)
Theorem C12_source_constants_are_the_model :
  forall cap : Z,
         BinInt.Z.le (Zpos 1) cap /\ BinInt.Z.le cap (Zpos 255) ->
         build_consts leaf_ftable ba_consts_defs (ncapacity cap) = Some (ba_consts cap).
Proof. exact (src_BitArray_consts). Qed.
Print Assumptions C12_source_constants_are_the_model.

(* contain(x, to) of utility.hpp, as translated from the current source, is ceil(x / to) for all one-byte operands (no
   wrap-around in the intermediate sum) *)
Theorem C12_source_contain_is_the_model :
  forall x t : Z,
         BinInt.Z.le Z0 x /\ BinInt.Z.le x (Zpos 255) ->
         BinInt.Z.le (Zpos 1) t /\ BinInt.Z.le t (Zpos 255) ->
         call2 leaf_ftable contain_u8_fn x t = Some (BinInt.Z.div (BinInt.Z.sub (BinInt.Z.add x t) (Zpos 1)) t).
Proof. exact (src_contain_u8). Qed.
Print Assumptions C12_source_contain_is_the_model.

(* several instances: j.save(buffer); i.load(buffer) at any point of any accepted multi-instance script (the instances
   may be copies, may have been loaded before, may have gone through any calls) leaves instance i with instance j's
   activity by exactly the lifecycle change needed, enter/exit/reenter callbacks only *)
Theorem C12_every_load_between_instances_of_every_script :
  forall (P : Type) (cfg : config) (orc_of : nat -> oracle P),
         wf_cfg cfg ->
         (forall i : nat, wf_oracle P cfg (orc_of i)) ->
         forall (slots : nat) (pre : list (wop P)) (i j : nat) (post : list (wop P)),
         first_violation P cfg orc_of 0 {| insts := repeat None slots; glog := [] |}
           (pre ++ WLoadFrom P i j :: post) = None ->
         exists si sj si' : mstate P,
           get_inst P (wrun P cfg orc_of slots pre) i = Some si /\
           get_inst P (wrun P cfg orc_of slots pre) j = Some sj /\
           get_inst P (wrun P cfg orc_of slots (pre ++ [WLoadFrom P i j])) i = Some si' /\
           active P (co P si') = active P (co P sj) /\
           (exists l : list (event P),
              tr P si' = l ++ tr P si /\
              change P cfg (active P (co P si)) (active P (co P sj)) l /\ Forall (only_life P) l).
Proof. exact (every_load_between_instances). Qed.
Print Assumptions C12_every_load_between_instances_of_every_script.

