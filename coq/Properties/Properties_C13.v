(* C13 — Bit stream: reads return exactly what was written, packed back to back.
   This file contains the property theorems and nothing else; each is closed by `exact` of a lemma
   proved in Proofs/, and its axioms are printed beneath it. *)
From Coq Require Import List NArith ZArith.
From FFSM2 Require Import Model.Bits Model.BitStream Proofs.BitsProofs Proofs.BitStreamProofs Model.Cxx Generated.LeafCode Proofs.LeafTactics Proofs.LeafLoops Proofs.LeafCodeBits Proofs.LeafCodeStream Proofs.LeafCodeWide Proofs.LeafCodeFields Proofs.LeafCodeBuffer.
Import ListNotations.
Local Open Scope N_scope.

(* One field, any cursor, width and fitting value: the cursor advances by exactly the width, reading the
   same width back returns the value, only the field's own bits change (earlier bits untouched, bits past
   the new cursor stay zero), and the field's bits are the value's bits, least significant first. *)
Theorem C13_field_roundtrip : forall buf c w v,
  v < 2 ^ w -> c + w <= 8 * N.of_nat (length buf) -> c + w < 256 -> zeros_from buf c ->
  let '(buf', c') := write buf c w v in
  read buf' c w = (v, c + w) /\ c' = c + w /\ length buf' = length buf /\
  zeros_from buf' (c + w) /\
  (forall p, p < c -> getbit buf' p = getbit buf p) /\
  (forall j, j < w -> getbit buf' (c + j) = N.testbit v j).
Proof. exact write_read_roundtrip. Qed.
Print Assumptions C13_field_roundtrip.

(* Any sequence of fields (widths 1..32, values that fit) whose total fits the capacity: writing them and
   then reading the same widths returns the same values in order; the cursor ends at the sum of the widths. *)
Theorem C13_sequence_roundtrip : forall fs buf c,
  fields_ok fs -> c + total_width fs <= 8 * N.of_nat (length buf) -> c + total_width fs < 256 ->
  zeros_from buf c ->
  let '(buf', c') := write_fields buf c fs in
  c' = c + total_width fs /\ length buf' = length buf /\ zeros_from buf' c' /\
  (forall p, p < c -> getbit buf' p = getbit buf p) /\
  read_fields buf' c (map fst fs) = (map snd fs, c').
Proof. exact fields_roundtrip. Qed.
Print Assumptions C13_sequence_roundtrip.

(* The stream starts from a cleared buffer of contain(BITS, 8) bytes. *)
Theorem C13_fresh_stream : forall bits,
  zeros_from (buffer_clear bits) 0 /\ N.of_nat (length (buffer_clear bits)) = (bits + 7) / 8.
Proof. intro bits. split; [exact (buffer_clear_zeros bits)|exact (buffer_clear_length bits)]. Qed.
Print Assumptions C13_fresh_stream.

(* bitWidth() is the exact bit length for every 32-bit argument ... *)
Theorem C13_bitWidth_exact : forall v, v < 2 ^ 32 ->
  v < 2 ^ bitWidth v /\ (bitWidth v = 0 \/ 2 ^ (bitWidth v - 1) <= v).
Proof. exact bitWidth_spec. Qed.
Print Assumptions C13_bitWidth_exact.

(* ... so the width derived for a state count suffices to encode every state index of that count. *)
Theorem C13_width_suffices : forall n k, 1 <= n <= 255 -> k < n -> k < 2 ^ bitWidth n.
Proof. exact width_suffices. Qed.
Print Assumptions C13_width_suffices.

(* The tie to the source, by proof: Generated/LeafCode.v is the body of bitWidth() as clang's typed AST of /repo's current
   utility.hpp gives it (tools/leafcode.py, regenerated on every run); run in the interpreter of Model/Cxx.v (C++ integer
   semantics: promotions, wrap-around, undefined shifts) it returns the model's bitWidth for every 32-bit argument. *)
Theorem C13_source_bitWidth_is_the_model : forall v : Z, (0 <= v < 2 ^ 32)%Z ->
  call1 leaf_ftable bitWidth_fn v = Some (Z.of_N (bitWidth (Z.to_N v))).
Proof. exact src_bitWidth. Qed.
Print Assumptions C13_source_bitWidth_is_the_model.

(* The same for BitWriteStreamT<>::write<W>() with W <= 8 (item type uint8_t), W symbolic: for every width, item, cursor and buffer
   contents that fit, running the translated body - the loop included - never faults (no out-of-range index, no undefined shift
   or signed overflow) and leaves exactly the model's buffer and cursor. *)
Theorem C13_source_write_is_the_model : forall W item c buf,
  1 <= W <= 8 -> item < 256 -> c < 256 -> Forall (fun x => x < 256) buf ->
  c + W <= 8 * N.of_nat (length buf) -> (length buf <= 32)%nat ->
  result (run leaf_ftable (width_const W) BitWriteStreamT_100__write_5 [Z.of_N item] (cursor_fld c) (stream_obj buf))
  = let '(buf', c') := write buf c W item in Some (None, cursor_fld c', stream_obj buf').
Proof. exact src_write8. Qed.
Print Assumptions C13_source_write_is_the_model.

(* ... and for BitReadStreamT<>::read<W>(), W <= 8: the translated body returns the model's value and cursor and leaves the buffer alone. *)
Theorem C13_source_read_is_the_model : forall W c buf,
  1 <= W <= 8 -> c < 256 -> Forall (fun x => x < 256) buf ->
  c + W <= 8 * N.of_nat (length buf) -> (length buf <= 32)%nat ->
  result (run leaf_ftable (width_const W) BitReadStreamT_100__read_5 [] (cursor_fld c) (stream_obj buf))
  = let '(v, c') := read buf c W in Some (Some (Z.of_N v), cursor_fld c', stream_obj buf).
Proof. exact src_read8. Qed.
Print Assumptions C13_source_read_is_the_model.

(* The wider item types: W <= 16 (uint16_t) and W <= 32 (uint32_t; shifted at unsigned int, where the shift may wrap). *)
Theorem C13_source_write16_is_the_model : forall W item c buf,
  1 <= W <= 16 -> item < 65536 -> c < 256 -> Forall (fun x => x < 256) buf ->
  c + W <= 8 * N.of_nat (length buf) -> (length buf <= 32)%nat ->
  result (run leaf_ftable (width_const W) BitWriteStreamT_100__write_12 [Z.of_N item] (cursor_fld c) (stream_obj buf))
  = let '(buf', c') := write buf c W item in Some (None, cursor_fld c', stream_obj buf').
Proof. exact src_write16. Qed.
Print Assumptions C13_source_write16_is_the_model.
Theorem C13_source_write32_is_the_model : forall W item c buf,
  1 <= W <= 32 -> item < 4294967296 -> c < 256 -> Forall (fun x => x < 256) buf ->
  c + W <= 8 * N.of_nat (length buf) -> (length buf <= 32)%nat ->
  result (run leaf_ftable (width_const W) BitWriteStreamT_100__write_20 [Z.of_N item] (cursor_fld c) (stream_obj buf))
  = let '(buf', c') := write buf c W item in Some (None, cursor_fld c', stream_obj buf').
Proof. exact src_write32. Qed.
Print Assumptions C13_source_write32_is_the_model.
Theorem C13_source_read16_is_the_model : forall W c buf,
  1 <= W <= 16 -> c < 256 -> Forall (fun x => x < 256) buf ->
  c + W <= 8 * N.of_nat (length buf) -> (length buf <= 32)%nat ->
  result (run leaf_ftable (width_const W) BitReadStreamT_100__read_12 [] (cursor_fld c) (stream_obj buf))
  = let '(v, c') := read buf c W in Some (Some (Z.of_N v), cursor_fld c', stream_obj buf).
Proof. exact src_read16. Qed.
Print Assumptions C13_source_read16_is_the_model.
Theorem C13_source_read32_is_the_model : forall W c buf,
  1 <= W <= 32 -> c < 256 -> Forall (fun x => x < 256) buf ->
  c + W <= 8 * N.of_nat (length buf) -> (length buf <= 32)%nat ->
  result (run leaf_ftable (width_const W) BitReadStreamT_100__read_20 [] (cursor_fld c) (stream_obj buf))
  = let '(v, c') := read buf c W in Some (Some (Z.of_N v), cursor_fld c', stream_obj buf).
Proof. exact src_read32. Qed.
Print Assumptions C13_source_read32_is_the_model.

(* End to end through the translated code only: any sequence of fields (widths 1..32, each call dispatched to the item type UBitWidth<W> selects) that fits
   a stream of 1..255 bits, written by running the translated write<W> bodies one after the other into a cleared buffer and read back by running the
   translated read<W> bodies, returns the values written; the cursor ends at the sum of the widths.  No run faults. *)
Theorem C13_source_sequence_roundtrip : forall fs bits,
  fields_ok fs -> 1 <= bits <= 255 -> total_width fs <= bits ->
  exists buf', src_write_fields (0, buffer_clear bits) fs = Some (total_width fs, buf') /\
               src_read_fields 0 buf' (map fst fs) = Some (map snd fs, total_width fs).
Proof. exact src_fields_roundtrip. Qed.
Print Assumptions C13_source_sequence_roundtrip.

(* StreamBufferT<N>: the buffer has ceil(N / 8) bytes, and its comparison operators are byte-wise equality over all of them. *)
Theorem C13_source_buffer_size_is_the_model : forall bits : Z, (1 <= bits <= 255)%Z ->
  build_consts leaf_ftable StreamBufferT_100_consts (nbitcapacity bits) = Some (sb_consts bits).
Proof. exact src_StreamBuffer_consts. Qed.
Print Assumptions C13_source_buffer_size_is_the_model.
Theorem C13_source_buffer_equality : forall (bits : Z) b o, (1 <= bits <= 255)%Z -> Forall (fun x => x < 256) b -> Forall (fun x => x < 256) o ->
  Z.of_nat (length b) = ((bits + 7) / 8)%Z -> length o = length b ->
  result (run leaf_ftable (sb_consts bits) StreamBufferT_100__op_eq [] [] (sb_obj b o)) = Some (Some (b2z (bytes_eqb b o)), [], sb_obj b o) /\
  result (run leaf_ftable (sb_consts bits) StreamBufferT_100__op_ne [] [] (sb_obj b o)) = Some (Some (b2z (negb (bytes_eqb b o))), [], sb_obj b o) /\
  (bytes_eqb b o = true <-> b = o).
Proof. intros bits b o H1 H2 H3 H4 H5. split; [exact (src_StreamBuffer_eq bits b o H1 H2 H3 H4 H5)|split; [exact (src_StreamBuffer_ne bits b o H1 H2 H3 H4 H5)|exact (bytes_eqb_spec b o (eq_sym H5))]]. Qed.
Print Assumptions C13_source_buffer_equality.

(* the hypotheses are satisfiable and the statement is not vacuous: a 3-bit field at offset 5 of a 2-byte buffer *)
Example C13_nonvacuous :
  let '(b, c) := write (buffer_clear 16) 0 5 21 in
  let '(b', c') := write b c 3 5 in
  read b' 5 3 = (5, 8) /\ b' = [181; 0].
Proof. vm_compute. split; reflexivity. Qed.
