(* C14 — State ids follow declaration order and dispatch reaches exactly that state. Theorems only. *)
From Coq Require Import List Arith.
From FFSM2 Require Import Model.Dispatch Proofs.DispatchProofs.
Import ListNotations.

(* For every list of states (any length) and every k below its length: dispatching prong k through the
   halving recursion runs the k-th declared state, and that state carries STATE_ID = k. *)
Theorem C14_dispatch_reaches_kth : forall (T : Type) (d : T) (l : list T) k, k < length l ->
  dispatch T (length l) 0 0 l k = Some (k, nth k l d).
Proof. exact dispatch_root. Qed.
Print Assumptions C14_dispatch_reaches_kth.

(* independently of how the list is split: the two halves are the first and the remaining elements, in order *)
Theorem C14_halves : forall (T : Type) (l : list T),
  lower T (length l / 2) 0 l = firstn (length l / 2) l /\ upper T (length l / 2) 0 l = skipn (length l / 2) l /\
  lower T (length l / 2) 0 l ++ upper T (length l / 2) 0 l = l.
Proof.
  intros T l. split; [|split].
  - rewrite lower_firstn, Nat.sub_0_r. reflexivity.
  - rewrite upper_skipn, Nat.sub_0_r. reflexivity.
  - exact (halves_partition T l).
Qed.
Print Assumptions C14_halves.

(* stateId<T>() is the zero-based position of T in the declaration (states are distinct types);
   a type that is not a state of the machine (the root head) has the invalid id *)
Theorem C14_state_id_is_position : forall (T : Type) (d : T) (eqb : T -> T -> bool),
  (forall x y, eqb x y = true <-> x = y) ->
  forall l k, NoDup l -> k < length l -> state_id T eqb l (nth k l d) = k.
Proof. exact state_id_spec. Qed.
Print Assumptions C14_state_id_is_position.
Theorem C14_head_has_invalid_id : forall (T : Type) (eqb : T -> T -> bool),
  (forall x y, eqb x y = true <-> x = y) ->
  forall l x, ~ In x l -> state_id T eqb l x = 255.
Proof. intros T eqb H l x Hn. unfold state_id. apply (find_impl_absent T eqb H). exact Hn. Qed.
Print Assumptions C14_head_has_invalid_id.

Example C14_nonvacuous : dispatch nat 9 0 0 (seq 0 9) 6 = Some (6, 6) /\ dispatch nat 200 0 0 (seq 0 200) 127 = Some (127, 127).
Proof. split; vm_compute; reflexivity. Qed.
