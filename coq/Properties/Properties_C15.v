(* C15 — Injected base behaviours wrap the state's own callbacks in LIFO order. Theorems only. *)
From Coq Require Import List Arith.
From FFSM2 Require Import Model.Ancestors Proofs.AncestorsProofs.
Import ListNotations.

(* for every number of injections k: I1..Ik then the state, for the seven set-up side callbacks *)
Theorem C15_pre_order : forall m k, pre_side m -> deep_order m k = injs 0 k ++ [Own].
Proof. exact deep_order_pre. Qed.
Print Assumptions C15_pre_order.
(* and the exact reverse, state first then Ik..I1, for exit, postUpdate, postReact *)
Theorem C15_post_order : forall m k, post_side m -> deep_order m k = rev (injs 0 k ++ [Own]).
Proof. exact deep_order_post. Qed.
Print Assumptions C15_post_order.
(* every injection's callback and the state's own callback exactly once, for all twelve lifecycle events *)
Theorem C15_exactly_once : forall m k, m <> MPlanSucceeded -> m <> MPlanFailed ->
  NoDup (deep_order m k) /\ (forall r, In r (deep_order m k) <-> r = Own \/ exists i, i < k /\ r = Inj i).
Proof. exact deep_exactly_once. Qed.
Print Assumptions C15_exactly_once.
(* the two orders the property leaves open, as the code has them *)
Theorem C15_exit_guard_and_query : forall k,
  deep_order MExitGuard k = rev (injs 0 k) ++ [Own] /\ deep_order MQuery k = Own :: injs 0 k.
Proof. intro k. split; [exact (deep_order_exit_guard k)|exact (deep_order_query k)]. Qed.
Print Assumptions C15_exit_guard_and_query.

Example C15_nonvacuous : deep_order MEnter 3 = [Inj 0; Inj 1; Inj 2; Own] /\ deep_order MExit 3 = [Own; Inj 2; Inj 1; Inj 0].
Proof. split; reflexivity. Qed.
