(* C16 - Logging is faithful and does not perturb the machine. Theorems only. strip s = s with the logger detached and
   the logger's records erased from the trace; log_blind orc orc' = the callbacks orc' under logging behave as orc on
   the trace without logger records (callbacks cannot see the logger's records). *)
From Coq Require Import List Arith Bool NArith.
From FFSM2 Require Import Model.TaskList Model.BitArray Model.BitStream Model.Plan Model.Ancestors Model.Machine
  Proofs.BitArrayProofs Proofs.TaskListProofs Proofs.TaskListRun Proofs.PlanProofs Proofs.MachineFrame Proofs.MachinePlan Proofs.MachineLife Proofs.GuardProofs Proofs.CycleProofs Proofs.PlanStep
  Proofs.SerialProofs Proofs.LogProofs Proofs.MachineTop Model.Multi Generated.InitFacts Proofs.ConstructProofs Proofs.LifeMonitor Proofs.ActivationRounds Proofs.IndexSafety Proofs.FeatureProofs Model.Script Proofs.Contract Proofs.Histories Proofs.StatusBits Proofs.Worlds Model.Cxx Generated.LeafCode Proofs.LeafTactics Proofs.LeafConsts Proofs.LeafCodeTaskList Proofs.LeafCodeStream Proofs.LeafCodeWide.
Import ListNotations.

(* for every history: running with a logger attached at any point(s) and then forgetting the records equals running
   without any logger: same callbacks, same order, same actions and results, same final core *)
Theorem C16_log_transparent :
  forall (P : Type) (cfg : config) (orc orc' : oracle P),
         log_blind P orc orc' ->
         forall (ops : list (api_op P)) (s : mstate P),
         strip P (run_from P cfg orc' s ops) = run_from P cfg orc (strip P s) (map (detach_op P) ops).
Proof. exact (log_transparent). Qed.
Print Assumptions C16_log_transparent.

(* the same across compile-time log modes (off / on / verbose) *)
Theorem C16_log_mode_irrelevant :
  forall (P : Type) (cfg : config) (lm : logmode) (orc orc' : oracle P),
         log_blind P orc orc' ->
         forall (ops : list (api_op P)) (s : mstate P),
         strip P (run_from P cfg orc' s ops) =
         run_from P (with_log cfg lm) orc (strip P s) (map (detach_op P) ops).
Proof. exact (log_transparent_gen). Qed.
Print Assumptions C16_log_mode_irrelevant.

Theorem C16_from_construction :
  forall (P : Type) (cfg : config) (orc orc' : oracle P),
         log_blind P orc orc' ->
         forall (lg : bool) (ops : list (api_op P)),
         strip P (Machine.run P cfg orc' lg ops) = Machine.run P cfg orc false (map (detach_op P) ops).
Proof. exact (run_log_transparent). Qed.
Print Assumptions C16_from_construction.

Theorem C16_cores_agree :
  forall (P : Type) (cfg : config) (orc orc' : oracle P),
         log_blind P orc orc' ->
         forall (lg : bool) (ops : list (api_op P)),
         let l := co P (Machine.run P cfg orc' lg ops) in
         let r := co P (Machine.run P cfg orc false (map (detach_op P) ops)) in
         active P l = active P r /\
         requested P l = requested P r /\
         request P l = request P r /\ previous P l = previous P r /\ plan P l = plan P r.
Proof. exact (run_log_transparent_core). Qed.
Print Assumptions C16_cores_agree.

Theorem C16_trace_without_records :
  forall (P : Type) (cfg : config) (orc orc' : oracle P),
         log_blind P orc orc' ->
         forall (lg : bool) (ops : list (api_op P)),
         erase P (tr P (Machine.run P cfg orc' lg ops)) =
         tr P (Machine.run P cfg orc false (map (detach_op P) ops)).
Proof. exact (run_log_transparent_trace). Qed.
Print Assumptions C16_trace_without_records.

Theorem C16_one_step :
  forall (P : Type) (cfg : config) (orc orc' : oracle P),
         log_blind P orc orc' ->
         forall (s : mstate P) (op : api_op P),
         strip P (fst (step P cfg orc' s op)) = fst (step P cfg orc (strip P s) (detach_op P op)) /\
         snd (step P cfg orc' s op) = snd (step P cfg orc (strip P s) (detach_op P op)).
Proof. exact (step_log_transparent). Qed.
Print Assumptions C16_one_step.

(* faithfulness: with a logger attached, a delivery whose method is logged appends its method record first, before any
   user code of that delivery runs, and nothing but callbacks of that very (state, method) follow in the delivery *)
Theorem C16_method_record_first :
  forall (P : Type) (cfg : config) (orc : oracle P) (w : who) (m : Ancestors.method) 
           (s : mstate P) (k : ctl P),
         logging P cfg s = true ->
         logs cfg w m = true ->
         exists new : list (event P),
           tr P (fst (deliver P cfg orc w m (s, k))) = new ++ EvLog P (LMethod (id_of w) m) :: tr P s /\
           Forall (under P w m) new.
Proof. exact (deliver_log_adjacent). Qed.
Print Assumptions C16_method_record_first.

Theorem C16_no_record_otherwise :
  forall (P : Type) (cfg : config) (orc : oracle P) (w : who) (m : Ancestors.method) 
           (s : mstate P) (k : ctl P),
         logging P cfg s && logs cfg w m = false ->
         exists new : list (event P),
           tr P (fst (deliver P cfg orc w m (s, k))) = new ++ tr P s /\ Forall (under P w m) new.
Proof. exact (deliver_log_silent). Qed.
Print Assumptions C16_no_record_otherwise.

(* each permitted changeTo/changeWith emits exactly one transition record (caller, destination), each cancellation one
   cancellation record, each succeed/fail one task-status record; refused and other actions emit nothing *)
Theorem C16_action_records :
  forall (P : Type) (cfg : config) (origin : nat) (a : action P) (s : mstate P) (k : ctl P),
         tr P (fst (fst (perform P cfg origin a (s, k)))) =
         map (EvLog P) (if logging P cfg s then perform_records P cfg origin a (k_kind P k) else []) ++ tr P s.
Proof. exact (perform_log). Qed.
Print Assumptions C16_action_records.

Theorem C16_refused_is_silent :
  forall (P : Type) (cfg : config) (origin : nat) (a : action P) (s : mstate P) (k : ctl P),
         snd (perform P cfg origin a (s, k)) = RIgnored P ->
         tr P (fst (fst (perform P cfg origin a (s, k)))) = tr P s.
Proof. exact (perform_ignored_silent). Qed.
Print Assumptions C16_refused_is_silent.

