(* C17 - Behaviour depends only on history; copies are equivalent. Theorems only. The model's run is a Coq function of
   (configuration, callbacks, API history), so determinism is by construction; what can break it in C++ is a member
   without initialiser or a member the hand-written copy constructor forgets. Generated/InitFacts.v lists exactly
   those, read off clang's AST of /repo's working tree on this run; core_over builds each field from its initialiser if
   it has one and from arbitrary prior memory contents g otherwise; copy_over copies a member if the constructor names
   it and default-initialises it otherwise. *)
From Coq Require Import List Arith Bool NArith.
From FFSM2 Require Import Model.TaskList Model.BitArray Model.BitStream Model.Plan Model.Ancestors Model.Machine
  Proofs.BitArrayProofs Proofs.TaskListProofs Proofs.TaskListRun Proofs.PlanProofs Proofs.MachineFrame Proofs.MachinePlan Proofs.MachineLife Proofs.GuardProofs Proofs.CycleProofs Proofs.PlanStep
  Proofs.SerialProofs Proofs.LogProofs Proofs.MachineTop Model.Multi Generated.InitFacts Proofs.ConstructProofs Proofs.LifeMonitor Proofs.ActivationRounds Proofs.IndexSafety Proofs.FeatureProofs Model.Script Proofs.Contract Proofs.Histories Proofs.StatusBits Proofs.Worlds Model.Cxx Generated.LeafCode Proofs.LeafTactics Proofs.LeafConsts Proofs.LeafCodeTaskList Proofs.LeafCodeStream Proofs.LeafCodeWide.
Import ListNotations.

(* a freshly constructed core is core_init whatever the storage held before *)
Theorem C17_construct_ignores_garbage :
  forall (P : Type) (cfg : config) (lg : bool) (g : core P), core_over P cfg lg g = core_init P cfg lg.
Proof. exact (construct_ignores_garbage). Qed.
Print Assumptions C17_construct_ignores_garbage.

Theorem C17_construct_same_for_any_memory :
  forall (P : Type) (cfg : config) (lg : bool) (g1 g2 : core P),
         core_over P cfg lg g1 = core_over P cfg lg g2.
Proof. exact (construct_same_for_any_memory). Qed.
Print Assumptions C17_construct_same_for_any_memory.

(* a copy-constructed core equals the original (active state, request, previous transition, plan, logger) *)
Theorem C17_copy_ctor_is_identity :
  forall (P : Type) (cfg : config) (c : core P), copy_over P cfg copied c = c.
Proof. exact (copy_ctor_is_identity). Qed.
Print Assumptions C17_copy_ctor_is_identity.

Theorem C17_move_ctor_is_identity :
  forall (P : Type) (cfg : config) (c : core P), copy_over P cfg moved c = c.
Proof. exact (move_ctor_is_identity). Qed.
Print Assumptions C17_move_ctor_is_identity.

Theorem C17_model_copy_is_the_copy_ctor :
  forall (P : Type) (cfg : config) (c : core P), copy_core P c = copy_over P cfg copied c.
Proof. exact (copy_core_is_copy_ctor). Qed.
Print Assumptions C17_model_copy_is_the_copy_ctor.

(* thereafter the copy responds to the same inputs with the same results *)
Theorem C17_copy_behaves_like_original :
  forall (P : Type) (cfg : config) (orc : oracle P) (c : core P) (ops : list (api_op P)),
         co P (run_from P cfg orc {| co := copy_core P c; tr := [] |} ops) =
         co P (run_from P cfg orc {| co := c; tr := [] |} ops).
Proof. exact (copy_behaves_like_original). Qed.
Print Assumptions C17_copy_behaves_like_original.

(* operations on one instance leave every other instance untouched *)
Theorem C17_instances_independent :
  forall (P : Type) (cfg : config) (orc_of : nat -> oracle P) (w : world P) (op : wop P) (j : nat),
         addressed P op <> j -> get_inst P (wstep P cfg orc_of w op) j = get_inst P w j.
Proof. exact (instances_independent). Qed.
Print Assumptions C17_instances_independent.

(* in every in-contract multi-instance history every live instance - original, copy, copy of a copy, instance loaded
   from another - satisfies the machine invariant *)
Theorem C17_copies_and_loaded_instances_keep_the_invariant :
  forall (P : Type) (cfg : config) (orc_of : nat -> oracle P),
         wf_cfg cfg ->
         (forall i : nat, wf_oracle P cfg (orc_of i)) ->
         forall (slots : nat) (ops : list (wop P)),
         first_violation P cfg orc_of 0 {| insts := repeat None slots; glog := [] |} ops = None ->
         WInv P cfg (wrun P cfg orc_of slots ops).
Proof. exact (wrun_inv). Qed.
Print Assumptions C17_copies_and_loaded_instances_keep_the_invariant.

Theorem C17_one_operation_on_the_world :
  forall (P : Type) (cfg : config) (orc_of : nat -> oracle P),
         wf_cfg cfg ->
         (forall i : nat, wf_oracle P cfg (orc_of i)) ->
         forall (w : world P) (op : wop P),
         WInv P cfg w -> wop_okb P cfg w op = true -> WInv P cfg (wstep P cfg orc_of w op).
Proof. exact (wstep_inv). Qed.
Print Assumptions C17_one_operation_on_the_world.

(* copy construction at any point of any accepted multi-instance script: the new instance's core is the original's (so
   active state, isActive table, outstanding request, previous transition, plan and serialized form are equal:
   observe), no callback ran on it, and the original is untouched *)
Theorem C17_every_copy_equals_its_original :
  forall (P : Type) (cfg : config) (orc_of : nat -> oracle P),
         wf_cfg cfg ->
         (forall i : nat, wf_oracle P cfg (orc_of i)) ->
         forall (slots : nat) (pre : list (wop P)) (i j : nat) (post : list (wop P)),
         first_violation P cfg orc_of 0 {| insts := repeat None slots; glog := [] |}
           (pre ++ WCopy P i j :: post) = None ->
         i < slots ->
         exists sj sc : mstate P,
           get_inst P (wrun P cfg orc_of slots pre) j = Some sj /\
           get_inst P (wrun P cfg orc_of slots (pre ++ [WCopy P i j])) i = Some sc /\
           co P sc = co P sj /\
           tr P sc = [] /\
           observe P cfg (co P sc) = observe P cfg (co P sj) /\
           get_inst P (wrun P cfg orc_of slots (pre ++ [WCopy P i j])) j = Some sj.
Proof. exact (every_copy_equals_its_original). Qed.
Print Assumptions C17_every_copy_equals_its_original.

(* a default-constructed serial buffer is the all-zero image whatever the memory held (its byte array has an
   initialiser in the source read on this run) *)
Theorem C17_fresh_serial_buffer_ignores_garbage :
  forall (cfg : config) (g : bytes), buffer_over cfg g = buffer_clear (serial_bits cfg).
Proof. exact (fresh_buffer_ignores_garbage). Qed.
Print Assumptions C17_fresh_serial_buffer_ignores_garbage.

(* catch-all over the facts regenerated on this run: no scalar member of any record a machine is made of lacks an
   initialiser *)
Theorem C17_every_member_is_initialised :
  uninitialised_fields = [].
Proof. exact (every_member_is_initialised). Qed.
Print Assumptions C17_every_member_is_initialised.

