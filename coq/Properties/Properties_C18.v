(* C18 - No out-of-bounds access: the Coq part. The model reads with nth-with-default and writes with update functions
   that ignore an out-of-range index; every container operation has a checked twin in an option monad that fails on the
   first out-of-range index, is proved to compute the same result (erasure), and is proved to succeed under the
   container's invariant and the operation's precondition - so on in-contract histories every index the code computes
   is in range. Misalignment, indeterminate reads and allocation live in the C++ abstract machine and are decided by
   instrumented runs, not here. *)
From Coq Require Import List Arith Bool NArith.
From FFSM2 Require Import Model.TaskList Model.BitArray Model.BitStream Model.Plan Model.Ancestors Model.Machine
  Proofs.BitArrayProofs Proofs.TaskListProofs Proofs.TaskListRun Proofs.PlanProofs Proofs.MachineFrame Proofs.MachinePlan Proofs.MachineLife Proofs.GuardProofs Proofs.CycleProofs Proofs.PlanStep
  Proofs.SerialProofs Proofs.LogProofs Proofs.MachineTop Model.Multi Generated.InitFacts Proofs.ConstructProofs Proofs.LifeMonitor Proofs.ActivationRounds Proofs.IndexSafety Proofs.FeatureProofs Model.Script Proofs.Contract Proofs.Histories Proofs.StatusBits Proofs.Worlds Model.Cxx Generated.LeafCode Proofs.LeafTactics Proofs.LeafConsts Proofs.LeafCodeTaskList Proofs.LeafCodeStream Proofs.LeafCodeWide Proofs.LeafCodePlan Proofs.LeafCodePlanRemove Proofs.LeafCodePlanAppend Proofs.LeafCodePlanChange Proofs.LeafCodePlanInv.
Import ListNotations.

Theorem C18_tasklist_emplace :
  forall (P : Type) (cap : nat) (t : tl P) (vac : list nat) (occ : list (nat * slot P)) 
           (o d : nat) (p : option P),
         FL P cap t vac occ -> emplace_c P cap t o d p = Some (emplace P cap t o d p).
Proof. exact (emplace_c_safe). Qed.
Print Assumptions C18_tasklist_emplace.

Theorem C18_tasklist_remove :
  forall (P : Type) (cap : nat) (t : tl P) (vac : list nat) (occ : list (nat * slot P)) (i : nat),
         FL P cap t vac occ -> In i (map fst occ) -> remove_c P cap t i = Some (remove P cap t i).
Proof. exact (remove_c_safe). Qed.
Print Assumptions C18_tasklist_remove.

Theorem C18_plan_append :
  forall (P : Type) (cap : nat) (d : plan_data P) (order : list nat) (o dst : nat),
         PlanInv P cap d order -> plan_append_c P cap d o dst = Some (plan_append P cap d o dst).
Proof. exact (plan_append_c_safe). Qed.
Print Assumptions C18_plan_append.

Theorem C18_plan_append_with :
  forall (P : Type) (cap : nat) (d : plan_data P) (order : list nat) (o dst : nat) (p : P),
         PlanInv P cap d order -> plan_append_with_c P cap d o dst p = Some (plan_append_with P cap d o dst p).
Proof. exact (plan_append_with_c_safe). Qed.
Print Assumptions C18_plan_append_with.

Theorem C18_plan_remove :
  forall (P : Type) (cap : nat) (d : plan_data P) (order : list nat) (idx : nat),
         PlanInv P cap d order -> In idx order -> plan_remove_c P cap d idx = Some (plan_remove P cap d idx).
Proof. exact (plan_remove_c_safe). Qed.
Print Assumptions C18_plan_remove.

Theorem C18_plan_clear :
  forall (P : Type) (cap n : nat) (d : plan_data P) (order : list nat),
         PlanInv P cap d order ->
         (1 <= N.of_nat n)%N ->
         wf (N.of_nat n) (pd_succ d) ->
         wf (N.of_nat n) (pd_fail d) -> plan_clear_c P cap n d = Some (plan_clear P cap n d).
Proof. exact (plan_clear_c_safe). Qed.
Print Assumptions C18_plan_clear.

Theorem C18_plan_iterate :
  forall (P : Type) (cap : nat) (d : plan_data P) (order : list nat),
         PlanInv P cap d order -> plan_tasks_c P cap d = Some (plan_tasks P cap d).
Proof. exact (plan_tasks_c_safe). Qed.
Print Assumptions C18_plan_iterate.

Theorem C18_plan_remove_while_iterating :
  forall (P : Type) (cap : nat) (d : plan_data P) (order : list nat) (k : nat),
         PlanInv P cap d order -> plan_remove_at_c P cap d k = Some (plan_remove_at P cap d k).
Proof. exact (plan_remove_at_c_safe). Qed.
Print Assumptions C18_plan_remove_while_iterating.

(* first()/last() are in range on a non-empty plan (on an empty one they would read slot 255: an asserted precondition) *)
Theorem C18_plan_first_last :
  forall (P : Type) (cap : nat) (d : plan_data P) (order : list nat),
         PlanInv P cap d order ->
         order <> [] -> plan_first_c P d = Some (plan_first P d) /\ plan_last_c P d = Some (plan_last P d).
Proof. exact (plan_first_last_c_safe). Qed.
Print Assumptions C18_plan_first_last.

Theorem C18_bitarray_get :
  forall cap : N,
         (1 <= cap)%N -> forall (b : ba) (i : N), wf cap b -> (i < cap)%N -> ba_get_c b i = Some (ba_get b i).
Proof. exact (ba_get_c_safe). Qed.
Print Assumptions C18_bitarray_get.

Theorem C18_bitarray_set :
  forall cap : N,
         (1 <= cap)%N -> forall (b : ba) (i : N), wf cap b -> (i < cap)%N -> ba_set_c b i = Some (ba_set b i).
Proof. exact (ba_set_c_safe). Qed.
Print Assumptions C18_bitarray_set.

Theorem C18_bitarray_clear :
  forall cap : N,
         (1 <= cap)%N ->
         forall (b : ba) (i : N), wf cap b -> (i < cap)%N -> ba_clear_c b i = Some (ba_clear b i).
Proof. exact (ba_clear_c_safe). Qed.
Print Assumptions C18_bitarray_clear.

Theorem C18_bitarray_set_all :
  forall cap : N,
         (1 <= cap)%N -> forall b : ba, wf cap b -> ba_set_all_c cap b = Some (ba_set_all cap b).
Proof. exact (ba_set_all_c_safe). Qed.
Print Assumptions C18_bitarray_set_all.

Theorem C18_stream_write :
  forall (buf : list N) (c w item : N),
         (c + w <= 8 * N.of_nat (length buf))%N -> write_c buf c w item = Some (write buf c w item).
Proof. exact (write_c_safe). Qed.
Print Assumptions C18_stream_write.

Theorem C18_stream_read :
  forall (buf : list N) (c w : N),
         (c + w <= 8 * N.of_nat (length buf))%N -> read_c buf c w = Some (read buf c w).
Proof. exact (read_c_safe). Qed.
Print Assumptions C18_stream_read.

Theorem C18_stream_cursor_no_wrap :
  forall (buf : bytes) (c w item : N),
         (c + w < 256)%N -> snd (write buf c w item) = (c + w)%N /\ snd (read buf c w) = (c + w)%N.
Proof. exact (cursor_no_wrap). Qed.
Print Assumptions C18_stream_cursor_no_wrap.

Theorem C18_static_array_get :
  forall (T : Type) (dflt : T) (cap : nat) (a : Arrays.sa T) (i : nat),
         length a = cap -> i < cap -> sa_get_c T a i = Some (Arrays.sa_get T dflt a i).
Proof. exact (sa_get_c_safe). Qed.
Print Assumptions C18_static_array_get.

Theorem C18_static_array_set :
  forall (T : Type) (cap : nat) (a : Arrays.sa T) (i : nat) (v : T),
         length a = cap -> i < cap -> sa_set_c T a i v = Some (Arrays.sa_set T a i v).
Proof. exact (sa_set_c_safe). Qed.
Print Assumptions C18_static_array_set.

Theorem C18_dynamic_array_emplace :
  forall (T : Type) (cap : nat) (a : Arrays.da T) (v : T),
         ArraysProofs.da_inv T cap a ->
         Arrays.da_count T a < cap -> da_emplace_c T a v = Some (Arrays.da_emplace T a v).
Proof. exact (da_emplace_c_safe). Qed.
Print Assumptions C18_dynamic_array_emplace.

Theorem C18_dynamic_array_iterate :
  forall (T : Type) (dflt : T) (cap : nat) (a : Arrays.da T),
         ArraysProofs.da_inv T cap a -> cap <= 255 -> da_to_list_c T a = Some (Arrays.da_to_list T dflt a).
Proof. exact (da_to_list_c_safe). Qed.
Print Assumptions C18_dynamic_array_iterate.

Theorem C18_status_bits_of_actions :
  forall (P : Type) (cfg : config) (origin : nat) (a : action P) (s : mstate P) (k : ctl P) (sid : nat),
         wf_action P cfg a ->
         origin < c_n cfg \/ origin = INVALID ->
         status_sid P origin a = Some sid ->
         1 <= c_n cfg ->
         perform P cfg origin a (s, k) = (s, k, RIgnored P) \/
         (forall b : ba,
          wf (N.of_nat (c_n cfg)) b -> ba_set_c b (N.of_nat sid) = Some (ba_set b (N.of_nat sid))).
Proof. exact (perform_status_bits_safe). Qed.
Print Assumptions C18_status_bits_of_actions.

Theorem C18_plan_task_ids_in_range :
  forall (P : Type) (cfg : config) (d : plan_data P) (i : nat),
         PIc P cfg d ->
         In i (plan_indices P (c_cap cfg) d) ->
         i < c_cap cfg /\ tk_origin (task_at P d i) < c_n cfg /\ tk_dest (task_at P d i) < c_n cfg.
Proof. exact (plan_task_ids). Qed.
Print Assumptions C18_plan_task_ids_in_range.

(* the checked twin computes what the model computes *)
Theorem C18_erasure_example_emplace :
  forall (P : Type) (cap : nat) (t : tl P) (o d : nat) (p : option P) (r : tl P * nat),
         emplace_c P cap t o d p = Some r -> r = emplace P cap t o d p.
Proof. exact (emplace_c_erase). Qed.
Print Assumptions C18_erasure_example_emplace.

Theorem C18_erasure_example_plan_remove :
  forall (P : Type) (cap : nat) (d : plan_data P) (idx : nat) (r : plan_data P),
         plan_remove_c P cap d idx = Some r -> r = plan_remove P cap d idx.
Proof. exact (plan_remove_c_erase). Qed.
Print Assumptions C18_erasure_example_plan_remove.

(* over whole histories: in every state any in-contract history reaches, tasksSuccesses and tasksFailures hold exactly
   ceil(n/8) bytes (PIw, closed under every operation of the machine: PIw_ok) *)
Theorem C18_report_bits_well_formed_in_every_reachable_state :
  forall (P : Type) (cfg : config) (orc : oracle P),
         wf_cfg cfg ->
         wf_oracle P cfg orc ->
         forall (lg : bool) (ops : list (api_op P)),
         ops_ok P cfg orc (construct P cfg orc lg) ops ->
         let d := plan P (co P (Machine.run P cfg orc lg ops)) in
         PIc P cfg d /\ wf (N.of_nat (c_n cfg)) (pd_succ d) /\ wf (N.of_nat (c_n cfg)) (pd_fail d).
Proof. exact (reachable_status_bits). Qed.
Print Assumptions C18_report_bits_well_formed_in_every_reachable_state.

(* ... so every succeed/fail/clear/plan-step access with a state id below n is inside both arrays *)
Theorem C18_report_bit_indices_in_range :
  forall (P : Type) (cfg : config) (orc : oracle P),
         wf_cfg cfg ->
         wf_oracle P cfg orc ->
         forall (lg : bool) (ops : list (api_op P)) (sid : nat),
         ops_ok P cfg orc (construct P cfg orc lg) ops ->
         sid < c_n cfg ->
         let d := plan P (co P (Machine.run P cfg orc lg ops)) in
         N.to_nat (N.of_nat sid / 8) < length (pd_succ d) /\ N.to_nat (N.of_nat sid / 8) < length (pd_fail d).
Proof. exact (reachable_status_bits_in_range). Qed.
Print Assumptions C18_report_bit_indices_in_range.

Theorem C18_invariant_with_report_bits_is_closed :
  forall (P : Type) (cfg : config),
         (1 <= N.of_nat (c_n cfg))%N -> 1 <= c_cap cfg <= 255 -> plan_inv_ok P cfg (PIw P cfg).
Proof. exact (PIw_ok). Qed.
Print Assumptions C18_invariant_with_report_bits_is_closed.

(* index safety of the code itself (DESIGN.md 4.7): the interpreter of Model/Cxx.v returns a fault for an element
   access outside its array, a shift by a negative amount or by at least the width, a signed result outside its type
   and a division by zero; this theorem says the body of BitWriteStreamT<>::write<W>(), W <= 8, as translated from
   clang's typed AST of /repo's current source on every run, returns a result - no fault - for every argument the
   library's own assertions admit (and computes the model's function) *)
Theorem C18_source_write_never_faults :
  forall (W item c : N) (buf : list N),
         (1 <= W <= 8)%N ->
         (item < 256)%N ->
         (c < 256)%N ->
         Forall (fun x : N => (x < 256)%N) buf ->
         (c + W <= 8 * N.of_nat (length buf))%N ->
         length buf <= 32 ->
         result
           (run leaf_ftable
              [(String.String (Ascii.Ascii false true true true false false true false)
                  (String.String (Ascii.Ascii false true false false false false true false)
                     (String.String (Ascii.Ascii true false false true false true true false)
                        (String.String (Ascii.Ascii false false true false true true true false)
                           (String.String (Ascii.Ascii true true true false true false true false)
                              (String.String (Ascii.Ascii true false false true false true true false)
                                 (String.String (Ascii.Ascii false false true false false true true false)
                                    (String.String (Ascii.Ascii false false true false true true true false)
                                       (String.String
                                          (Ascii.Ascii false false false true false true true false)
                                          String.EmptyString)))))))), BinInt.Z.of_N W)]
              BitWriteStreamT_100__write_5 [BinInt.Z.of_N item]
              [(String.String (Ascii.Ascii true true true true true false true false)
                  (String.String (Ascii.Ascii true true false false false true true false)
                     (String.String (Ascii.Ascii true false true false true true true false)
                        (String.String (Ascii.Ascii false true false false true true true false)
                           (String.String (Ascii.Ascii true true false false true true true false)
                              (String.String (Ascii.Ascii true true true true false true true false)
                                 (String.String (Ascii.Ascii false true false false true true true false)
                                    String.EmptyString)))))), BinInt.Z.of_N c)]
              [(String.String (Ascii.Ascii true true true true true false true false)
                  (String.String (Ascii.Ascii false true false false false true true false)
                     (String.String (Ascii.Ascii true false true false true true true false)
                        (String.String (Ascii.Ascii false true true false false true true false)
                           (String.String (Ascii.Ascii false true true false false true true false)
                              (String.String (Ascii.Ascii true false true false false true true false)
                                 (String.String (Ascii.Ascii false true false false true true true false)
                                    (String.String (Ascii.Ascii false true true true false true false false)
                                       (String.String (Ascii.Ascii true true true true true false true false)
                                          (String.String
                                             (Ascii.Ascii false false true false false true true false)
                                             (String.String
                                                (Ascii.Ascii true false false false false true true false)
                                                (String.String
                                                   (Ascii.Ascii false false true false true true true false)
                                                   (String.String
                                                      (Ascii.Ascii true false false false false true true false)
                                                      String.EmptyString)))))))))))), 
                zs buf)]) =
         (let
          '(buf', c') := write buf c W item in
           Some
             (None,
              [(String.String (Ascii.Ascii true true true true true false true false)
                  (String.String (Ascii.Ascii true true false false false true true false)
                     (String.String (Ascii.Ascii true false true false true true true false)
                        (String.String (Ascii.Ascii false true false false true true true false)
                           (String.String (Ascii.Ascii true true false false true true true false)
                              (String.String (Ascii.Ascii true true true true false true true false)
                                 (String.String (Ascii.Ascii false true false false true true true false)
                                    String.EmptyString)))))), BinInt.Z.of_N c')],
              [(String.String (Ascii.Ascii true true true true true false true false)
                  (String.String (Ascii.Ascii false true false false false true true false)
                     (String.String (Ascii.Ascii true false true false true true true false)
                        (String.String (Ascii.Ascii false true true false false true true false)
                           (String.String (Ascii.Ascii false true true false false true true false)
                              (String.String (Ascii.Ascii true false true false false true true false)
                                 (String.String (Ascii.Ascii false true false false true true true false)
                                    (String.String (Ascii.Ascii false true true true false true false false)
                                       (String.String (Ascii.Ascii true true true true true false true false)
                                          (String.String
                                             (Ascii.Ascii false false true false false true true false)
                                             (String.String
                                                (Ascii.Ascii true false false false false true true false)
                                                (String.String
                                                   (Ascii.Ascii false false true false true true true false)
                                                   (String.String
                                                      (Ascii.Ascii true false false false false true true false)
                                                      String.EmptyString)))))))))))), 
                zs buf')])).
Proof. exact (src_write8). Qed.
Print Assumptions C18_source_write_never_faults.

(* index safety of the code itself (DESIGN.md 4.7): the interpreter of Model/Cxx.v returns a fault for an element
   access outside its array, a shift by a negative amount or by at least the width, a signed result outside its type
   and a division by zero; this theorem says the body of BitWriteStreamT<>::write<W>(), W <= 32 (the item is shifted at
   unsigned int and may wrap, which is defined), as translated from clang's typed AST of /repo's current source on
   every run, returns a result - no fault - for every argument the library's own assertions admit (and computes the
   model's function) *)
Theorem C18_source_write32_never_faults :
  forall (W item c : N) (buf : list N),
         (1 <= W <= 32)%N ->
         (item < 4294967296)%N ->
         (c < 256)%N ->
         Forall (fun x : N => (x < 256)%N) buf ->
         (c + W <= 8 * N.of_nat (length buf))%N ->
         length buf <= 32 ->
         result
           (run leaf_ftable
              [(String.String (Ascii.Ascii false true true true false false true false)
                  (String.String (Ascii.Ascii false true false false false false true false)
                     (String.String (Ascii.Ascii true false false true false true true false)
                        (String.String (Ascii.Ascii false false true false true true true false)
                           (String.String (Ascii.Ascii true true true false true false true false)
                              (String.String (Ascii.Ascii true false false true false true true false)
                                 (String.String (Ascii.Ascii false false true false false true true false)
                                    (String.String (Ascii.Ascii false false true false true true true false)
                                       (String.String
                                          (Ascii.Ascii false false false true false true true false)
                                          String.EmptyString)))))))), BinInt.Z.of_N W)]
              BitWriteStreamT_100__write_20 [BinInt.Z.of_N item]
              [(String.String (Ascii.Ascii true true true true true false true false)
                  (String.String (Ascii.Ascii true true false false false true true false)
                     (String.String (Ascii.Ascii true false true false true true true false)
                        (String.String (Ascii.Ascii false true false false true true true false)
                           (String.String (Ascii.Ascii true true false false true true true false)
                              (String.String (Ascii.Ascii true true true true false true true false)
                                 (String.String (Ascii.Ascii false true false false true true true false)
                                    String.EmptyString)))))), BinInt.Z.of_N c)]
              [(String.String (Ascii.Ascii true true true true true false true false)
                  (String.String (Ascii.Ascii false true false false false true true false)
                     (String.String (Ascii.Ascii true false true false true true true false)
                        (String.String (Ascii.Ascii false true true false false true true false)
                           (String.String (Ascii.Ascii false true true false false true true false)
                              (String.String (Ascii.Ascii true false true false false true true false)
                                 (String.String (Ascii.Ascii false true false false true true true false)
                                    (String.String (Ascii.Ascii false true true true false true false false)
                                       (String.String (Ascii.Ascii true true true true true false true false)
                                          (String.String
                                             (Ascii.Ascii false false true false false true true false)
                                             (String.String
                                                (Ascii.Ascii true false false false false true true false)
                                                (String.String
                                                   (Ascii.Ascii false false true false true true true false)
                                                   (String.String
                                                      (Ascii.Ascii true false false false false true true false)
                                                      String.EmptyString)))))))))))), 
                zs buf)]) =
         (let
          '(buf', c') := write buf c W item in
           Some
             (None,
              [(String.String (Ascii.Ascii true true true true true false true false)
                  (String.String (Ascii.Ascii true true false false false true true false)
                     (String.String (Ascii.Ascii true false true false true true true false)
                        (String.String (Ascii.Ascii false true false false true true true false)
                           (String.String (Ascii.Ascii true true false false true true true false)
                              (String.String (Ascii.Ascii true true true true false true true false)
                                 (String.String (Ascii.Ascii false true false false true true true false)
                                    String.EmptyString)))))), BinInt.Z.of_N c')],
              [(String.String (Ascii.Ascii true true true true true false true false)
                  (String.String (Ascii.Ascii false true false false false true true false)
                     (String.String (Ascii.Ascii true false true false true true true false)
                        (String.String (Ascii.Ascii false true true false false true true false)
                           (String.String (Ascii.Ascii false true true false false true true false)
                              (String.String (Ascii.Ascii true false true false false true true false)
                                 (String.String (Ascii.Ascii false true false false true true true false)
                                    (String.String (Ascii.Ascii false true true true false true false false)
                                       (String.String (Ascii.Ascii true true true true true false true false)
                                          (String.String
                                             (Ascii.Ascii false false true false false true true false)
                                             (String.String
                                                (Ascii.Ascii true false false false false true true false)
                                                (String.String
                                                   (Ascii.Ascii false false true false true true true false)
                                                   (String.String
                                                      (Ascii.Ascii true false false false false true true false)
                                                      String.EmptyString)))))))))))), 
                zs buf')])).
Proof. exact (src_write32). Qed.
Print Assumptions C18_source_write32_never_faults.

(* index safety of the code itself (DESIGN.md 4.7): the interpreter of Model/Cxx.v returns a fault for an element
   access outside its array, a shift by a negative amount or by at least the width, a signed result outside its type
   and a division by zero; this theorem says the body of BitReadStreamT<>::read<W>(), W <= 8, as translated from
   clang's typed AST of /repo's current source on every run, returns a result - no fault - for every argument the
   library's own assertions admit (and computes the model's function) *)
Theorem C18_source_read_never_faults :
  forall (W c : N) (buf : list N),
         (1 <= W <= 8)%N ->
         (c < 256)%N ->
         Forall (fun x : N => (x < 256)%N) buf ->
         (c + W <= 8 * N.of_nat (length buf))%N ->
         length buf <= 32 ->
         result (run leaf_ftable (width_const W) BitReadStreamT_100__read_5 [] (cursor_fld c) (stream_obj buf)) =
         (let '(v, c') := read buf c W in Some (Some (BinInt.Z.of_N v), cursor_fld c', stream_obj buf)).
Proof. exact (src_read8). Qed.
Print Assumptions C18_source_read_never_faults.

(* index safety of the code itself (DESIGN.md 4.7): the interpreter of Model/Cxx.v returns a fault for an element
   access outside its array, a shift by a negative amount or by at least the width, a signed result outside its type
   and a division by zero; this theorem says the body of BitReadStreamT<>::read<W>(), W <= 32, as translated from
   clang's typed AST of /repo's current source on every run, returns a result - no fault - for every argument the
   library's own assertions admit (and computes the model's function) *)
Theorem C18_source_read32_never_faults :
  forall (W c : N) (buf : list N),
         (1 <= W <= 32)%N ->
         (c < 256)%N ->
         Forall (fun x : N => (x < 256)%N) buf ->
         (c + W <= 8 * N.of_nat (length buf))%N ->
         length buf <= 32 ->
         result
           (run leaf_ftable (width_const W) BitReadStreamT_100__read_20 [] (cursor_fld c) (stream_obj buf)) =
         (let '(v, c') := read buf c W in Some (Some (BinInt.Z.of_N v), cursor_fld c', stream_obj buf)).
Proof. exact (src_read32). Qed.
Print Assumptions C18_source_read32_never_faults.

(* index safety of the code itself (DESIGN.md 4.7): the interpreter of Model/Cxx.v returns a fault for an element
   access outside its array, a shift by a negative amount or by at least the width, a signed result outside its type
   and a division by zero; this theorem says the body of TaskListT<void, N>::emplace() on every list satisfying the
   free-list invariant, as translated from clang's typed AST of /repo's current source on every run, returns a result -
   no fault - for every argument the library's own assertions admit (and computes the model's function) *)
Theorem C18_source_tasklist_emplace_never_faults :
  forall (P : Type) (cap : nat) (t : tl P) (vac : list nat) (occ : list (nat * slot P)) 
           (o d : nat) (p : option P),
         FL P cap t vac occ ->
         o <= 255 ->
         d <= 255 ->
         result
           (run leaf_ftable (tl_consts cap) TaskListT_void_5__emplace_u8_u8
              [BinInt.Z.of_nat o; BinInt.Z.of_nat d] (tl_fields t) (tl_arrays t)) =
         (let '(t', r) := emplace P cap t o d p in Some (Some (BinInt.Z.of_nat r), tl_fields t', tl_arrays t')).
Proof. exact (src_TaskList_emplace_FL). Qed.
Print Assumptions C18_source_tasklist_emplace_never_faults.

(* index safety of the code itself (DESIGN.md 4.7): the interpreter of Model/Cxx.v returns a fault for an element
   access outside its array, a shift by a negative amount or by at least the width, a signed result outside its type
   and a division by zero; this theorem says the body of TaskListT<void, N>::remove() on every list satisfying the
   free-list invariant, as translated from clang's typed AST of /repo's current source on every run, returns a result -
   no fault - for every argument the library's own assertions admit (and computes the model's function) *)
Theorem C18_source_tasklist_remove_never_faults :
  forall (P : Type) (cap : nat) (t : tl P) (vac : list nat) (occ : list (nat * slot P)) (i : nat),
         FL P cap t vac occ ->
         In i (map fst occ) ->
         result
           (run leaf_ftable (tl_consts cap) TaskListT_void_5__remove [BinInt.Z.of_nat i] 
              (tl_fields t) (tl_arrays t)) =
         Some (None, tl_fields (remove P cap t i), tl_arrays (remove P cap t i)).
Proof. exact (src_TaskList_remove_FL). Qed.
Print Assumptions C18_source_tasklist_remove_never_faults.

(* index safety of the code itself (DESIGN.md 4.7): the interpreter of Model/Cxx.v returns a fault for an element
   access outside its array, a shift by a negative amount or by at least the width, a signed result outside its type
   and a division by zero; this theorem says the body of PlanT<>::append() (TaskListT::emplace and linkTask inlined) on
   every plan data satisfying the plan invariant, as translated from clang's typed AST of /repo's current source on
   every run, returns a result - no fault - for every argument the library's own assertions admit (and computes the
   model's function) *)
Theorem C18_source_plan_append_never_faults :
  forall (P : Type) (cap : nat) (d : plan_data P) (order : list nat) (o dst : nat),
         PlanInv P cap d order ->
         o <= 255 ->
         dst <= 255 ->
         result
           (run leaf_ftable (pl_consts cap) PlanT__append [BinInt.Z.of_nat o; BinInt.Z.of_nat dst]
              (pd_fields d) (pd_arrays d)) =
         (let '(d', b) := plan_append P cap d o dst in Some (Some (b2z b), pd_fields d', pd_arrays d')).
Proof. exact (src_Plan_append_inv). Qed.
Print Assumptions C18_source_plan_append_never_faults.

(* index safety of the code itself (DESIGN.md 4.7): the interpreter of Model/Cxx.v returns a fault for an element
   access outside its array, a shift by a negative amount or by at least the width, a signed result outside its type
   and a division by zero; this theorem says the body of PlanT<>::remove() (TaskListT::remove inlined) on every plan
   data satisfying the plan invariant, as translated from clang's typed AST of /repo's current source on every run,
   returns a result - no fault - for every argument the library's own assertions admit (and computes the model's
   function) *)
Theorem C18_source_plan_remove_never_faults :
  forall (P : Type) (cap : nat) (d : plan_data P) (l1 : list nat) (x : nat) (l2 : list nat),
         PlanInv P cap d (l1 ++ x :: l2) ->
         result (run leaf_ftable (pl_consts cap) PlanT__remove [BinInt.Z.of_nat x] (pd_fields d) (pd_arrays d)) =
         Some (None, pd_fields (plan_remove P cap d x), pd_arrays (plan_remove P cap d x)).
Proof. exact (src_Plan_remove_inv). Qed.
Print Assumptions C18_source_plan_remove_never_faults.

