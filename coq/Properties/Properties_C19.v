(* C19 - Feature switches are orthogonal: the Coq part (non-interference of features a program does not use).
   with_log/with_plans/with_serial/with_history cfg x = the configuration with that switch set to x; with_features sets
   all four; strip forgets the logger and its records, strip_h forgets previousTransition(); a program 'does not use'
   plans when its callbacks issue no succeed/fail/plan action (no_plan_oracle) and its history has no plan operation
   (no_plan_op), and 'does not use' transition history when it calls neither replayEnter nor replayTransition. 'Every
   combination compiles' and 'the shipped header equals the amalgamation' are decided by enumeration and byte
   comparison in the check, not here. *)
From Coq Require Import List Arith Bool NArith.
From FFSM2 Require Import Model.TaskList Model.BitArray Model.BitStream Model.Plan Model.Ancestors Model.Machine
  Proofs.BitArrayProofs Proofs.TaskListProofs Proofs.TaskListRun Proofs.PlanProofs Proofs.MachineFrame Proofs.MachinePlan Proofs.MachineLife Proofs.GuardProofs Proofs.CycleProofs Proofs.PlanStep
  Proofs.SerialProofs Proofs.LogProofs Proofs.MachineTop Model.Multi Generated.InitFacts Proofs.ConstructProofs Proofs.LifeMonitor Proofs.ActivationRounds Proofs.IndexSafety Proofs.FeatureProofs Model.Script Proofs.Contract Proofs.Histories Proofs.StatusBits Proofs.Worlds Model.Cxx Generated.LeafCode Proofs.LeafTactics Proofs.LeafConsts Proofs.LeafCodeTaskList Proofs.LeafCodeStream Proofs.LeafCodeWide.
Import ListNotations.

(* for every history that uses none of the features and every two settings of (plans, serialization, history, log mode,
   logger): same returns, and the same run once logger records and previousTransition() are forgotten *)
Theorem C19_all_four_switches :
  forall (P : Type) (cfg : config) (orc orc' : oracle P),
         c_cap cfg <= 255 ->
         log_blind P orc orc' ->
         no_plan_oracle P orc ->
         forall ops : list (api_op P),
         Forall (featureless_op P) ops ->
         forall (pl1 sr1 h1 : bool) (lm1 : logmode) (lg1 pl2 sr2 h2 : bool) (lm2 : logmode) (lg2 : bool),
         strip_h P (strip P (Machine.run P (with_features cfg pl1 sr1 h1 lm1) orc' lg1 ops)) =
         strip_h P (strip P (Machine.run P (with_features cfg pl2 sr2 h2 lm2) orc' lg2 ops)) /\
         run_rets P (with_features cfg pl1 sr1 h1 lm1) orc' lg1 ops =
         run_rets P (with_features cfg pl2 sr2 h2 lm2) orc' lg2 ops.
Proof. exact (features_irrelevant). Qed.
Print Assumptions C19_all_four_switches.

(* in particular: same callbacks/actions/results in the same order, same active state, request and plan *)
Theorem C19_all_four_switches_observable :
  forall (P : Type) (cfg1 : config) (orc orc' : oracle P),
         c_cap cfg1 <= 255 ->
         log_blind P orc orc' ->
         no_plan_oracle P orc ->
         forall ops : list (api_op P),
         Forall (featureless_op P) ops ->
         forall (pl sr h : bool) (lm : logmode) (lg1 lg2 : bool),
         let cfg2 := with_features cfg1 pl sr h lm in
         let l := Machine.run P cfg1 orc' lg1 ops in
         let r := Machine.run P cfg2 orc' lg2 ops in
         erase P (tr P l) = erase P (tr P r) /\
         active P (co P l) = active P (co P r) /\
         requested P (co P l) = requested P (co P r) /\
         request P (co P l) = request P (co P r) /\
         plan P (co P l) = plan P (co P r) /\ run_rets P cfg1 orc' lg1 ops = run_rets P cfg2 orc' lg2 ops.
Proof. exact (features_irrelevant_observable). Qed.
Print Assumptions C19_all_four_switches_observable.

Theorem C19_features_against_the_bare_machine :
  forall (P : Type) (cfg : config) (orc orc' : oracle P),
         c_cap cfg <= 255 ->
         log_blind P orc orc' ->
         no_plan_oracle P orc ->
         forall ops : list (api_op P),
         Forall (featureless_op P) ops ->
         forall (pl sr h : bool) (lm : logmode) (lg : bool),
         strip_h P (strip P (Machine.run P (with_features cfg pl sr h lm) orc' lg ops)) =
         bare_run P cfg orc ops /\
         run_rets P (with_features cfg pl sr h lm) orc' lg ops = bare_rets P cfg orc ops.
Proof. exact (features_transparent). Qed.
Print Assumptions C19_features_against_the_bare_machine.

(* the serialization switch changes nothing but the availability of save/load *)
Theorem C19_serialization_is_inert :
  forall (P : Type) (cfg : config) (b : bool) (orc : oracle P) (lg : bool) (ops : list (api_op P)),
         Machine.run P (with_serial cfg b) orc lg ops = Machine.run P cfg orc lg ops.
Proof. exact (serial_run). Qed.
Print Assumptions C19_serialization_is_inert.

Theorem C19_serialization_observe :
  forall (P : Type) (cfg : config) (b : bool) (c : core P),
         observe P (with_serial cfg b) c =
         {|
           o_active := o_active P (observe P cfg c);
           o_on := o_on P (observe P cfg c);
           o_act := o_act P (observe P cfg c);
           o_request := o_request P (observe P cfg c);
           o_prev := o_prev P (observe P cfg c);
           o_plan := o_plan P (observe P cfg c);
           o_first := o_first P (observe P cfg c);
           o_last := o_last P (observe P cfg c);
           o_ser := if b then save P cfg c else []
         |}.
Proof. exact (serial_observe). Qed.
Print Assumptions C19_serialization_observe.

(* transition history is write-only for programs that do not replay *)
Theorem C19_history_is_write_only :
  forall (P : Type) (cfg : config) (orc : oracle P) (lg : bool) (ops : list (api_op P)),
         Forall (no_history_op P) ops ->
         strip_h P (Machine.run P (with_history cfg true) orc lg ops) =
         Machine.run P (with_history cfg false) orc lg ops.
Proof. exact (history_run_on_off). Qed.
Print Assumptions C19_history_is_write_only.

Theorem C19_history_returns :
  forall (P : Type) (cfg : config) (orc : oracle P) (lg : bool) (ops : list (api_op P)),
         Forall (no_history_op P) ops ->
         run_rets P (with_history cfg true) orc lg ops = run_rets P (with_history cfg false) orc lg ops.
Proof. exact (history_run_rets_on_off). Qed.
Print Assumptions C19_history_returns.

(* with plans compiled in but unused the run is identical and the plan data stays as constructed *)
Theorem C19_plans_idle :
  forall (P : Type) (cfg : config) (orc : oracle P),
         c_cap cfg <= 255 ->
         no_plan_oracle P orc ->
         forall (lg : bool) (ops : list (api_op P)),
         Forall (no_plan_op P) ops ->
         Machine.run P (with_plans cfg true) orc lg ops = Machine.run P (with_plans cfg false) orc lg ops /\
         run_rets P (with_plans cfg true) orc lg ops = run_rets P (with_plans cfg false) orc lg ops /\
         plan P (co P (Machine.run P (with_plans cfg true) orc lg ops)) = pd_init P (c_cap cfg) (c_n cfg).
Proof. exact (plans_run). Qed.
Print Assumptions C19_plans_idle.

Theorem C19_plans_from_any_idle_state :
  forall (P : Type) (cfg : config) (orc : oracle P),
         c_cap cfg <= 255 ->
         no_plan_oracle P orc ->
         forall (ops : list (api_op P)) (s s' : mstate P),
         Forall (no_plan_op P) ops ->
         PlanIdle P (plan P (co P s)) ->
         same_but_plan P s s' ->
         same_but_plan P (run_from P (with_plans cfg true) orc s ops)
           (run_from P (with_plans cfg false) orc s' ops) /\
         rets_from P (with_plans cfg true) orc s ops = rets_from P (with_plans cfg false) orc s' ops /\
         PlanIdle P (plan P (co P (run_from P (with_plans cfg true) orc s ops))).
Proof. exact (plans_run_from_idle). Qed.
Print Assumptions C19_plans_from_any_idle_state.

(* for every history and every pair of log modes: forgetting the logger's records, the run with a logger equals the run
   without *)
Theorem C19_logging_does_not_interfere :
  forall (P : Type) (cfg : config) (lm : logmode) (orc orc' : oracle P),
         log_blind P orc orc' ->
         forall (ops : list (api_op P)) (s : mstate P),
         strip P (run_from P cfg orc' s ops) =
         run_from P (with_log cfg lm) orc (strip P s) (map (detach_op P) ops).
Proof. exact (log_transparent_gen). Qed.
Print Assumptions C19_logging_does_not_interfere.

(* with no logger attached the compile-time log mode is unobservable *)
Theorem C19_log_mode_irrelevant_without_logger :
  forall (P : Type) (cfg : config) (lm1 lm2 : logmode) (orc : oracle P) (ops : list (api_op P)),
         Machine.run P (with_log cfg lm1) orc false (map (detach_op P) ops) =
         Machine.run P (with_log cfg lm2) orc false (map (detach_op P) ops).
Proof. exact (run_log_mode_irrelevant). Qed.
Print Assumptions C19_log_mode_irrelevant_without_logger.

