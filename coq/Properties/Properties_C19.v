(* C19 - Feature switches are orthogonal: the Coq part (non-interference of features a program does not use). with_log/with_plans/with_serial/with_history cfg x = the configuration with that switch set to x. 'Every combination compiles' and 'the shipped header equals the amalgamation' are decided by enumeration and byte comparison in the check, not here. *)
From Coq Require Import List Arith Bool NArith.
From FFSM2 Require Import Model.TaskList Model.BitArray Model.BitStream Model.Plan Model.Ancestors Model.Machine
  Proofs.BitArrayProofs Proofs.MachineFrame Proofs.MachinePlan Proofs.MachineLife Proofs.GuardProofs Proofs.CycleProofs Proofs.PlanStep
  Proofs.SerialProofs Proofs.LogProofs Proofs.MachineTop Model.Multi Generated.InitFacts Proofs.ConstructProofs Proofs.LifeMonitor Proofs.ActivationRounds Proofs.IndexSafety.
Import ListNotations.

(* for every history and every pair of log modes: forgetting the logger's records, the run with a logger equals the run without *)
Theorem C19_logging_does_not_interfere :
  forall (P : Type) (cfg : config) (lm : logmode) (orc orc' : oracle P),
         log_blind P orc orc' ->
         forall (ops : list (api_op P)) (s : mstate P),
         strip P (run_from P cfg orc' s ops) =
         run_from P (with_log cfg lm) orc (strip P s) (map (detach_op P) ops).
Proof. exact (log_transparent_gen). Qed.
Print Assumptions C19_logging_does_not_interfere.

(* with no logger attached the compile-time log mode is unobservable *)
Theorem C19_log_mode_irrelevant_without_logger :
  forall (P : Type) (cfg : config) (lm1 lm2 : logmode) (orc : oracle P) (ops : list (api_op P)),
         run P (with_log cfg lm1) orc false (map (detach_op P) ops) =
         run P (with_log cfg lm2) orc false (map (detach_op P) ops).
Proof. exact (run_log_mode_irrelevant). Qed.
Print Assumptions C19_log_mode_irrelevant_without_logger.

