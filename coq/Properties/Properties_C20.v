(* C20 — Bit sets and fixed arrays behave like their mathematical models. Theorems only. *)
From Coq Require Import List NArith Arith Bool.
From Coq Require Import ZArith.
From FFSM2 Require Import Model.BitArray Model.Arrays Proofs.BitArrayProofs Proofs.ArraysProofs Model.Cxx Generated.LeafCode Proofs.LeafTactics Proofs.LeafConsts Proofs.LeafLoops Proofs.LeafCodeProofs Proofs.LeafCodeArrays Proofs.LeafCodeStatic.
Import ListNotations.

Section BitSet.
Local Open Scope N_scope.
Variable cap : N.
Hypothesis cap_pos : 1 <= cap.

(* get after set / clear: the index written answers accordingly, no other index is disturbed *)
Theorem C20_get_set : forall b i j, wf cap b -> i < cap -> ba_get (ba_set b i) j = if i =? j then true else ba_get b j.
Proof. intros; eapply get_set; eassumption. Qed.
Theorem C20_get_clear : forall b i j, wf cap b -> i < cap -> ba_get (ba_clear b i) j = if i =? j then false else ba_get b j.
Proof. intros; eapply get_clear; eassumption. Qed.
(* set-all makes exactly the indices below the capacity members; clear-all none *)
Theorem C20_get_set_all : forall b j, wf cap b -> ba_get (ba_set_all cap b) j = (j <? cap).
Proof. intros; eapply get_set_all; eassumption. Qed.
Theorem C20_get_clear_all : forall b j, ba_get (ba_clear_all b) j = false.
Proof. intros; eapply get_clear_all; eassumption. Qed.
(* and-assign is pointwise *)
Theorem C20_get_and_assign : forall b o j, length b = length o -> ba_get (ba_and_assign b o) j = ba_get b j && ba_get o j.
Proof. intros; eapply get_and_assign; eassumption. Qed.
(* empty() answers "no index below the capacity is a member", given the padding invariant ... *)
Theorem C20_empty : forall b, wf cap b -> padding_zero cap b ->
  (ba_empty b = true <-> forall i, i < cap -> ba_get b i = false).
Proof. intros; eapply empty_spec; eassumption. Qed.
(* ... which construction establishes and every operation with in-range indices keeps (set-all included:
   this is the statement that was false before BitArrayT::set() masked the last unit) *)
Theorem C20_invariant :
  (wf cap (ba_init cap) /\ padding_zero cap (ba_init cap)) /\
  (forall b i, wf cap b -> i < cap -> padding_zero cap b -> wf cap (ba_set b i) /\ padding_zero cap (ba_set b i)) /\
  (forall b i, wf cap b -> i < cap -> padding_zero cap b -> wf cap (ba_clear b i) /\ padding_zero cap (ba_clear b i)) /\
  (forall b, wf cap b -> wf cap (ba_set_all cap b) /\ padding_zero cap (ba_set_all cap b)) /\
  (forall b, wf cap b -> wf cap (ba_clear_all b) /\ padding_zero cap (ba_clear_all b)) /\
  (forall b o, wf cap b -> length b = length o -> padding_zero cap b ->
     wf cap (ba_and_assign b o) /\ padding_zero cap (ba_and_assign b o)).
Proof.
  repeat split; intros;
    first [ eapply init_wf | eapply padding_init | eapply set_wf | eapply padding_set | eapply clear_wf
          | eapply padding_clear | eapply set_all_wf | eapply padding_set_all | eapply clear_all_wf
          | eapply padding_clear_all | eapply and_assign_wf | eapply padding_and_assign ]; eassumption.
Qed.
End BitSet.
Print Assumptions C20_get_set. Print Assumptions C20_get_clear. Print Assumptions C20_get_set_all.
Print Assumptions C20_get_clear_all. Print Assumptions C20_get_and_assign. Print Assumptions C20_empty. Print Assumptions C20_invariant.

Section FixedArrays.
Variable T : Type.
Variable dflt : T.
(* index i returns the value last stored at i; other indices keep theirs *)
Theorem C20_static_get_set : forall a i j v, i < length a ->
  sa_get T dflt (sa_set T a i v) j = if i =? j then v else sa_get T dflt a j.
Proof. exact (sa_get_set T dflt). Qed.
(* fill() / clear() overwrite every element *)
Theorem C20_static_fill : forall a v j, j < length a -> sa_get T dflt (sa_fill T a v) j = v.
Proof. exact (sa_fill_get T dflt). Qed.
Theorem C20_static_clear : forall a j, j < length a -> sa_get T dflt (sa_clear T dflt a) j = dflt.
Proof. exact (sa_clear_get T dflt). Qed.
(* visiting the elements in index order yields each once *)
Theorem C20_static_elements : forall a, map (sa_get T dflt a) (seq 0 (length a)) = a.
Proof. exact (sa_elements T dflt). Qed.
(* the growable array: emplace appends and returns the old count, up to the capacity; clear empties;
   iteration visits the live elements once each in insertion order (capacity <= 255: uint8_t cursor) *)
Theorem C20_dynamic_emplace : forall cap a v, da_inv T cap a -> da_count T a < cap ->
  da_inv T cap (fst (da_emplace T a v)) /\ da_abs T (fst (da_emplace T a v)) = da_abs T a ++ [v] /\
  snd (da_emplace T a v) = da_count T a /\ da_count T (fst (da_emplace T a v)) = S (da_count T a).
Proof. exact (da_emplace_spec T). Qed.
Theorem C20_dynamic_clear : forall cap a, da_inv T cap a -> da_inv T cap (da_clear T a) /\ da_abs T (da_clear T a) = [].
Proof. exact (da_clear_spec T). Qed.
Theorem C20_dynamic_iteration : forall cap a, da_inv T cap a -> cap <= 255 -> da_to_list T dflt a = da_abs T a.
Proof. exact (da_to_list_spec T dflt). Qed.
Theorem C20_dynamic_append_all : forall cap capo a o, da_inv T cap a -> da_inv T capo o -> capo <= 255 ->
  da_count T a + da_count T o <= cap ->
  da_inv T cap (da_append_all T dflt a o) /\ da_abs T (da_append_all T dflt a o) = da_abs T a ++ da_abs T o.
Proof. exact (da_append_all_spec T dflt). Qed.
End FixedArrays.
Print Assumptions C20_static_get_set. Print Assumptions C20_static_fill. Print Assumptions C20_static_clear.
Print Assumptions C20_static_elements. Print Assumptions C20_dynamic_emplace. Print Assumptions C20_dynamic_clear.
Print Assumptions C20_dynamic_iteration. Print Assumptions C20_dynamic_append_all.

(* The tie to the source, by proof: Generated/LeafCode.v holds the bodies of BitArrayT<N>::get/set/clear(index) as clang's typed
   AST of /repo's current bit_array.inl gives them (tools/leafcode.py, regenerated on every run; N symbolic, Index = uint8_t, i.e.
   every N up to 255).  Run in the interpreter of Model/Cxx.v (C++ integer semantics) on arbitrary storage and any index below the
   capacity they never fault (no out-of-range unit, no undefined shift) and compute exactly the model's ba_get / ba_set / ba_clear,
   so the laws above are laws of the code that is in /repo now. *)
Section SourceTie.
Local Open Scope Z_scope.
Theorem C20_source_get_is_the_model : forall cap b n, 1 <= cap <= 255 -> Forall (fun x => (x < 256)%N) b ->
  Z.of_nat (length b) = (cap + 7) / 8 -> Z.of_N n < cap ->
  result (run leaf_ftable (ba_consts cap) BitArrayT_13__get_u32 [Z.of_N n] [] (ba_obj b))
  = Some (Some (b2z (ba_get b n)), [], (ba_obj b)).
Proof. exact src_BitArray_get. Qed.
Print Assumptions C20_source_get_is_the_model.
Theorem C20_source_set_is_the_model : forall cap b n, 1 <= cap <= 255 -> Forall (fun x => (x < 256)%N) b ->
  Z.of_nat (length b) = (cap + 7) / 8 -> Z.of_N n < cap ->
  result (run leaf_ftable (ba_consts cap) BitArrayT_13__set_u32 [Z.of_N n] [] (ba_obj b))
  = Some (None, [], (ba_obj (ba_set b n))).
Proof. exact src_BitArray_set. Qed.
Print Assumptions C20_source_set_is_the_model.
Theorem C20_source_clear_is_the_model : forall cap b n, 1 <= cap <= 255 -> Forall (fun x => (x < 256)%N) b ->
  Z.of_nat (length b) = (cap + 7) / 8 -> Z.of_N n < cap ->
  result (run leaf_ftable (ba_consts cap) BitArrayT_13__clear_u32 [Z.of_N n] [] (ba_obj b))
  = Some (None, [], (ba_obj (ba_clear b n))).
Proof. exact src_BitArray_clear. Qed.
Print Assumptions C20_source_clear_is_the_model.
(* The whole-array operations, the index type the library itself uses, and the second index class (256 <= N <= 65535, Index = uint16_t):
   statements as Coq prints them for the lemmas of Proofs/LeafCodeArrays.v. *)
Theorem C20_source_BitArray_set_all_is_the_model :
  forall (capN : N) (b : list N),
         (1 <= capN <= 255)%N ->
         Forall (fun x : N => (x < 256)%N) b ->
         N.of_nat (length b) = ((capN + 7) / 8)%N ->
         result (run leaf_ftable (ba_consts (Z.of_N capN)) BitArrayT_13__set [] [] (ba_obj b)) =
         Some (None, [], ba_obj (ba_set_all capN b)).
Proof. exact src_BitArray_set_all. Qed.
Print Assumptions C20_source_BitArray_set_all_is_the_model.
Theorem C20_source_BitArray_clear_all_is_the_model :
  forall (cap : Z) (b : list N),
         (1 <= cap <= 255)%Z ->
         Forall (fun x : N => (x < 256)%N) b ->
         Z.of_nat (length b) = ((cap + 7) / 8)%Z ->
         result (run leaf_ftable (ba_consts cap) BitArrayT_13__clear [] [] (ba_obj b)) = Some (None, [], ba_obj (ba_clear_all b)).
Proof. exact src_BitArray_clear_all. Qed.
Print Assumptions C20_source_BitArray_clear_all_is_the_model.
Theorem C20_source_BitArray_empty_is_the_model :
  forall (cap : Z) (b : list N),
         (1 <= cap <= 255)%Z ->
         Forall (fun x : N => (x < 256)%N) b ->
         Z.of_nat (length b) = ((cap + 7) / 8)%Z ->
         result (run leaf_ftable (ba_consts cap) BitArrayT_13__empty [] [] (ba_obj b)) =
         Some (Some (b2z (ba_empty b)), [], ba_obj b).
Proof. exact src_BitArray_empty. Qed.
Print Assumptions C20_source_BitArray_empty_is_the_model.
Theorem C20_source_BitArray_and_is_the_model :
  forall (cap : Z) (b o : list N),
         (1 <= cap <= 255)%Z ->
         Forall (fun x : N => (x < 256)%N) b ->
         Forall (fun x : N => (x < 256)%N) o ->
         Z.of_nat (length b) = ((cap + 7) / 8)%Z ->
         length o = length b ->
         result (run leaf_ftable (ba_consts cap) BitArrayT_13__op_and [] [] (ba2_obj b o)) =
         Some (Some (b2z (ba_and b o)), [], ba2_obj b o).
Proof. exact src_BitArray_and. Qed.
Print Assumptions C20_source_BitArray_and_is_the_model.
Theorem C20_source_BitArray_and_assign_is_the_model :
  forall (cap : Z) (b o : list N),
         (1 <= cap <= 255)%Z ->
         Forall (fun x : N => (x < 256)%N) b ->
         Forall (fun x : N => (x < 256)%N) o ->
         Z.of_nat (length b) = ((cap + 7) / 8)%Z ->
         length o = length b ->
         result (run leaf_ftable (ba_consts cap) BitArrayT_13__op_and_assign [] [] (ba2_obj b o)) =
         Some (None, [], ba2_obj (ba_and_assign b o) o).
Proof. exact src_BitArray_and_assign. Qed.
Print Assumptions C20_source_BitArray_and_assign_is_the_model.
Theorem C20_source_BitArray_get_u8_is_the_model :
  forall (cap : Z) (b : list N) (n : N),
         (1 <= cap <= 255)%Z ->
         Forall (fun x : N => (x < 256)%N) b ->
         Z.of_nat (length b) = ((cap + 7) / 8)%Z ->
         (Z.of_N n < cap)%Z ->
         result
           (run leaf_ftable (ba_consts cap) BitArrayT_13__get_u8 [Z.of_N n] []
              [(String.String (Ascii.Ascii true true true true true false true false)
                  (String.String (Ascii.Ascii true true false false true true true false)
                     (String.String (Ascii.Ascii false false true false true true true false)
                        (String.String (Ascii.Ascii true true true true false true true false)
                           (String.String (Ascii.Ascii false true false false true true true false)
                              (String.String (Ascii.Ascii true false false false false true true false)
                                 (String.String (Ascii.Ascii true true true false false true true false)
                                    (String.String (Ascii.Ascii true false true false false true true false) String.EmptyString))))))),
                zs b)]) =
         Some
           (Some (b2z (ba_get b n)), [],
            [(String.String (Ascii.Ascii true true true true true false true false)
                (String.String (Ascii.Ascii true true false false true true true false)
                   (String.String (Ascii.Ascii false false true false true true true false)
                      (String.String (Ascii.Ascii true true true true false true true false)
                         (String.String (Ascii.Ascii false true false false true true true false)
                            (String.String (Ascii.Ascii true false false false false true true false)
                               (String.String (Ascii.Ascii true true true false false true true false)
                                  (String.String (Ascii.Ascii true false true false false true true false) String.EmptyString))))))),
              zs b)]).
Proof. exact src_BitArray_get_u8. Qed.
Print Assumptions C20_source_BitArray_get_u8_is_the_model.
Theorem C20_source_BitArray_set_u8_is_the_model :
  forall (cap : Z) (b : list N) (n : N),
         (1 <= cap <= 255)%Z ->
         Forall (fun x : N => (x < 256)%N) b ->
         Z.of_nat (length b) = ((cap + 7) / 8)%Z ->
         (Z.of_N n < cap)%Z ->
         result
           (run leaf_ftable (ba_consts cap) BitArrayT_13__set_u8 [Z.of_N n] []
              [(String.String (Ascii.Ascii true true true true true false true false)
                  (String.String (Ascii.Ascii true true false false true true true false)
                     (String.String (Ascii.Ascii false false true false true true true false)
                        (String.String (Ascii.Ascii true true true true false true true false)
                           (String.String (Ascii.Ascii false true false false true true true false)
                              (String.String (Ascii.Ascii true false false false false true true false)
                                 (String.String (Ascii.Ascii true true true false false true true false)
                                    (String.String (Ascii.Ascii true false true false false true true false) String.EmptyString))))))),
                zs b)]) =
         Some
           (None, [],
            [(String.String (Ascii.Ascii true true true true true false true false)
                (String.String (Ascii.Ascii true true false false true true true false)
                   (String.String (Ascii.Ascii false false true false true true true false)
                      (String.String (Ascii.Ascii true true true true false true true false)
                         (String.String (Ascii.Ascii false true false false true true true false)
                            (String.String (Ascii.Ascii true false false false false true true false)
                               (String.String (Ascii.Ascii true true true false false true true false)
                                  (String.String (Ascii.Ascii true false true false false true true false) String.EmptyString))))))),
              zs (ba_set b n))]).
Proof. exact src_BitArray_set_u8. Qed.
Print Assumptions C20_source_BitArray_set_u8_is_the_model.
Theorem C20_source_BitArray_clear_u8_is_the_model :
  forall (cap : Z) (b : list N) (n : N),
         (1 <= cap <= 255)%Z ->
         Forall (fun x : N => (x < 256)%N) b ->
         Z.of_nat (length b) = ((cap + 7) / 8)%Z ->
         (Z.of_N n < cap)%Z ->
         result
           (run leaf_ftable (ba_consts cap) BitArrayT_13__clear_u8 [Z.of_N n] []
              [(String.String (Ascii.Ascii true true true true true false true false)
                  (String.String (Ascii.Ascii true true false false true true true false)
                     (String.String (Ascii.Ascii false false true false true true true false)
                        (String.String (Ascii.Ascii true true true true false true true false)
                           (String.String (Ascii.Ascii false true false false true true true false)
                              (String.String (Ascii.Ascii true false false false false true true false)
                                 (String.String (Ascii.Ascii true true true false false true true false)
                                    (String.String (Ascii.Ascii true false true false false true true false) String.EmptyString))))))),
                zs b)]) =
         Some
           (None, [],
            [(String.String (Ascii.Ascii true true true true true false true false)
                (String.String (Ascii.Ascii true true false false true true true false)
                   (String.String (Ascii.Ascii false false true false true true true false)
                      (String.String (Ascii.Ascii true true true true false true true false)
                         (String.String (Ascii.Ascii false true false false true true true false)
                            (String.String (Ascii.Ascii true false false false false true true false)
                               (String.String (Ascii.Ascii true true true false false true true false)
                                  (String.String (Ascii.Ascii true false true false false true true false) String.EmptyString))))))),
              zs (ba_clear b n))]).
Proof. exact src_BitArray_clear_u8. Qed.
Print Assumptions C20_source_BitArray_clear_u8_is_the_model.
Theorem C20_source_BitArray_wide_consts_is_the_model :
  forall cap : Z,
         (256 <= cap <= 65535)%Z -> build_consts leaf_ftable ba16_consts_defs (ncapacity cap) = Some (ba_consts cap).
Proof. exact src_BitArray16_consts. Qed.
Print Assumptions C20_source_BitArray_wide_consts_is_the_model.
Theorem C20_source_BitArray_wide_get_is_the_model :
  forall (cap : Z) (b : list N) (n : N),
         (256 <= cap <= 65535)%Z ->
         Forall (fun x : N => (x < 256)%N) b ->
         Z.of_nat (length b) = ((cap + 7) / 8)%Z ->
         (Z.of_N n < cap)%Z ->
         result
           (run leaf_ftable (ba_consts cap) BitArrayT_300__get_u32 [Z.of_N n] []
              [(String.String (Ascii.Ascii true true true true true false true false)
                  (String.String (Ascii.Ascii true true false false true true true false)
                     (String.String (Ascii.Ascii false false true false true true true false)
                        (String.String (Ascii.Ascii true true true true false true true false)
                           (String.String (Ascii.Ascii false true false false true true true false)
                              (String.String (Ascii.Ascii true false false false false true true false)
                                 (String.String (Ascii.Ascii true true true false false true true false)
                                    (String.String (Ascii.Ascii true false true false false true true false) String.EmptyString))))))),
                zs b)]) =
         Some
           (Some (b2z (ba_get b n)), [],
            [(String.String (Ascii.Ascii true true true true true false true false)
                (String.String (Ascii.Ascii true true false false true true true false)
                   (String.String (Ascii.Ascii false false true false true true true false)
                      (String.String (Ascii.Ascii true true true true false true true false)
                         (String.String (Ascii.Ascii false true false false true true true false)
                            (String.String (Ascii.Ascii true false false false false true true false)
                               (String.String (Ascii.Ascii true true true false false true true false)
                                  (String.String (Ascii.Ascii true false true false false true true false) String.EmptyString))))))),
              zs b)]).
Proof. exact src_BitArray16_get. Qed.
Print Assumptions C20_source_BitArray_wide_get_is_the_model.
Theorem C20_source_BitArray_wide_set_is_the_model :
  forall (cap : Z) (b : list N) (n : N),
         (256 <= cap <= 65535)%Z ->
         Forall (fun x : N => (x < 256)%N) b ->
         Z.of_nat (length b) = ((cap + 7) / 8)%Z ->
         (Z.of_N n < cap)%Z ->
         result
           (run leaf_ftable (ba_consts cap) BitArrayT_300__set_u32 [Z.of_N n] []
              [(String.String (Ascii.Ascii true true true true true false true false)
                  (String.String (Ascii.Ascii true true false false true true true false)
                     (String.String (Ascii.Ascii false false true false true true true false)
                        (String.String (Ascii.Ascii true true true true false true true false)
                           (String.String (Ascii.Ascii false true false false true true true false)
                              (String.String (Ascii.Ascii true false false false false true true false)
                                 (String.String (Ascii.Ascii true true true false false true true false)
                                    (String.String (Ascii.Ascii true false true false false true true false) String.EmptyString))))))),
                zs b)]) =
         Some
           (None, [],
            [(String.String (Ascii.Ascii true true true true true false true false)
                (String.String (Ascii.Ascii true true false false true true true false)
                   (String.String (Ascii.Ascii false false true false true true true false)
                      (String.String (Ascii.Ascii true true true true false true true false)
                         (String.String (Ascii.Ascii false true false false true true true false)
                            (String.String (Ascii.Ascii true false false false false true true false)
                               (String.String (Ascii.Ascii true true true false false true true false)
                                  (String.String (Ascii.Ascii true false true false false true true false) String.EmptyString))))))),
              zs (ba_set b n))]).
Proof. exact src_BitArray16_set. Qed.
Print Assumptions C20_source_BitArray_wide_set_is_the_model.
Theorem C20_source_BitArray_wide_clear_is_the_model :
  forall (cap : Z) (b : list N) (n : N),
         (256 <= cap <= 65535)%Z ->
         Forall (fun x : N => (x < 256)%N) b ->
         Z.of_nat (length b) = ((cap + 7) / 8)%Z ->
         (Z.of_N n < cap)%Z ->
         result
           (run leaf_ftable (ba_consts cap) BitArrayT_300__clear_u32 [Z.of_N n] []
              [(String.String (Ascii.Ascii true true true true true false true false)
                  (String.String (Ascii.Ascii true true false false true true true false)
                     (String.String (Ascii.Ascii false false true false true true true false)
                        (String.String (Ascii.Ascii true true true true false true true false)
                           (String.String (Ascii.Ascii false true false false true true true false)
                              (String.String (Ascii.Ascii true false false false false true true false)
                                 (String.String (Ascii.Ascii true true true false false true true false)
                                    (String.String (Ascii.Ascii true false true false false true true false) String.EmptyString))))))),
                zs b)]) =
         Some
           (None, [],
            [(String.String (Ascii.Ascii true true true true true false true false)
                (String.String (Ascii.Ascii true true false false true true true false)
                   (String.String (Ascii.Ascii false false true false true true true false)
                      (String.String (Ascii.Ascii true true true true false true true false)
                         (String.String (Ascii.Ascii false true false false true true true false)
                            (String.String (Ascii.Ascii true false false false false true true false)
                               (String.String (Ascii.Ascii true true true false false true true false)
                                  (String.String (Ascii.Ascii true false true false false true true false) String.EmptyString))))))),
              zs (ba_clear b n))]).
Proof. exact src_BitArray16_clear. Qed.
Print Assumptions C20_source_BitArray_wide_clear_is_the_model.
Theorem C20_source_BitArray_wide_set_all_is_the_model :
  forall (capN : N) (b : list N),
         (256 <= capN <= 65535)%N ->
         Forall (fun x : N => (x < 256)%N) b ->
         N.of_nat (length b) = ((capN + 7) / 8)%N ->
         result (run leaf_ftable (ba_consts (Z.of_N capN)) BitArrayT_300__set [] [] (ba_obj b)) =
         Some (None, [], ba_obj (ba_set_all capN b)).
Proof. exact src_BitArray16_set_all. Qed.
Print Assumptions C20_source_BitArray_wide_set_all_is_the_model.
Theorem C20_source_BitArray_wide_clear_all_is_the_model :
  forall (cap : Z) (b : list N),
         (256 <= cap <= 65535)%Z ->
         Forall (fun x : N => (x < 256)%N) b ->
         Z.of_nat (length b) = ((cap + 7) / 8)%Z ->
         result (run leaf_ftable (ba_consts cap) BitArrayT_300__clear [] [] (ba_obj b)) = Some (None, [], ba_obj (ba_clear_all b)).
Proof. exact src_BitArray16_clear_all. Qed.
Print Assumptions C20_source_BitArray_wide_clear_all_is_the_model.
Theorem C20_source_BitArray_wide_empty_is_the_model :
  forall (cap : Z) (b : list N),
         (256 <= cap <= 65535)%Z ->
         Forall (fun x : N => (x < 256)%N) b ->
         Z.of_nat (length b) = ((cap + 7) / 8)%Z ->
         result (run leaf_ftable (ba_consts cap) BitArrayT_300__empty [] [] (ba_obj b)) =
         Some (Some (b2z (ba_empty b)), [], ba_obj b).
Proof. exact src_BitArray16_empty. Qed.
Print Assumptions C20_source_BitArray_wide_empty_is_the_model.
Theorem C20_source_BitArray_wide_and_is_the_model :
  forall (cap : Z) (b o : list N),
         (256 <= cap <= 65535)%Z ->
         Forall (fun x : N => (x < 256)%N) b ->
         Forall (fun x : N => (x < 256)%N) o ->
         Z.of_nat (length b) = ((cap + 7) / 8)%Z ->
         length o = length b ->
         result (run leaf_ftable (ba_consts cap) BitArrayT_300__op_and [] [] (ba2_obj b o)) =
         Some (Some (b2z (ba_and b o)), [], ba2_obj b o).
Proof. exact src_BitArray16_and. Qed.
Print Assumptions C20_source_BitArray_wide_and_is_the_model.
Theorem C20_source_BitArray_wide_and_assign_is_the_model :
  forall (cap : Z) (b o : list N),
         (256 <= cap <= 65535)%Z ->
         Forall (fun x : N => (x < 256)%N) b ->
         Forall (fun x : N => (x < 256)%N) o ->
         Z.of_nat (length b) = ((cap + 7) / 8)%Z ->
         length o = length b ->
         result (run leaf_ftable (ba_consts cap) BitArrayT_300__op_and_assign [] [] (ba2_obj b o)) =
         Some (None, [], ba2_obj (ba_and_assign b o) o).
Proof. exact src_BitArray16_and_assign. Qed.
Print Assumptions C20_source_BitArray_wide_and_assign_is_the_model.
(* the fixed array whose filler is not T{}: StaticArrayT<uint8_t, N>::fill / clear / empty as translated from /repo's current array.inl (clear() is the member
   call fill(filler<Item>()) inlined, filler<uint8_t>() followed into its specialisation INVALID_SHORT = 255): on arbitrary contents and every capacity up to
   255 they never index outside _items and compute the model's sa_fill / sa_clear with filler 255 / "every item is the filler" *)
Theorem C20_source_StaticArray_fill_is_the_model : forall (cap : Z) (a : list N) (x : N),
  1 <= cap <= 255 -> Z.of_nat (length a) = cap -> (x < 256)%N ->
  result (run leaf_ftable (sa_consts cap) StaticArrayT_u8_5__fill [Z.of_N x] [] (sa_obj a)) = Some (None, [], sa_obj (sa_fill N a x)).
Proof. exact src_StaticArray_fill. Qed.
Print Assumptions C20_source_StaticArray_fill_is_the_model.
Theorem C20_source_StaticArray_clear_is_the_model : forall (cap : Z) (a : list N),
  1 <= cap <= 255 -> Z.of_nat (length a) = cap ->
  result (run leaf_ftable (sa_consts cap) StaticArrayT_u8_5__clear [] [] (sa_obj a)) = Some (None, [], sa_obj (sa_clear N 255%N a)).
Proof. exact src_StaticArray_clear. Qed.
Print Assumptions C20_source_StaticArray_clear_is_the_model.
Theorem C20_source_StaticArray_empty_is_the_model : forall (cap : Z) (a : list N),
  1 <= cap <= 255 -> Z.of_nat (length a) = cap -> Forall (fun x => (x < 256)%N) a ->
  result (run leaf_ftable (sa_consts cap) StaticArrayT_u8_5__empty [] [] (sa_obj a))
  = Some (Some (b2z (forallb (fun x => (x =? 255)%N) a)), [], sa_obj a).
Proof. exact src_StaticArray_empty. Qed.
Print Assumptions C20_source_StaticArray_empty_is_the_model.
End SourceTie.

(* non-vacuity: capacity 12, set-all then clear every index: empty (the history that failed before the repair) *)
Example C20_nonvacuous :
  ba_empty (fold_left ba_clear (map N.of_nat (seq 0 12)) (ba_set_all 12 (ba_init 12))) = true /\
  wf 12 (ba_set_all 12 (ba_init 12)).
Proof. split; [vm_compute; reflexivity|]. assert (H : (1 <= 12)%N) by (vm_compute; discriminate). eapply set_all_wf; try eapply init_wf; exact H. Qed.
