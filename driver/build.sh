#!/bin/sh
# Build the model runner: extract the Coq model to OCaml and compile it with the driver.
# Usage: driver/build.sh   (from anywhere; needs coq/ already built with make)
set -e
cd "$(dirname "$0")"
mkdir -p extracted
(cd extracted && coqc -Q ../../coq FFSM2 ../../coq/Extract.v >/dev/null)
cp main.ml units.ml extracted/ 2>/dev/null || cp main.ml extracted/
cd extracted
ocamlfind ocamlopt -O3 -w -a -package str model.mli model.ml main.ml -o ../model_runner 2>/dev/null || ocamlfind ocamlopt -w -a model.mli model.ml main.ml -o ../model_runner
if [ -f units.ml ]; then ocamlfind ocamlopt -w -a model.mli model.ml units.ml -o ../units_runner; fi
