(* Model runner for the correspondence check: parses a script, runs the extracted Coq model
   (driver/extracted/model.ml, produced by coq/Extract.v) and prints the trace in the canonical text
   form that harness/machine_harness.cpp prints. Parsing and printing only: every decision is made
   by extracted code. Payloads are integers here; the model never looks inside them. *)
open Model

let rec nat_of_int (i : int) : nat = if i <= 0 then O else S (nat_of_int (i - 1))
let rec int_of_nat (n : nat) : int = match n with O -> 0 | S m -> 1 + int_of_nat m
let rec pos_of_int (i : int) : positive =
  if i <= 1 then XH else if i land 1 = 0 then XO (pos_of_int (i lsr 1)) else XI (pos_of_int (i lsr 1))
let n_of_int (i : int) : n = if i <= 0 then N0 else Npos (pos_of_int i)
let rec int_of_pos (p : positive) : int = match p with XH -> 1 | XO q -> 2 * int_of_pos q | XI q -> 2 * int_of_pos q + 1
let int_of_n (x : n) : int = match x with N0 -> 0 | Npos p -> int_of_pos p

let methods = [| MEntryGuard; MEnter; MReenter; MPreUpdate; MUpdate; MPostUpdate; MPreReact; MReact; MPostReact;
                 MQuery; MExitGuard; MExit; MPlanSucceeded; MPlanFailed |]
let method_names = [| "entryGuard"; "enter"; "reenter"; "preUpdate"; "update"; "postUpdate"; "preReact"; "react"; "postReact";
                      "query"; "exitGuard"; "exit"; "planSucceeded"; "planFailed" |]
let method_index (m : method0) : int =
  let r = ref (-1) in Array.iteri (fun i x -> if x = m then r := i) methods; !r
let method_of_name (s : string) : method0 =
  let r = ref None in Array.iteri (fun i x -> if x = s then r := Some methods.(i)) method_names;
  match !r with Some m -> m | None -> failwith ("unknown method " ^ s)

let split_ws (s : string) : string list = List.filter (fun x -> x <> "") (String.split_on_char ' ' (String.trim s))

let starts_with p s = String.length s >= String.length p && String.sub s 0 (String.length p) = p
let after p s = String.sub s (String.length p) (String.length s - String.length p)

(* ---- configuration ---- *)
let parse_cfg (toks : string list) : config =
  let get k d = try after (k ^ "=") (List.find (starts_with (k ^ "=")) toks) with Not_found -> d in
  let geti k d = int_of_string (get k (string_of_int d)) in
  let mask k = int_of_string ("0x" ^ get k "3fff") in
  let defroot = mask "defroot" and defstate = mask "defstate" in
  { c_n = nat_of_int (geti "n" 3); c_head = geti "head" 1 = 1; c_manual = geti "manual" 0 = 1;
    c_limit = nat_of_int (geti "limit" 4); c_cap = nat_of_int (geti "cap" 3); c_payload = geti "payload" 0 <> 0;
    c_inj_root = nat_of_int (geti "inj_root" 0); c_inj_state = nat_of_int (geti "inj_state" 0);
    c_plans = geti "plans" 0 = 1; c_serial = geti "serial" 0 = 1; c_history = geti "history" 0 = 1;
    c_log = (match get "log" "off" with "on" -> LOn | "verbose" -> LVerbose | _ -> LOff);
    c_def_root = (fun m -> (defroot lsr (method_index m)) land 1 = 1);
    c_def_state = (fun m -> (defstate lsr (method_index m)) land 1 = 1) }

(* ---- actions ---- *)
let rec parse_acts (toks : string list) : int action list =
  match toks with
  | [] -> []
  | ";" :: r -> parse_acts r
  | "change" :: d :: r -> AChange (nat_of_int (int_of_string d)) :: parse_acts r
  | "changeWith" :: d :: p :: r -> AChangeWith (nat_of_int (int_of_string d), int_of_string p) :: parse_acts r
  | "cancel" :: r -> ACancel :: parse_acts r
  | "succeed" :: "self" :: r -> ASucceed None :: parse_acts r
  | "succeed" :: s :: r -> ASucceed (Some (nat_of_int (int_of_string s))) :: parse_acts r
  | "fail" :: "self" :: r -> AFail None :: parse_acts r
  | "fail" :: s :: r -> AFail (Some (nat_of_int (int_of_string s))) :: parse_acts r
  | "plan.append" :: o :: d :: r -> APlanAppend (nat_of_int (int_of_string o), nat_of_int (int_of_string d)) :: parse_acts r
  | "plan.appendWith" :: o :: d :: p :: r -> APlanAppendWith (nat_of_int (int_of_string o), nat_of_int (int_of_string d), int_of_string p) :: parse_acts r
  | "plan.clear" :: r -> APlanClear :: parse_acts r
  | "plan.removeAt" :: k :: r -> APlanRemoveAt (nat_of_int (int_of_string k)) :: parse_acts r
  | t :: _ -> failwith ("unknown action " ^ t)

let parse_tab (toks : string list) : int option * int entry =
  match toks with
  | is :: w :: r :: m :: rest ->
    let inst = if is = "*" then None else Some (int_of_string is) in
    let who = if w = "*" then WAny else if w = "S*" then WAnyState else if w = "R" then WRoot
              else WState (nat_of_int (int_of_string (after "S" w))) in
    let rc = if r = "*" then RAny else if r = "own" then ROwn else RInj (nat_of_int (int_of_string (after "I" r))) in
    let meth = if m = "*" then None else Some (method_of_name m) in
    let rec conds toks (c : cond) = match toks with
      | ":" :: r -> (c, r)
      | t :: r when starts_with "occ=" t -> conds r { c with cd_occ = Some (nat_of_int (int_of_string (after "occ=" t))) }
      | t :: r when starts_with "mod=" t ->
        (match String.split_on_char ',' (after "mod=" t) with
         | [a; b] -> conds r { c with cd_mod = Some (nat_of_int (int_of_string a), nat_of_int (int_of_string b)) }
         | _ -> failwith "bad mod")
      | t :: r when starts_with "pend=" t -> conds r { c with cd_pend = Some (nat_of_int (int_of_string (after "pend=" t))) }
      | t :: r when starts_with "cur=" t -> conds r { c with cd_cur = Some (nat_of_int (int_of_string (after "cur=" t))) }
      | t :: r when starts_with "active=" t -> conds r { c with cd_active = Some (nat_of_int (int_of_string (after "active=" t))) }
      | t :: _ -> failwith ("unknown condition " ^ t)
      | [] -> (c, []) in
    let (c, acts) = conds rest { cd_occ = None; cd_mod = None; cd_pend = None; cd_cur = None; cd_active = None } in
    (inst, { e_who = who; e_rec = rc; e_meth = meth; e_cond = c; e_acts = parse_acts acts })
  | _ -> failwith "bad tab line"

(* ---- operations ---- *)
let parse_op (cfg : config) (toks : string list) : int wop =
  let nat s = nat_of_int (int_of_string s) in
  let need b what = if not b then failwith ("operation not available in this configuration: " ^ what) in
  match toks with
  | ["construct"; i; lg; _fill] -> WConstruct (nat i, lg <> "0")
  | ["destroy"; i] -> WDestroy (nat i)
  | ["copy"; i; j; _fill] -> WCopy (nat i, nat j)
  | ["loadfrom"; i; j] -> need cfg.c_serial "loadfrom"; WLoadFrom (nat i, nat j)
  | ["enter"; i] -> need cfg.c_manual "enter"; WOp (nat i, OEnter)
  | ["exit"; i] -> need cfg.c_manual "exit"; WOp (nat i, OExit)
  | ["update"; i] -> WOp (nat i, OUpdate)
  | ["react"; i] -> WOp (nat i, OReact)
  | ["query"; i] -> WOp (nat i, OQuery)
  | ["change"; i; d] -> WOp (nat i, OChange (nat d))
  | ["changeWith"; i; d; p] -> need cfg.c_payload "changeWith"; WOp (nat i, OChangeWith (nat d, int_of_string p))
  | ["immChange"; i; d] -> WOp (nat i, OImmChange (nat d))
  | ["immChangeWith"; i; d; p] -> need cfg.c_payload "immChangeWith"; WOp (nat i, OImmChangeWith (nat d, int_of_string p))
  | ["succeed"; i; s] -> need cfg.c_plans "succeed"; WOp (nat i, OSucceed (nat s))
  | ["fail"; i; s] -> need cfg.c_plans "fail"; WOp (nat i, OFail (nat s))
  | ["plan.append"; i; o; d] -> WOp (nat i, OPlanAppend (nat o, nat d))
  | ["plan.appendWith"; i; o; d; p] -> WOp (nat i, OPlanAppendWith (nat o, nat d, int_of_string p))
  | ["plan.clear"; i] -> WOp (nat i, OPlanClear)
  | ["plan.removeAt"; i; k] -> WOp (nat i, OPlanRemoveAt (nat k))
  | ["replayEnter"; i; d] -> need (cfg.c_manual && cfg.c_history) "replayEnter"; WOp (nat i, OReplayEnter (nat d))
  | ["replayTransition"; i; d] -> need cfg.c_history "replayTransition"; WOp (nat i, OReplayTransition (nat d))
  | ["attachLogger"; i; b] -> need (cfg.c_log <> LOff) "attachLogger"; WOp (nat i, OAttachLogger (b <> "0"))
  | _ -> failwith ("bad op: " ^ String.concat " " toks)

(* ---- printing ---- *)
let pay_str (p : int option) = match p with None -> "-" | Some x -> string_of_int x
let tstr (t : int transition) : string =
  if not (t_valid t) then
    (if int_of_nat t.t_origin = 255 && t.t_pay = None then "-" else Printf.sprintf "-[%d:%s]" (int_of_nat t.t_origin) (pay_str t.t_pay))
  else Printf.sprintf "%d>%d:%s" (int_of_nat t.t_origin) (int_of_nat t.t_dest) (pay_str t.t_pay)
let task_str (t : int task) : string =
  Printf.sprintf "%d>%d:%s" (int_of_nat t.tk_origin) (int_of_nat t.tk_dest) (pay_str t.tk_payload)
let plan_str (ts : int task list) : string = "[" ^ String.concat "," (List.map task_str ts) ^ "]"
let bits_str (bs : bool list) : string = String.concat "" (List.map (fun b -> if b then "1" else "0") bs)
let who_str (w : who) = match w with Root -> "R" | St k -> "S" ^ string_of_int (int_of_nat k)
let rec_str (r : recipient) = match r with Own -> "own" | Inj i -> "I" ^ string_of_int (int_of_nat i)

let action_str (a : int action) : string =
  let i n = string_of_int (int_of_nat n) in
  match a with
  | AChange d -> "change " ^ i d
  | AChangeWith (d, p) -> Printf.sprintf "changeWith %s %d" (i d) p
  | ACancel -> "cancel"
  | ASucceed None -> "succeed self" | ASucceed (Some s) -> "succeed " ^ i s
  | AFail None -> "fail self" | AFail (Some s) -> "fail " ^ i s
  | APlanAppend (o, d) -> Printf.sprintf "plan.append %s %s" (i o) (i d)
  | APlanAppendWith (o, d, p) -> Printf.sprintf "plan.appendWith %s %s %d" (i o) (i d) p
  | APlanClear -> "plan.clear"
  | APlanRemoveAt k -> "plan.removeAt " ^ i k
let result_str (r : int result) : string =
  match r with ROk -> "ok" | RFull -> "full" | RIgnored -> "ignored" | RSeen ts -> "seen" ^ plan_str ts

let print_event (inst : int) (e : int event) : unit =
  match e with
  | EvLog (LMethod (sid, m)) -> Printf.printf "log %d method %d %s\n" inst (int_of_nat sid) method_names.(method_index m)
  | EvLog (LTransition (o, d)) -> Printf.printf "log %d transition %d %d\n" inst (int_of_nat o) (int_of_nat d)
  | EvLog (LTaskStatus (sid, ok)) -> Printf.printf "log %d task %d %s\n" inst (int_of_nat sid) (if ok then "succeeded" else "failed")
  | EvLog (LCancelled sid) -> Printf.printf "log %d cancelled %d\n" inst (int_of_nat sid)
  | EvAct (a, r) -> Printf.printf "did %d %s -> %s\n" inst (action_str a) (result_str r)
  | EvCb (w, r, m, v) ->
    let cur = match v.v_kind with KConst -> "-" | _ -> tstr v.v_cur in
    let pend = match v.v_kind with KGuard -> tstr v.v_pend | _ -> "-" in
    let ev = match m with MPreReact | MReact | MPostReact | MQuery -> " ev=1" | _ -> "" in
    Printf.printf "cb %d %s %s %s id=%d act=%s req=%s cur=%s pend=%s plan=%s ctx=1%s\n" inst (who_str w) (rec_str r)
      method_names.(method_index m) (int_of_nat v.v_id) (bits_str v.v_act) (tstr v.v_req) cur pend (plan_str v.v_plan) ev

let print_obs (cfg : config) (inst : int) (o : int observation) : unit =
  let opt_task t = match t with None -> "-" | Some x -> task_str x in
  Printf.printf "obs %d active=%d on=%d act=%s prev=%s plan=%s first=%s last=%s ser=%s\n" inst
    (int_of_nat o.o_active) (if o.o_on then 1 else 0) (bits_str o.o_act)
    (if cfg.c_history then tstr o.o_prev else "-")
    (plan_str o.o_plan) (opt_task o.o_first) (opt_task o.o_last)
    (String.concat "" (List.map (fun b -> Printf.sprintf "%02x" (int_of_n b)) o.o_ser))

let ret_str (r : int api_ret) : string =
  match r with RetNone -> "-" | RetBool true -> "1" | RetBool false -> "0" | RetSeen ts -> "seen" ^ plan_str ts

(* ---- C14 mode: "dp <n> <head>" on the first line: the same lines harness/dispatch_harness.cpp prints ---- *)
let run_dp (n : int) (head : bool) : unit =
  let bit m = (1 lsl (method_index m)) in
  let defstate = List.fold_left (fun a m -> a lor bit m) 0 [MEntryGuard; MEnter; MReenter; MPreUpdate; MUpdate; MPostUpdate; MPreReact; MReact; MPostReact; MQuery; MExitGuard; MExit] in
  let defroot = bit MEnter in
  let cfg = { c_n = nat_of_int n; c_head = head; c_manual = false; c_limit = nat_of_int 4; c_cap = nat_of_int 1; c_payload = false;
              c_inj_root = O; c_inj_state = O; c_plans = false; c_serial = false; c_history = false; c_log = LOff;
              c_def_root = (fun m -> (defroot lsr (method_index m)) land 1 = 1);
              c_def_state = (fun m -> (defstate lsr (method_index m)) land 1 = 1) } in
  let orc_of (_ : nat) : int oracle = table_oracle [] in
  let rec range a b = if a >= b then [] else a :: range (a + 1) b in
  let ops = WConstruct (O, false) :: List.concat_map (fun k -> [WOp (O, OImmChange (nat_of_int k)); WOp (O, OUpdate); WOp (O, OReact); WOp (O, OQuery); WCopy (S O, O); WOp (S O, OUpdate); WDestroy (S O)]) (range 0 n) in
  let w = wrun cfg orc_of (nat_of_int 2) ops in
  let states = List.map nat_of_int (range 0 n) in
  let nat_eqb a b = int_of_nat a = int_of_nat b in
  let root_id = state_id nat_eqb states (nat_of_int 100000) in
  Printf.printf "n=%d head=%d rootId=%d construct:" n (if head then 1 else 0) (int_of_nat root_id);
  let call = ref (-1) and last = ref (-1) and pending = ref None in
  List.iter (fun g ->
      match g with
      | GBegin _ -> incr call;
        if !call > 0 && (!call - 1) mod 7 = 0 then Printf.printf "k=%d" ((!call - 1) / 7);
        if !call > 0 && (!call - 1) mod 7 = 5 then Printf.printf " copy:"
      | GEv (_, EvCb (Root, Own, MEnter, v)) -> Printf.printf " rootEnter=%d" (int_of_nat v.v_id)
      | GEv (i, EvCb (St x, Own, m, v)) ->
        if int_of_nat i = 0 then last := int_of_nat x;
        if int_of_nat i = 0 || (!call - 1) mod 7 >= 5 then Printf.printf " %s=%d/%d" method_names.(method_index m) (int_of_nat x) (int_of_nat v.v_id)
      | GEv _ -> ()
      | GEnd _ ->
        if !call > 0 && (!call - 1) mod 7 = 6 then begin
          (match !pending with
           | Some o ->
             let k = (!call - 1) / 7 in
             let sid = int_of_nat (state_id nat_eqb states (nat_of_int !last)) in
             let isact = List.nth o.o_act k in
             Printf.printf " sid=%d self=%d active=%d isActive=%s%s\n" sid (if !last = k then 1 else 0) (int_of_nat o.o_active)
               (if isact then "1" else "0") (if isact then "1" else "0")
           | None -> ())
        end
      | GObs (i, o) ->
        if !call = 0 then Printf.printf " active=%d\n" (int_of_nat o.o_active)
        else if int_of_nat i = 0 && (!call - 1) mod 7 = 3 then pending := Some o)
    (List.rev w.glog)

(* ---- C01 mode: "c01mon <n>": run the extracted lifecycle automaton (Proofs/LifeMonitor.v, cb_step) over a trace read from stdin
   (the harness's output); prints "accept" or "reject <line number> <line>" ---- *)
let run_c01mon (n : int) : unit =
  let nn = nat_of_int n in
  let states : (int, lstate) Hashtbl.t = Hashtbl.create 8 in
  let lineno = ref 0 in
  let field l k = (* value of " k=..." *)
    let key = " " ^ k ^ "=" in
    let rec find i = if i + String.length key > String.length l then None
      else if String.sub l i (String.length key) = key then
        let j = (try String.index_from l (i + String.length key) ' ' with Not_found -> String.length l) in
        Some (String.sub l (i + String.length key) (j - i - String.length key))
      else find (i + 1) in find 0 in
  (try
     while true do
       let line = input_line stdin in
       incr lineno;
       match split_ws line with
       | "api" :: "construct" :: i :: _ when List.mem "begin" (split_ws line) -> Hashtbl.replace states (int_of_string i) LsOff
       | "api" :: "copy" :: i :: j :: _ when List.mem "begin" (split_ws line) ->
         (match Hashtbl.find_opt states (int_of_string j) with Some st -> Hashtbl.replace states (int_of_string i) st | None -> ())
       | "api" :: "destroy" :: i :: rest when List.exists (fun t -> t = "end") rest -> Hashtbl.remove states (int_of_string i)
       | "cb" :: i :: w :: r :: m :: _ ->
         let inst = int_of_string i in
         (match Hashtbl.find_opt states inst, field line "act" with
          | Some st, Some act ->
            let who = if w = "R" then Root else St (nat_of_int (int_of_string (after "S" w))) in
            let rc = if r = "own" then Own else Inj (nat_of_int (int_of_string (after "I" r))) in
            let bits = List.init (String.length act) (fun k -> act.[k] = '1') in
            (match cb_step nn st who rc (method_of_name m) bits with
             | Some st' -> Hashtbl.replace states inst st'
             | None -> Printf.printf "reject %d %s\n" !lineno line; exit 0)
          | _ -> ())
       | _ -> ()
     done
   with End_of_file -> ());
  print_string "accept\n"

let () =
  if Array.length Sys.argv >= 3 && Sys.argv.(1) = "c01mon" then begin
    run_c01mon (int_of_string Sys.argv.(2)); exit 0 end

(* ---- C05 mode: "c05": first line of stdin is a cfg line, every further line "<update|react|query> <active state>"; prints, per line, the
   callbacks the call must begin with - "who rec method" triples separated by ';' - computed by the extracted expected_cbs (Proofs/CycleProofs.v) ---- *)
let run_c05 () : unit =
  let cfg = ref None in
  (try
     while true do
       let line = input_line stdin in
       match split_ws line with
       | "cfg" :: toks -> cfg := Some (parse_cfg toks)
       | [op; a] ->
         let c = (match !cfg with Some c -> c | None -> failwith "no cfg line") in
         let an = nat_of_int (int_of_string a) in
         let ds = (match op with
             | "update" -> update_phases an
             | "react" -> react_phases an
             | _ -> [(Root, MQuery); (St an, MQuery)]) in
         let cbs = expected_cbs c ds in
         print_string (String.concat ";" (List.map (fun ((w, r), m) -> Printf.sprintf "%s %s %s" (who_str w) (rec_str r) method_names.(method_index m)) cbs));
         print_newline ()
       | _ -> ()
     done
   with End_of_file -> ())

let () =
  if Array.length Sys.argv >= 2 && Sys.argv.(1) = "c05" then begin run_c05 (); exit 0 end

let () =
  if Array.length Sys.argv >= 4 && Sys.argv.(1) = "dp" then begin
    run_dp (int_of_string Sys.argv.(2)) (Sys.argv.(3) = "1"); exit 0 end

let () =
  let cfg = ref None and tabs = ref [] and ops = ref [] and raws = ref [] in
  (try
     while true do
       let line = input_line stdin in
       match split_ws line with
       | "cfg" :: toks -> cfg := Some (parse_cfg toks)
       | "tab" :: toks -> tabs := parse_tab toks :: !tabs
       | "op" :: toks ->
         let c = (match !cfg with Some c -> c | None -> failwith "op before cfg") in
         ops := parse_op c toks :: !ops;
         (* the harness echoes "<name> <inst><rest of the line>" *)
         raws := String.concat " " toks :: !raws
       | _ -> ()
     done
   with End_of_file -> ());
  let cfg = match !cfg with Some c -> c | None -> failwith "no cfg line" in
  let tabs = List.rev !tabs and ops = List.rev !ops and raws = Array.of_list (List.rev !raws) in
  let orc_of (i : nat) : int oracle =
    let ii = int_of_nat i in
    table_oracle (List.filter_map (fun (inst, e) -> match inst with None -> Some e | Some k -> if k = ii then Some e else None) tabs) in
  (* is this script in the domain of the theorems: callback actions well formed (wf_oracle) and every operation in contract *)
  if not (table_okb cfg (List.map snd tabs)) then prerr_endline "contract: a callback table entry names a state id out of range";
  (match first_violation cfg orc_of O { insts = List.init 4 (fun _ -> None); glog = [] } ops with
   | None -> ()
   | Some k -> prerr_endline (Printf.sprintf "contract: operation %d is out of contract" (int_of_nat k)));
  let w = wrun cfg orc_of (nat_of_int 4) ops in
  let k = ref (-1) in
  List.iter (fun g ->
      match g with
      | GBegin _ -> incr k; Printf.printf "api %s begin\n" raws.(!k)
      | GEnd (op, r) ->
        (* plan.clear reports nothing to its caller; the harness prints 1 for it *)
        Printf.printf "api %s end ret=%s\n" raws.(!k) (ignore op; ret_str r)
      | GEv (i, e) -> print_event (int_of_nat i) e
      | GObs (i, o) -> print_obs cfg (int_of_nat i) o)
    (List.rev w.glog)
