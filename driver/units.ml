(* Unit-level model runner: same input and output text as harness/units_harness.cpp, every result
   computed by the extracted Coq model (driver/extracted/model.ml). Parsing and printing only. *)
open Model

let rec nat_of_int (i : int) : nat = if i <= 0 then O else S (nat_of_int (i - 1))
let rec int_of_nat (n : nat) : int = match n with O -> 0 | S m -> 1 + int_of_nat m
let rec pos_of_int (i : int) : positive =
  if i <= 1 then XH else if i land 1 = 0 then XO (pos_of_int (i lsr 1)) else XI (pos_of_int (i lsr 1))
let n_of_int (i : int) : n = if i <= 0 then N0 else Npos (pos_of_int i)
let rec int_of_pos (p : positive) : int = match p with XH -> 1 | XO q -> 2 * int_of_pos q | XI q -> 2 * int_of_pos q + 1
let int_of_n (x : n) : int = match x with N0 -> 0 | Npos p -> int_of_pos p

let split_ws s = List.filter (fun x -> x <> "") (String.split_on_char ' ' (String.trim s))
let parse_ops (s : string) : (string * int list) list =
  List.filter_map (fun part -> match split_ws part with
      | [] -> None
      | name :: args -> Some (name, List.map int_of_string args))
    (String.split_on_char ';' s)

let buf = Buffer.create 65536
let pr fmt = Printf.bprintf buf fmt
let args_str args = String.concat "" (List.map (fun a -> " " ^ string_of_int a) args)
let rec range a b = if a >= b then [] else a :: range (a + 1) b

(* ---- bit array ---- *)
let run_ba cap ops =
  let capn = n_of_int cap in
  let dump b =
    if cap > 5000 then begin     (* large arrays: the non-zero storage units of the model's byte list as unit:byte *)
      pr " nz="; List.iteri (fun u x -> let v = int_of_n x in if v <> 0 then pr "%d:%d," u v) b; pr " empty=%d" (if ba_empty b then 1 else 0) end
    else
    pr " bits=%s empty=%d" (String.concat "" (List.map (fun i -> if ba_get b (n_of_int i) then "1" else "0") (range 0 cap)))
      (if ba_empty b then 1 else 0) in
  let b = ref (ba_init capn) in
  pr "init"; dump !b; pr "\n";
  List.iter (fun (name, args) ->
      pr "%s%s" name (args_str args);
      (match name, args with
       | "set", [i] -> b := ba_set !b (n_of_int i)
       | "clr", [i] -> b := ba_clear !b (n_of_int i)
       | "get", [i] -> pr " ->%d" (if ba_get !b (n_of_int i) then 1 else 0)
       | "setall", _ -> b := ba_set_all capn !b
       | "clrall", _ -> b := ba_clear_all !b
       | "and", idx -> let o = List.fold_left (fun o i -> ba_set o (n_of_int i)) (ba_init capn) idx in b := ba_and_assign !b o
       | "andq", idx -> let o = List.fold_left (fun o i -> ba_set o (n_of_int i)) (ba_init capn) idx in pr " ->%d" (if ba_and !b o then 1 else 0)
       | "andall", _ -> b := ba_and_assign !b (ba_set_all capn (ba_init capn))
       | _ -> ());
      dump !b; pr "\n") ops

(* ---- arrays ---- *)
let run_sa cap ops =
  let dump a = pr " items=%s count=%d" (String.concat "," (List.map (fun i -> string_of_int (sa_get 0 a (nat_of_int i))) (range 0 cap))) (int_of_nat (length a)) in
  let a = ref (sa_init 0 (nat_of_int cap)) in
  pr "init"; dump !a; pr "\n";
  List.iter (fun (name, args) ->
      pr "%s%s" name (args_str args);
      (match name, args with
       | "set", [i; v] -> a := sa_set !a (nat_of_int i) v
       | "get", [i] -> pr " ->%d" (sa_get 0 !a (nat_of_int i))
       | "fill", [v] | "ctorfill", [v] -> a := sa_fill !a v
       | "isempty", _ -> pr " ->%d" (if List.for_all (fun i -> sa_get 0 !a (nat_of_int i) = 0) (range 0 cap) then 1 else 0)
       | "clear", _ -> a := sa_clear 0 !a
       | _ -> ());
      dump !a; pr "\n") ops

(* StaticArrayT<uint8_t, N>: value-initialised to 0, but clear() fills with filler<Short>() = 255 and empty() compares with it *)
let run_sa8 cap ops =
  let b v = ((v mod 256) + 256) mod 256 in
  let dump a = pr " items=%s count=%d" (String.concat "," (List.map (fun i -> string_of_int (sa_get 0 a (nat_of_int i))) (range 0 cap))) (int_of_nat (length a)) in
  let a = ref (sa_init 0 (nat_of_int cap)) in
  pr "init"; dump !a; pr "\n";
  List.iter (fun (name, args) ->
      pr "%s%s" name (args_str args);
      (match name, args with
       | "set", [i; v] -> a := sa_set !a (nat_of_int i) (b v)
       | "get", [i] -> pr " ->%d" (sa_get 0 !a (nat_of_int i))
       | "fill", [v] | "ctorfill", [v] -> a := sa_fill !a (b v)
       | "isempty", _ -> pr " ->%d" (if List.for_all (fun i -> sa_get 0 !a (nat_of_int i) = 255) (range 0 cap) then 1 else 0)
       | "clear", _ -> a := sa_clear 255 !a
       | _ -> ());
      dump !a; pr "\n") ops

let run_da cap ops =
  let dump a = pr " iter=%s count=%d empty=%d" (String.concat "," (List.map string_of_int (da_to_list 0 a))) (int_of_nat a.da_count) (if da_empty a then 1 else 0) in
  let a = ref (da_init 0 (nat_of_int cap)) in
  pr "init"; dump !a; pr "\n";
  List.iter (fun (name, args) ->
      pr "%s%s" name (args_str args);
      (match name, args with
       | "emp", [v] -> let (a', i) = da_emplace !a v in a := a'; pr " ->%d" (int_of_nat i)
       | "add", [v] | "addc", [v] -> a := da_append !a v
       | "emplv", [i] | "empc", [i] -> let (a', k) = da_emplace !a (da_get 0 !a (nat_of_int i)) in a := a'; pr " ->%d" (int_of_nat k)
       | "addlv", [i] -> a := da_append !a (da_get 0 !a (nat_of_int i))
       | "selfassign", _ | "copyback", _ | "copyctor", _ -> ()       (* copies of the array are the array: the model's value does not change *)
       | "addall2", vs -> let o = List.fold_left (fun o v -> fst (da_emplace o v)) (da_init 0 (nat_of_int 7)) vs in a := da_append_all 0 !a o
       | "get", [i] -> pr " ->%d" (da_get 0 !a (nat_of_int i))
       | "clear", _ -> a := da_clear !a
       | "addall", vs -> let o = List.fold_left (fun o v -> fst (da_emplace o v)) (da_init 0 (nat_of_int cap)) vs in a := da_append_all 0 !a o
       | _ -> ());
      dump !a; pr "\n") ops

(* ---- task list ---- *)
let run_tl cap ops =
  let capn = nat_of_int cap in
  let dump (l : unit tl) =
    pr " count=%d empty=%d slots=%s" (int_of_nat l.t_count) (if int_of_nat l.t_count = 0 then 1 else 0)
      (String.concat "," (List.map (fun i -> let s = get l.t_items (nat_of_int i) in
                                     Printf.sprintf "%d>%d" (int_of_nat s.s_prev) (int_of_nat s.s_next)) (range 0 cap))) in
  let l = ref (tl_init capn) in
  pr "init"; dump !l; pr "\n";
  List.iter (fun (name, args) ->
      pr "%s%s" name (args_str args);
      (match name, args with
       | "emp", [o; d] -> let (l', i) = emplace capn !l (nat_of_int o) (nat_of_int d) None in l := l'; pr " ->%d" (int_of_nat i)
       | "rem", [i] -> l := remove capn !l (nat_of_int i)
       | "clear", _ -> l := tl_clear !l
       | _ -> ());
      dump !l; pr "\n") ops

(* ---- bit stream ---- *)
let run_bs bits ops =
  let data = ref (List.map (fun _ -> n_of_int 0xEE) (buffer_clear (n_of_int bits))) in
  let wc = ref N0 and rc = ref N0 and shadow = ref [] in
  let dump () = pr " data=%s" (String.concat "" (List.map (fun b -> Printf.sprintf "%02x" (int_of_n b)) !data)) in
  List.iter (fun (name, args) ->
      pr "%s%s" name (args_str args);
      (match name, args with
       | "ws", [] -> data := buffer_clear (n_of_int bits); wc := N0; pr " cursor=%d" (int_of_n !wc)
       | "ws", [c] -> data := buffer_clear (n_of_int bits); wc := n_of_int c; pr " cursor=%d" (int_of_n !wc)      (* the constructor clears the whole buffer whatever the cursor *)
       | "dirty", [b] -> data := List.map (fun _ -> n_of_int b) !data
       | "w", [w; v] -> let (d, c) = write !data !wc (n_of_int w) (n_of_int v) in data := d; wc := c; pr " cursor=%d" (int_of_n !wc)
       | "snap", _ -> shadow := !data
       | "eq", _ -> let e = (List.map int_of_n !data = List.map int_of_n !shadow) in pr " ->%s%s" (if e then "1" else "0") (if e then "0" else "1")
       | "rs", [] -> rc := N0; pr " cursor=%d" (int_of_n !rc)
       | "rs", [c] -> rc := n_of_int c; pr " cursor=%d" (int_of_n !rc)
       | "r", [w] -> let (v, c) = read !data !rc (n_of_int w) in rc := c; pr " ->%d cursor=%d" (int_of_n v) (int_of_n !rc)
       | _ -> ());
      dump (); pr "\n") ops

let () =
  (try
     while true do
       let line = input_line stdin in
       match String.index_opt line ':' with
       | None -> ()
       | Some k ->
         let head = split_ws (String.sub line 0 k) in
         let ops = parse_ops (String.sub line (k + 1) (String.length line - k - 1)) in
         (match head with
          | [kind; cap] ->
            let cap = int_of_string cap in
            pr "test %s %d\n" kind cap;
            (match kind with
             | "bw" -> List.iter (fun (_, args) -> match args with [v] -> pr "bw %d ->%d\n" v (int_of_n (bitWidth (n_of_int v))) | _ -> ()) ops
             | "ba" -> run_ba cap ops
             | "sa" -> run_sa cap ops
             | "sa8" -> run_sa8 cap ops
             | "da" -> run_da cap ops
             | "tl" -> run_tl cap ops
             | "bs" -> run_bs cap ops
             | _ -> pr "unsupported\n")
          | _ -> ())
     done
   with End_of_file -> ());
  print_string (Buffer.contents buf)
