// C14 harness: one machine of H_N states (with or without a root head). For every k < H_N it requests a
// transition to id k and prints which state's callbacks ran (the compile-time index of the class), what the
// control reports as its id, what FSM::stateId<T>() says for that class, whether access<T>() is the very
// object whose callback ran and what the instance reports as active. The OCaml side (driver/units.ml, kind
// "dp") prints the same lines from the extracted model of the CS_ halving.
//   -DH_N=<states> -DH_HEAD=0|1 -DH_HEADER=<...>
#ifndef H_N
#define H_N 3
#endif
#ifndef H_HEAD
#define H_HEAD 1
#endif
#ifndef H_HEADER
#define H_HEADER <ffsm2/machine.hpp>
#endif
#include H_HEADER
#include <cstdio>
#include <string>

using M = ffsm2::MachineT<ffsm2::Config::ContextT<int>>;
template <int I> struct St;
struct RootS;
template <int... Is> struct Seq {};
template <int N, int... Is> struct MakeSeq : MakeSeq<N - 1, N - 1, Is...> {};
template <int... Is> struct MakeSeq<0, Is...> { using Type = Seq<Is...>; };
template <typename> struct Mk;
#if H_HEAD
template <int... Is> struct Mk<Seq<Is...>> { using Type = M::Root<RootS, St<Is>...>; };
#else
template <int... Is> struct Mk<Seq<Is...>> { using Type = M::PeerRoot<St<Is>...>; };
#endif
using FSM = Mk<MakeSeq<H_N>::Type>::Type;

static std::string g_out;
static const void* g_last_this = nullptr;
static int g_last_index = -1;

static void note(const char* what, int index, int ctlId, const void* self) {
	g_out += std::string(" ") + what + "=" + std::to_string(index) + "/" + std::to_string(ctlId);
	g_last_this = self; g_last_index = index;
}

template <int I> struct St : FSM::State {
	void entryGuard(GuardControl& c) { note("entryGuard", I, c.stateId(), this); }
	void enter(PlanControl& c) { note("enter", I, c.stateId(), this); }
	void reenter(PlanControl& c) { note("reenter", I, c.stateId(), this); }
	void preUpdate(FullControl& c) { note("preUpdate", I, c.stateId(), this); }
	void update(FullControl& c) { note("update", I, c.stateId(), this); }
	void postUpdate(FullControl& c) { note("postUpdate", I, c.stateId(), this); }
	void preReact(const int&, FullControl& c) { note("preReact", I, c.stateId(), this); }
	void react(const int&, FullControl& c) { note("react", I, c.stateId(), this); }
	void postReact(const int&, FullControl& c) { note("postReact", I, c.stateId(), this); }
	void query(int&, ConstControl& c) const { note("query", I, c.stateId(), this); }
	void exitGuard(GuardControl& c) { note("exitGuard", I, c.stateId(), this); }
	void exit(PlanControl& c) { note("exit", I, c.stateId(), this); }
};
struct RootS : FSM::State {
	void enter(PlanControl& c) { g_out += " rootEnter=" + std::to_string(int(c.stateId())); }
};

template <int I> static void probe(FSM::Instance& m) {
	// declared position, object identity
	const int sid = FSM::stateId<St<I>>();
	g_out += "k=" + std::to_string(I);
	m.immediateChangeTo(ffsm2::StateID(I));
	const bool self = g_last_index == I && static_cast<const void*>(&m.access<St<I>>()) == g_last_this;
	m.update();
	m.react(7);
	{ int e = 7; const FSM::Instance& cm = m; cm.query(e); }
	{ FSM::Instance copy{m}; g_out += " copy:"; copy.update(); }      // a copy taken in state I dispatches to state I as well
	g_out += " sid=" + std::to_string(sid) + " self=" + (self ? "1" : "0") + " active=" + std::to_string(int(m.activeStateId()))
		+ " isActive=" + (m.isActive(ffsm2::StateID(I)) ? "1" : "0") + (m.isActive<St<I>>() ? "1" : "0") + "\n";
}
template <int... Is> static void probeAll(FSM::Instance& m, Seq<Is...>) { int dummy[] = {0, (probe<Is>(m), 0)...}; (void) dummy; }

int main() {
	g_out += "n=" + std::to_string(H_N) + " head=" + std::to_string(H_HEAD) + " rootId=" + std::to_string(int(FSM::stateId<RootS>())) + " construct:";
	int ctx = 0; FSM::Instance m{ctx};
	g_out += " active=" + std::to_string(int(m.activeStateId())) + "\n";
	probeAll(m, MakeSeq<H_N>::Type{});
	fputs(g_out.c_str(), stdout);
	fflush(stdout);
	_Exit(0);
}
