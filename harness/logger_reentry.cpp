// C16, the one case the scripted harness cannot express: the logger is attached / detached *from inside a callback*
// (attachLogger() only stores a pointer; a debugging state that switches logging on while the machine is running is
// ordinary use). The program checks itself: at every delivery it knows whether a logger is attached at that moment,
// and requires the method record naming that state and method to be the entry immediately before the delivery exactly
// when one is attached. Prints "OK <deliveries> <records>" or "FAIL ..." lines.
//   -DH_HEADER='<ffsm2/machine.hpp>' | '<ffsm2/machine_dev.hpp>'  plus FFSM2_ENABLE_LOG_INTERFACE or FFSM2_ENABLE_VERBOSE_DEBUG_LOG
#ifndef H_HEADER
#define H_HEADER <ffsm2/machine.hpp>
#endif
#ifndef H_EVERY
#define H_EVERY 3      // the logger is toggled at every H_EVERY-th delivery
#endif
#include H_HEADER
#include <cstdio>
#include <string>
#include <vector>

struct Ctx {};
using Config = ffsm2::Config::ContextT<Ctx&>::ManualActivation;
using M = ffsm2::MachineT<Config>;
struct Head; struct A; struct B;
using FSM = M::Root<Head, A, B>;
struct Ev {};

struct Entry { bool rec; int sid; int meth; };
static std::vector<Entry> g_log;
static bool g_attached = false;
static int g_deliveries = 0, g_records = 0, g_fail = 0;
static void toggleLogger();     // defined once the state classes are complete
static bool g_running = false;

struct Logger : M::LoggerInterface {
	void recordMethod(const Context&, const StateID origin, const Method method) override { g_log.push_back({true, int(origin), int(method)}); ++g_records; }
};
static Logger g_logger;

static void delivered(int sid, ffsm2::Method meth) {
	++g_deliveries;
	const bool hasRec = !g_log.empty() && g_log.back().rec;
	if (g_attached) {
		if (!hasRec || g_log.back().sid != sid || g_log.back().meth != int(meth)) {
			printf("FAIL delivery %d: %s of state %d ran with a logger attached but the entry before it is %s\n", g_deliveries, ffsm2::methodName(meth), sid,
				   hasRec ? "the record of another delivery" : "not a method record"); ++g_fail; }
	} else if (hasRec) {
		printf("FAIL delivery %d: %s of state %d ran with no logger attached, yet a method record (%d, %s) was emitted just before it\n", g_deliveries, ffsm2::methodName(meth), sid,
			   g_log.back().sid, ffsm2::methodName(static_cast<ffsm2::Method>(g_log.back().meth))); ++g_fail; }
	g_log.push_back({false, sid, int(meth)});
	if (g_running && g_deliveries % H_EVERY == 0) toggleLogger();          // from inside the callback
}

#define CALLBACKS(SID) \
	void entryGuard(GuardControl&) { delivered(SID, ffsm2::Method::ENTRY_GUARD); } \
	void enter(PlanControl&) { delivered(SID, ffsm2::Method::ENTER); } \
	void reenter(PlanControl&) { delivered(SID, ffsm2::Method::REENTER); } \
	void preUpdate(FullControl&) { delivered(SID, ffsm2::Method::PRE_UPDATE); } \
	void update(FullControl& c) { delivered(SID, ffsm2::Method::UPDATE); step(c); } \
	void postUpdate(FullControl&) { delivered(SID, ffsm2::Method::POST_UPDATE); } \
	void preReact(const Ev&, FullControl&) { delivered(SID, ffsm2::Method::PRE_REACT); } \
	void react(const Ev&, FullControl& c) { delivered(SID, ffsm2::Method::REACT); step(c); } \
	void postReact(const Ev&, FullControl&) { delivered(SID, ffsm2::Method::POST_REACT); } \
	void query(Ev&, ConstControl&) const { delivered(SID, ffsm2::Method::QUERY); } \
	void exitGuard(GuardControl&) { delivered(SID, ffsm2::Method::EXIT_GUARD); } \
	void exit(PlanControl&) { delivered(SID, ffsm2::Method::EXIT); }

static int g_step = 0;
struct Head : FSM::State { void step(FullControl&) {} CALLBACKS(255) };
struct A : FSM::State { void step(FullControl& c) { if (++g_step % 2 == 0) c.changeTo<B>(); } CALLBACKS(0) };
struct B : FSM::State { void step(FullControl& c) { if (++g_step % 3 == 0) c.changeTo<A>(); else if (g_step % 5 == 0) c.changeTo<B>(); } CALLBACKS(1) };

static FSM::Instance* g_machine = nullptr;
static void toggleLogger() { g_attached = !g_attached; g_machine->attachLogger(g_attached ? &g_logger : nullptr); }

int main() {
	Ctx ctx;
	FSM::Instance machine{ctx};
	g_machine = &machine; g_running = true;
	machine.enter();
	for (int k = 0; k < 12; ++k) {
		machine.update();
		if (k % 2) machine.react(Ev{});
		if (k % 3 == 0) { Ev e; const FSM::Instance& cm = machine; cm.query(e); }
		if (k % 4 == 1) machine.immediateChangeTo<A>();
		if (k % 5 == 2) { machine.changeTo<B>(); }
	}
	machine.exit();
	if (g_fail == 0 && g_deliveries > 100 && g_records > 30) printf("OK %d %d\n", g_deliveries, g_records);
	else if (g_fail == 0) printf("FAIL the scenario is too short: %d deliveries, %d records\n", g_deliveries, g_records);
	return 0;
}
