// Scripted machine harness for the correspondence check (see DESIGN.md, section 4 and appendix A).
// One translation unit, parameterised by macros; reads a script on stdin, drives real FFSM2
// instances, prints a canonical trace on stdout. Everything observed goes through the public API.
//
//   -DH_HEADER='<ffsm2/machine.hpp>' | '<ffsm2/machine_dev.hpp>'
//   -DH_N=<states> -DH_HEAD=0|1 -DH_MANUAL=0|1 -DH_LIMIT=<n> -DH_CAP=<n>
//   -DH_PAYLOAD=0 (none) |1 (1-byte struct) |2 (int) |3 (double) |4 (3-byte struct) |5 (alignas(16) 24-byte struct)
//   -DH_CTX=0 (value) |1 (reference) |2 (pointer) |3 (no ContextT<> at all: EmptyContext; one instance only)
//   -DH_CONSTCB=1: the state classes declare their callbacks const (all but preReact/react/postReact, which the library only accepts non-const when logging is compiled in)
//   -DH_INJ_ROOT=<k> -DH_INJ_STATE=<k> -DH_DEFROOT=<mask> -DH_DEFSTATE=<mask>
//   plus the library's own FFSM2_ENABLE_* switches.
#ifndef H_N
#define H_N 3
#endif
#ifndef H_HEAD
#define H_HEAD 1
#endif
#ifndef H_MANUAL
#define H_MANUAL 0
#endif
#ifndef H_LIMIT
#define H_LIMIT 4
#endif
#ifndef H_CAP
#define H_CAP 3
#endif
#ifndef H_PAYLOAD
#define H_PAYLOAD 0
#endif
#ifndef H_CTX
#define H_CTX 0
#endif
#ifndef H_VIRT
#define H_VIRT 0
#endif
#ifndef H_INJ_ROOT
#define H_INJ_ROOT 0
#endif
#ifndef H_INJ_STATE
#define H_INJ_STATE 0
#endif
#ifndef H_DEFROOT
#define H_DEFROOT 0x3fff
#endif
#ifndef H_DEFSTATE
#define H_DEFSTATE 0x3fff
#endif
#ifndef H_TAPI
#define H_TAPI 0       // 1: use the template overloads of the API (changeTo<T>(), isActive<T>(), plan.change<A, B>(), ...) instead of the StateID ones
#endif
#ifndef H_SDATA
#define H_SDATA 0      // 1: every state object carries a data member (a callback counter) that the obs line reports: copies must carry it along
#endif
#ifndef H_CONSTCB
#define H_CONSTCB 0    // 1: every callback of the state classes (not of the injected bases) is a const member function
#endif
#ifndef H_VIRT
#define H_VIRT 0       // 1: the injected bases declare their callbacks virtual; the library's own stubs then override them with noexcept functions, so the states' callbacks are noexcept too
#endif
#if H_VIRT
#define NX noexcept
#else
#define NX
#endif
#if H_CONSTCB
#define CQ const NX
#else
#define CQ NX
#endif
#ifndef H_HEADER
#define H_HEADER <ffsm2/machine.hpp>
#endif

#include H_HEADER

#include <cstdio>
#include <cstdlib>
#include <cstring>
#include <string>
#include <vector>
#include <sstream>
#include <iostream>
#include <new>

#ifdef H_COUNT_ALLOC
// C18: count heap traffic while an FFSM2 call is in progress
static long g_allocs = 0; static bool g_in_call = false;
void* operator new(std::size_t n) { if (g_in_call) ++g_allocs; void* p = std::malloc(n ? n : 1); if (!p) std::abort(); return p; }
void* operator new[](std::size_t n) { if (g_in_call) ++g_allocs; void* p = std::malloc(n ? n : 1); if (!p) std::abort(); return p; }
void operator delete(void* p) noexcept { if (g_in_call) ++g_allocs; std::free(p); }
void operator delete[](void* p) noexcept { if (g_in_call) ++g_allocs; std::free(p); }
void operator delete(void* p, std::size_t) noexcept { if (g_in_call) ++g_allocs; std::free(p); }
void operator delete[](void* p, std::size_t) noexcept { if (g_in_call) ++g_allocs; std::free(p); }
#endif

#if defined(FFSM2_ENABLE_PLANS)
#define H_PLANS 1
#else
#define H_PLANS 0
#endif
#if defined(FFSM2_ENABLE_SERIALIZATION)
#define H_SERIAL 1
#else
#define H_SERIAL 0
#endif
#if defined(FFSM2_ENABLE_TRANSITION_HISTORY)
#define H_HISTORY 1
#else
#define H_HISTORY 0
#endif
#if defined(FFSM2_ENABLE_LOG_INTERFACE) || defined(FFSM2_ENABLE_VERBOSE_DEBUG_LOG)
#define H_LOG 1
#else
#define H_LOG 0
#endif

enum Meth { M_entryGuard, M_enter, M_reenter, M_preUpdate, M_update, M_postUpdate, M_preReact, M_react, M_postReact,
			M_query, M_exitGuard, M_exit, M_planSucceeded, M_planFailed, M_COUNT };
static const char* const METH[] = {"entryGuard","enter","reenter","preUpdate","update","postUpdate","preReact","react","postReact",
								   "query","exitGuard","exit","planSucceeded","planFailed"};
static int methIndex(const std::string& s) { for (int i = 0; i < M_COUNT; ++i) if (s == METH[i]) return i; return -1; }

// ---- payloads: the script names a payload by one byte p; byte i of the object is (p + 37 i) & 0xff ----
struct B1 { unsigned char b; };     // (PayloadT<uint8_t> itself does not compile: Transition{origin, destination} is ambiguous with {destination, payload})
struct B3 { unsigned char b[3]; };
struct alignas(16) A16 { unsigned char b[24]; };
#if H_PAYLOAD == 1
using Payload = B1;
#elif H_PAYLOAD == 2
using Payload = int;
#elif H_PAYLOAD == 3
using Payload = double;
#elif H_PAYLOAD == 4
using Payload = B3;
#elif H_PAYLOAD == 5
using Payload = A16;
#endif
#if H_PAYLOAD
static Payload mkPayload(int p) { Payload x; unsigned char* b = reinterpret_cast<unsigned char*>(&x); for (size_t i = 0; i < sizeof(Payload); ++i) b[i] = static_cast<unsigned char>((p + 37 * int(i)) & 0xff); return x; }
static std::string payloadStr(const Payload* x) {
	if (!x) return "-";
	if (reinterpret_cast<uintptr_t>(x) % alignof(Payload) != 0) return "MISALIGNED";
	const unsigned char* b = reinterpret_cast<const unsigned char*>(x); int p = b[0];
	for (size_t i = 0; i < sizeof(Payload); ++i) if (b[i] != static_cast<unsigned char>((p + 37 * int(i)) & 0xff)) return "CORRUPT";
	return std::to_string(p);
}
#endif

// ---- script ----
struct Act { std::string op; int a = -1, b = -1, p = 0; bool self = false; };
struct Entry {
	int inst = -1;              // -1 any
	int who = -2;               // -2 any, -3 any state, -1 root, k state
	int rec = -2;               // -2 any, -1 own, i injection
	int meth = -1;              // -1 any
	int occ = -1, modM = -1, modR = -1, pend = -1, cur = -1, active = -1;
	std::vector<Act> acts;
};
struct Script {
	std::vector<Entry> table;
	std::string trace;
	// occurrence counters per instance, who (root = 256), recipient (own = 0, injection i = i + 1), method
	int counts[4][257][9][M_COUNT];
	Script() { memset(counts, 0, sizeof counts); }
};
static Script g_script;
static const void* g_event_addr = nullptr;

struct Ctx { int inst = 0; };
struct Ev { int v; };

#if H_CTX == 0
using CtxT = Ctx;
#elif H_CTX == 1
using CtxT = Ctx&;
#elif H_CTX == 2
using CtxT = Ctx*;
#endif
static const Ctx& ctxRef(const Ctx& c) { return c; }
static const Ctx& ctxRef(const Ctx* c) { return *c; }
#if H_CTX == 3
static const Ctx g_ctx0{};                                                   // there is no context object: every callback belongs to instance 0
static const Ctx& ctxRef(const ffsm2::EmptyContext&) { return g_ctx0; }
#endif

#if H_MANUAL
#define CFG_MANUAL ::ManualActivation
#else
#define CFG_MANUAL
#endif
#if H_PAYLOAD
#define CFG_PAYLOAD ::PayloadT<Payload>
#else
#define CFG_PAYLOAD
#endif
#if H_PLANS && H_CAP > 0
#define CFG_CAP ::TaskCapacityN<H_CAP>
#else
#define CFG_CAP            // H_CAP = 0: no TaskCapacityN<> at all - the library then takes the number of states as the task capacity
#endif
#define H_CAP_EFFECTIVE (H_CAP > 0 ? H_CAP : H_N)
#ifndef H_ORDER
#define H_ORDER 0      // the order in which the configuration options are chained: 0 = context, activation, limit, capacity, payload; 1 = payload, capacity, limit, activation, context
#endif
#if H_CTX == 3
#if H_ORDER
using Config = ffsm2::Config CFG_PAYLOAD CFG_CAP ::SubstitutionLimitN<H_LIMIT> CFG_MANUAL;
#else
using Config = ffsm2::Config CFG_MANUAL ::SubstitutionLimitN<H_LIMIT> CFG_CAP CFG_PAYLOAD;
#endif
#else
#if H_ORDER
using Config = ffsm2::Config CFG_PAYLOAD CFG_CAP ::SubstitutionLimitN<H_LIMIT> CFG_MANUAL ::ContextT<CtxT>;
#else
using Config = ffsm2::Config::ContextT<CtxT> CFG_MANUAL ::SubstitutionLimitN<H_LIMIT> CFG_CAP CFG_PAYLOAD;
#endif
#endif
using M = ffsm2::MachineT<Config>;

template <int I> struct St;
struct RootS;
template <int... Is> struct Seq {};
template <int N, int... Is> struct MakeSeq : MakeSeq<N - 1, N - 1, Is...> {};
template <int... Is> struct MakeSeq<0, Is...> { using Type = Seq<Is...>; };
template <typename> struct Mk;
#if H_HEAD
template <int... Is> struct Mk<Seq<Is...>> { using Type = M::Root<RootS, St<Is>...>; };
#else
template <int... Is> struct Mk<Seq<Is...>> { using Type = M::PeerRoot<St<Is>...>; };
#endif
using FSM = Mk<MakeSeq<H_N>::Type>::Type;
using Transition = M::Transition;

#if H_TAPI
// run f.call<St<id>>() for a run-time id: lets the script drive the template overloads of the API
template <typename F, int... Is> static void withStateImpl(int id, F& f, Seq<Is...>) { int d[] = {0, (id == Is ? (f.template call<St<Is>>(), 0) : 0)...}; (void) d; }
template <typename F> static void withState(int id, F& f) { withStateImpl(id, f, MakeSeq<H_N>::Type{}); }
template <typename C> struct FIsActive { const C& c; bool r; template <typename T> void call() { r = c.template isActive<T>(); } };
template <typename C> static bool isActiveT(const C& c, int k) { FIsActive<C> f{c, false}; withState(k, f); return f.r; }
template <typename C> struct FChangeTo { C& c; template <typename T> void call() { c.template changeTo<T>(); } };
template <typename C> struct FImmChangeTo { C& c; template <typename T> void call() { c.template immediateChangeTo<T>(); } };
template <typename C> struct FSucceed { C& c; template <typename T> void call() { c.template succeed<T>(); } };
template <typename C> struct FFail { C& c; template <typename T> void call() { c.template fail<T>(); } };
#if H_PAYLOAD
template <typename C> struct FChangeWith { C& c; const Payload& p; template <typename T> void call() { c.template changeWith<T>(p); } };
template <typename C> struct FImmChangeWith { C& c; const Payload& p; template <typename T> void call() { c.template immediateChangeWith<T>(p); } };
#endif
#if H_PLANS
template <typename TPlan, typename TO> struct FPlanDest { TPlan& plan; bool r; template <typename TD> void call() { r = plan.template change<TO, TD>(); } };
template <typename TPlan> struct FPlanOrigin { TPlan& plan; int d; bool r; bool half; template <typename TO> void call() {
	if (half) r = plan.template change<TO>(ffsm2::StateID(d));
	else { FPlanDest<TPlan, TO> g{plan, false}; withState(d, g); r = g.r; } } };
#if H_PAYLOAD
template <typename TPlan, typename TO> struct FPlanDestW { TPlan& plan; const Payload& p; bool r; template <typename TD> void call() { r = plan.template changeWith<TO, TD>(p); } };
template <typename TPlan> struct FPlanOriginW { TPlan& plan; int d; const Payload& p; bool r; bool half; template <typename TO> void call() {
	if (half) r = plan.template changeWith<TO>(ffsm2::StateID(d), p);
	else { FPlanDestW<TPlan, TO> g{plan, p, false}; withState(d, g); r = g.r; } } };
#endif
#endif
#endif

static Ctx g_ctx[4];               // external context objects for reference / pointer contexts
static const void* g_ctx_addr[4] = {nullptr, nullptr, nullptr, nullptr};   // where instance i's own context lives

// ---- printing ----
static std::string tstr(const Transition& t) {
	// an invalid transition is "-"; if it still carries an origin or a payload (clear() resets the destination only) that is shown too
	if (!t) {
#if H_PAYLOAD
		const bool pay = t.payload() != nullptr;
#else
		const bool pay = false;
#endif
		if (t.origin == ffsm2::INVALID_STATE_ID && !pay) return "-";
		std::ostringstream o; o << "-[" << int(t.origin) << ":";
#if H_PAYLOAD
		o << payloadStr(t.payload());
#else
		o << "-";
#endif
		o << "]"; return o.str();
	}
	std::ostringstream o; o << int(t.origin) << ">" << int(t.destination) << ":";
#if H_PAYLOAD
	o << payloadStr(t.payload());
#else
	o << "-";
#endif
	return o.str();
}
#if H_PLANS
template <typename TTask> static std::string taskStr(const TTask& t) {
	std::ostringstream o; o << int(t.origin) << ">" << int(t.destination) << ":";
#if H_PAYLOAD
	o << payloadStr(t.payload());
#else
	o << "-";
#endif
	return o.str();
}
template <typename TPlan> static std::string pstr(TPlan plan) {
	std::ostringstream o; o << "[";
	bool first = true; int guard = 0;
	for (auto it = plan.begin(); it && guard < 600; ++it, ++guard) { if (!first) o << ","; first = false; o << taskStr(*it); }
	if (guard >= 600) o << ",LOOP";
	o << "]"; return o.str();
}
#endif

struct KConst {}; struct KPlan {}; struct KFull {}; struct KGuard {};

template <typename C> static std::string viewCommon(const C& c) {
	std::ostringstream o; o << " id=" << int(c.stateId()) << " act=";
#if H_TAPI
	for (int k = 0; k < H_N; ++k) o << (isActiveT(c, k) ? '1' : '0');
#else
	for (int k = 0; k < H_N; ++k) o << (c.isActive(ffsm2::StateID(k)) ? '1' : '0');
#endif
	o << " req=" << tstr(c.request());
	return o.str();
}
template <typename C> static std::string planField(C& c) {
#if H_PLANS
	return " plan=" + pstr(c.plan());
#else
	(void) c; return " plan=[]";
#endif
}
template <typename C> static std::string view(C& c, KConst) { return viewCommon(c) + " cur=- pend=- plan=[]"; }
template <typename C> static std::string view(C& c, KPlan)  { return viewCommon(c) + " cur=" + tstr(c.currentTransition()) + " pend=-" + planField(c); }
template <typename C> static std::string view(C& c, KFull)  { return view(c, KPlan{}); }
template <typename C> static std::string view(C& c, KGuard) { return viewCommon(c) + " cur=" + tstr(c.currentTransition()) + " pend=" + tstr(c.pendingTransition()) + planField(c); }


// ---- cross-checks of API forms no script drives directly (DESIGN.md, "API surface"): every accessor / overload / iterator flavour that must
// agree with the one the trace records is compared with it here; a disagreement appends " APIX=<property>:<what>" to the line (the model never
// prints such a token, so it is both a divergence and - for the check of that property - a concrete failing input) ----
#if H_HISTORY
static const Transition* instPrev(int inst);       // &instance.previousTransition(), or nullptr while the instance is still being constructed
#endif
template <typename C> static void apixCommon(const C& c, std::string& x) {
#if H_HISTORY
	{ const Transition* ip = instPrev(ctxRef(c.context()).inst); if (ip && &c.previousTransitions() != ip) x += " APIX=C11:control-previousTransitions"; }
#endif
	if (&c._() != &c.context()) x += " APIX=C06:underscore-accessor";
	const Transition& r = c.request();
	if (!(r == r) || (r != r)) x += " APIX=C07:transition-self-equality";
	const Transition none{};
	if ((r == none) == (r != none)) x += " APIX=C07:transition-eq-vs-neq";
	if (c.template stateId<St<0>>() != 0 || c.template stateId<St<H_N - 1>>() != H_N - 1) x += " APIX=C14:control-stateId-of-type";
}
template <typename C> static void apixMutable(C& c, std::string& x) {
	if (&c._() != &c.context()) x += " APIX=C06:underscore-accessor-mutable";
	const C& cc = c;
	if (&cc.context() != &c.context() || &cc._() != &c._()) x += " APIX=C06:const-context-accessor";
}
#if H_PLANS
template <typename TPlanLike> static std::string pstrEnd(TPlanLike& plan) {          // the same walk, but reading through operator-> and naming end()
	std::ostringstream o; o << "["; bool first = true; int guard = 0;
	auto e = plan.end(); (void) e;
	for (auto it = plan.begin(); it && guard < 600; ++it, ++guard) { if (!first) o << ","; first = false; o << int(it->origin) << ">" << int(it->destination) << ":";
#if H_PAYLOAD
		o << payloadStr(it->payload());
#else
		o << "-";
#endif
	}
	if (guard >= 600) o << ",LOOP";
	o << "]"; return o.str();
}
template <typename C> static void apixPlan(C& c, std::string& x) {
	auto plan = c.plan();                                  // PlanT / PayloadPlanT through the non-const control
	const std::string viaIt = pstr(plan);
	const auto& cplanT = plan;                             // const PlanT&: begin() const / end() const, CIterator
	std::string viaC; { std::ostringstream o; o << "["; bool first = true; int guard = 0; auto e = cplanT.end(); (void) e;
		for (auto it = cplanT.begin(); it && guard < 600; ++it, ++guard) { if (!first) o << ","; first = false; o << taskStr(*it); if (it->origin != (*it).origin) o << "ARROW"; }
		o << "]"; viaC = o.str(); }
	const C& cc = c; auto cplan = cc.plan();               // CPlanT through the const control
	const std::string viaCPlan = pstrEnd(cplan);
	const std::string viaArrow = pstrEnd(plan);
	if (viaC != viaIt) x += " APIX=C10:const-iterator[" + viaC + "]";
	if (viaCPlan != viaIt) x += " APIX=C10:const-control-plan[" + viaCPlan + "]";
	if (viaArrow != viaIt) x += " APIX=C10:iterator-arrow[" + viaArrow + "]";
	if (static_cast<bool>(cplan) != (viaIt != "[]")) x += " APIX=C10:cplan-bool";
}
#endif
template <typename C> static std::string apix(C& c, KConst) { std::string x; apixCommon(c, x); return x; }
template <typename C> static std::string apix(C& c, KPlan) { std::string x; apixCommon(c, x); apixMutable(c, x);
#if H_PLANS
	apixPlan(c, x);
#endif
	return x; }
template <typename C> static std::string apix(C& c, KFull) { return apix(c, KPlan{}); }
template <typename C> static std::string apix(C& c, KGuard) { return apix(c, KPlan{}); }

template <typename C> static int pendDest(C&, KConst) { return -1; }
template <typename C> static int pendDest(C&, KPlan) { return -1; }
template <typename C> static int pendDest(C&, KFull) { return -1; }
template <typename C> static int pendDest(C& c, KGuard) { return c.pendingTransition().destination; }
template <typename C> static int curDest(C&, KConst) { return -1; }
template <typename C> static int curDest(C& c, KPlan) { return c.currentTransition().destination; }
template <typename C> static int curDest(C& c, KFull) { return c.currentTransition().destination; }
template <typename C> static int curDest(C& c, KGuard) { return c.currentTransition().destination; }

static std::string actStr(const Act& a) {
	std::ostringstream o; o << a.op;
	if (a.op == "change") o << " " << a.a;
	else if (a.op == "changeWith") o << " " << a.a << " " << a.p;
	else if (a.op == "succeed" || a.op == "fail") { if (a.self) o << " self"; else o << " " << a.a; }
	else if (a.op == "plan.append") o << " " << a.a << " " << a.b;
	else if (a.op == "plan.appendWith") o << " " << a.a << " " << a.b << " " << a.p;
	else if (a.op == "plan.removeAt") o << " " << a.a;
	return o.str();
}

// ---- performing scripted actions through a control ----
template <typename TPlan> static std::string doPlanOn(TPlan plan, const Act& a) {
#if H_PLANS
#if H_TAPI
	// alternate between plan.change<O, D>() and plan.change<O>(destination) by the parity of the destination
	if (a.op == "plan.append") { FPlanOrigin<TPlan> f{plan, a.b, false, (a.b & 1) != 0}; withState(a.a, f); return f.r ? "ok" : "full"; }
#if H_PAYLOAD
	if (a.op == "plan.appendWith") { const Payload pl = mkPayload(a.p); FPlanOriginW<TPlan> f{plan, a.b, pl, false, (a.b & 1) != 0}; withState(a.a, f); return f.r ? "ok" : "full"; }
#endif
#else
	if (a.op == "plan.append") return plan.change(ffsm2::StateID(a.a), ffsm2::StateID(a.b)) ? "ok" : "full";
#if H_PAYLOAD
	if (a.op == "plan.appendWith") return plan.changeWith(ffsm2::StateID(a.a), ffsm2::StateID(a.b), mkPayload(a.p)) ? "ok" : "full";
#endif
#endif
	if (a.op == "plan.clear") { plan.clear(); return "ok"; }
	if (a.op == "plan.removeAt") {
		std::string seen = "seen["; int k = 0; bool first = true; int guard = 0;
		for (auto it = plan.begin(); it && guard < 600; ++it, ++k, ++guard) {
			if (!first) seen += ","; first = false; seen += taskStr(*it);
			if (k == a.a) it.remove();
		}
		return seen + "]";
	}
#else
	(void) plan; (void) a;
#endif
	return "ignored";
}
template <typename C> static std::string doPlan(C& c, const Act& a) {
#if H_PLANS
	return doPlanOn(c.plan(), a);
#else
	(void) c; (void) a; return "ignored";
#endif
}
template <typename C> static bool doFull(C& c, const Act& a, int self, std::string& res) {
#if H_TAPI
	if (a.op == "change") { FChangeTo<C> f{c}; withState(a.a, f); res = "ok"; return true; }
#else
	if (a.op == "change") { c.changeTo(ffsm2::StateID(a.a)); res = "ok"; return true; }
#endif
	if (a.op == "changeWith") {
#if H_PAYLOAD
		{
			// re-targeting a request: when the pending request already carries this very payload the caller passes that object on, so the
			// argument aliases the request that changeWith() is about to overwrite (same bytes either way; the model sees no difference)
			const Payload pl = mkPayload(a.p);
			const Payload* const pending = c.request().payload();
			const Payload& arg = (pending && std::memcmp(pending, &pl, sizeof(Payload)) == 0) ? *pending : pl;
#if H_TAPI
			FChangeWith<C> f{c, arg}; withState(a.a, f);
#else
			c.changeWith(ffsm2::StateID(a.a), arg);
#endif
		}
		res = "ok";
#else
		res = "ignored";
#endif
		return true;
	}
	if (a.op == "succeed" || a.op == "fail") {
#if H_PLANS
		const int sid = a.self ? self : a.a;
		if (sid == 255) { res = "ignored"; return true; }     // the root head has no report bit (asserted precondition)
#if H_TAPI
		if (a.self) { if (a.op == "succeed") c.succeed(); else c.fail(); }          // the argument-free forms report for the calling state
		else if (a.op == "succeed") { FSucceed<C> f{c}; withState(sid, f); } else { FFail<C> f{c}; withState(sid, f); }
#else
		if (a.op == "succeed") c.succeed(ffsm2::StateID(sid)); else c.fail(ffsm2::StateID(sid));
#endif
		res = "ok";
#else
		(void) self; res = "ignored";
#endif
		return true;
	}
	return false;
}
template <typename C> static std::string perform(C&, const Act&, int, KConst) { return "ignored"; }
template <typename C> static std::string perform(C& c, const Act& a, int, KPlan) { return doPlan(c, a); }
template <typename C> static std::string perform(C& c, const Act& a, int self, KFull) { std::string r; if (doFull(c, a, self, r)) return r; return doPlan(c, a); }
template <typename C> static std::string perform(C& c, const Act& a, int self, KGuard) {
	if (a.op == "cancel") { c.cancelPendingTransition(); return "ok"; }
	std::string r; if (doFull(c, a, self, r)) return r; return doPlan(c, a);
}

static std::string whoStr(int who) { return who < 0 ? "R" : "S" + std::to_string(who); }
static std::string recStr(int rec) { return rec < 0 ? "own" : "I" + std::to_string(rec); }

template <typename C> static int instOf(const C& c) { return ctxRef(c.context()).inst; }

static bool g_state_side_bad = false;      // FSM::State::stateId<St<I>>() (the helper states inherit) disagreed with the declaration index
template <typename C, typename K> static void on(int who, int rec, int meth, C& c, K k, const void* ev = nullptr) {
	Script& s = g_script;
	const int inst = instOf(c);
	std::ostringstream head; head << "cb " << inst << " " << whoStr(who) << " " << recStr(rec) << " " << METH[meth];
	s.trace += head.str(); s.trace += view(c, k);
	// object identity: the machine's own context; the caller's own event object
	// (for a value context the address is learnt from the first callback and checked against the instance after the call)
#if H_CTX == 3
	const bool ctxOk = true;
#else
	if (!g_ctx_addr[inst]) g_ctx_addr[inst] = &ctxRef(c.context());
	const bool ctxOk = &ctxRef(c.context()) == g_ctx_addr[inst];
#endif
	s.trace += ctxOk ? " ctx=1" : " ctx=0";
	if (meth >= M_preReact && meth <= M_query) s.trace += (ev == g_event_addr) ? " ev=1" : " ev=0";
	s.trace += apix(c, k);
	if (g_state_side_bad) { s.trace += " APIX=C14:state-side-stateId"; g_state_side_bad = false; }
	s.trace += "\n";
	// a machine that never stops calling back (a broken substitution limit) must not eat the sandbox's memory
	if (s.trace.size() > (24u << 20)) { fputs(s.trace.substr(0, 1u << 20).c_str(), stdout); fputs("\nrunaway: more than 24 MB of trace inside one API call\n", stderr); fflush(stdout); _Exit(97); }
	const int occ = s.counts[inst][who < 0 ? 256 : who][rec + 1][meth]++;
	const int pd = pendDest(c, k), cd = curDest(c, k);
	for (auto& e : s.table) {
		if (e.inst != -1 && e.inst != inst) continue;
		if (e.who == -3) { if (who < 0) continue; } else if (e.who != -2 && e.who != who) continue;
		if (e.rec != -2 && e.rec != rec) continue;
		if (e.meth != -1 && e.meth != meth) continue;
		if (e.occ != -1 && e.occ != occ) continue;
		if (e.modM != -1 && (e.modM == 0 || occ % e.modM != e.modR)) continue;
		if (e.pend != -1 && e.pend != pd) continue;
		if (e.cur != -1 && e.cur != cd) continue;
		if (e.active != -1 && !(e.active < H_N && c.isActive(ffsm2::StateID(e.active)))) continue;
		for (auto& a : e.acts) {
			const std::string res = perform(c, a, who < 0 ? 255 : who, k);
			s.trace += "did " + std::to_string(inst) + " " + actStr(a) + " -> " + res + "\n";
		}
		break;
	}
}

// ---- states ----
#define DEF(mask, bit) (((mask) >> (bit)) & 1)
#define CALLBACKS(MASK, WHO, REC) \
	void entryGuard_(GuardControl& c) const { on(WHO, REC, M_entryGuard, c, KGuard{}); } \
	void enter_(PlanControl& c) const { on(WHO, REC, M_enter, c, KPlan{}); } \
	void reenter_(PlanControl& c) const { on(WHO, REC, M_reenter, c, KPlan{}); } \
	void preUpdate_(FullControl& c) const { on(WHO, REC, M_preUpdate, c, KFull{}); } \
	void update_(FullControl& c) const { on(WHO, REC, M_update, c, KFull{}); } \
	void postUpdate_(FullControl& c) const { on(WHO, REC, M_postUpdate, c, KFull{}); } \
	void preReact_(const Ev& e, FullControl& c) const { on(WHO, REC, M_preReact, c, KFull{}, &e); } \
	void react_(const Ev& e, FullControl& c) const { on(WHO, REC, M_react, c, KFull{}, &e); } \
	void postReact_(const Ev& e, FullControl& c) const { on(WHO, REC, M_postReact, c, KFull{}, &e); } \
	void query_(Ev& e, ConstControl& c) const { on(WHO, REC, M_query, c, KConst{}, &e); } \
	void exitGuard_(GuardControl& c) const { on(WHO, REC, M_exitGuard, c, KGuard{}); } \
	void exit_(PlanControl& c) const { on(WHO, REC, M_exit, c, KPlan{}); }

// an injected base defines every callback.  -DH_VIRT=1: declares them virtual (user code may: a common base with overridable hooks); the state's
// callbacks of the same signature then override them, and the library must still deliver to the injected base itself, not to the final overrider
#if H_VIRT
#define VQ virtual
#else
#define VQ
#endif
template <int W, int J> struct InjT : FSM::State {
	CALLBACKS(0x3fff, W, J)
	VQ void entryGuard(GuardControl& c) { entryGuard_(c); }
	VQ void enter(PlanControl& c) { enter_(c); }
	VQ void reenter(PlanControl& c) { reenter_(c); }
	VQ void preUpdate(FullControl& c) { preUpdate_(c); }
	VQ void update(FullControl& c) { update_(c); }
	VQ void postUpdate(FullControl& c) { postUpdate_(c); }
	VQ void preReact(const Ev& e, FullControl& c) { preReact_(e, c); }
	VQ void react(const Ev& e, FullControl& c) { react_(e, c); }
	VQ void postReact(const Ev& e, FullControl& c) { postReact_(e, c); }
	VQ void query(Ev& e, ConstControl& c) const { query_(e, c); }
	VQ void exitGuard(GuardControl& c) { exitGuard_(c); }
	VQ void exit(PlanControl& c) { exit_(c); }
};
template <int W, typename> struct BaseOf;
template <int W, int... Js> struct BaseOf<W, Seq<Js...>> { using Type = FSM::StateT<InjT<W, Js>...>; };
template <int W> struct BaseOf<W, Seq<>> { using Type = FSM::State; };

#if H_SDATA
#define BUMP ++hits; selfId();
#else
#define BUMP selfId();
#endif
template <int I> struct St : BaseOf<I, MakeSeq<H_INJ_STATE>::Type>::Type {
	using Base = typename BaseOf<I, MakeSeq<H_INJ_STATE>::Type>::Type;
	mutable unsigned hits = 0;
	void selfId() const { if (Base::template stateId<St<I>>() != I || Base::template stateId<St<0>>() != 0) g_state_side_bad = true; }
	using typename Base::GuardControl; using typename Base::PlanControl; using typename Base::FullControl; using typename Base::ConstControl;
	CALLBACKS(H_DEFSTATE, I, -1)
#if DEF(H_DEFSTATE, 0)
	void entryGuard(GuardControl& c) CQ { BUMP entryGuard_(c); }
#endif
#if DEF(H_DEFSTATE, 1)
	void enter(PlanControl& c) CQ { BUMP enter_(c); }
#endif
#if DEF(H_DEFSTATE, 2)
	void reenter(PlanControl& c) CQ { BUMP reenter_(c); }
#endif
#if DEF(H_DEFSTATE, 3)
	void preUpdate(FullControl& c) CQ { BUMP preUpdate_(c); }
#endif
#if DEF(H_DEFSTATE, 4)
	void update(FullControl& c) CQ { BUMP update_(c); }
#endif
#if DEF(H_DEFSTATE, 5)
	void postUpdate(FullControl& c) CQ { BUMP postUpdate_(c); }
#endif
#if DEF(H_DEFSTATE, 6)
	void preReact(const Ev& e, FullControl& c) NX { BUMP preReact_(e, c); }
#endif
#if DEF(H_DEFSTATE, 7)
	void react(const Ev& e, FullControl& c) NX { BUMP react_(e, c); }
#endif
#if DEF(H_DEFSTATE, 8)
	void postReact(const Ev& e, FullControl& c) NX { BUMP postReact_(e, c); }
#endif
#if DEF(H_DEFSTATE, 9)
	void query(Ev& e, ConstControl& c) const NX { query_(e, c); }
#endif
#if DEF(H_DEFSTATE, 10)
	void exitGuard(GuardControl& c) CQ { BUMP exitGuard_(c); }
#endif
#if DEF(H_DEFSTATE, 11)
	void exit(PlanControl& c) CQ { BUMP exit_(c); }
#endif
};

struct RootS : BaseOf<-1, MakeSeq<H_INJ_ROOT>::Type>::Type {
	CALLBACKS(H_DEFROOT, -1, -1)
#if DEF(H_DEFROOT, 0)
	void entryGuard(GuardControl& c) CQ { entryGuard_(c); }
#endif
#if DEF(H_DEFROOT, 1)
	void enter(PlanControl& c) CQ { enter_(c); }
#endif
#if DEF(H_DEFROOT, 2)
	void reenter(PlanControl& c) CQ { reenter_(c); }
#endif
#if DEF(H_DEFROOT, 3)
	void preUpdate(FullControl& c) CQ { preUpdate_(c); }
#endif
#if DEF(H_DEFROOT, 4)
	void update(FullControl& c) CQ { update_(c); }
#endif
#if DEF(H_DEFROOT, 5)
	void postUpdate(FullControl& c) CQ { postUpdate_(c); }
#endif
#if DEF(H_DEFROOT, 6)
	void preReact(const Ev& e, FullControl& c) NX { preReact_(e, c); }
#endif
#if DEF(H_DEFROOT, 7)
	void react(const Ev& e, FullControl& c) NX { react_(e, c); }
#endif
#if DEF(H_DEFROOT, 8)
	void postReact(const Ev& e, FullControl& c) NX { postReact_(e, c); }
#endif
#if DEF(H_DEFROOT, 9)
	void query(Ev& e, ConstControl& c) const NX { query_(e, c); }
#endif
#if DEF(H_DEFROOT, 10)
	void exitGuard(GuardControl& c) CQ { exitGuard_(c); }
#endif
#if DEF(H_DEFROOT, 11)
	void exit(PlanControl& c) CQ { exit_(c); }
#endif
#if H_PLANS
#if DEF(H_DEFROOT, 12)
	void planSucceeded(FullControl& c) CQ { on(-1, -1, M_planSucceeded, c, KFull{}); }
#endif
#if DEF(H_DEFROOT, 13)
	void planFailed(FullControl& c) CQ { on(-1, -1, M_planFailed, c, KFull{}); }
#endif
#endif
};

// ---- logger ----
#if H_LOG
struct Logger : M::LoggerInterface {
	static const char* mname(Method m) { return ffsm2::methodName(m); }
	void recordMethod(const Context& c, const StateID origin, const Method method) override {
		g_script.trace += "log " + std::to_string(ctxRef(c).inst) + " method " + std::to_string(int(origin)) + " " + mname(method) + "\n";
	}
	void recordTransition(const Context& c, const StateID origin, const StateID target) override {
		g_script.trace += "log " + std::to_string(ctxRef(c).inst) + " transition " + std::to_string(int(origin)) + " " + std::to_string(int(target)) + "\n";
	}
#if H_PLANS
	void recordTaskStatus(const Context& c, const StateID origin, const StatusEvent event) override {
		g_script.trace += "log " + std::to_string(ctxRef(c).inst) + " task " + std::to_string(int(origin)) + (event == StatusEvent::SUCCEEDED ? " succeeded" : " failed") + "\n";
	}
	void recordPlanStatus(const Context& c, const StatusEvent event) override {
		g_script.trace += "log " + std::to_string(ctxRef(c).inst) + " planstatus " + (event == StatusEvent::SUCCEEDED ? "succeeded" : "failed") + "\n";
	}
#endif
	void recordCancelledPending(const Context& c, const StateID origin) override {
		g_script.trace += "log " + std::to_string(ctxRef(c).inst) + " cancelled " + std::to_string(int(origin)) + "\n";
	}
};
static Logger g_logger;
#endif

#if H_SDATA
struct FHits { const FSM::Instance& m; unsigned r; template <typename T> void call() { r = m.access<T>().hits; } };
template <int... Is> static std::string stateHitsImpl(const FSM::Instance& m, Seq<Is...>) {
	std::string out; unsigned v[] = {0u, m.access<St<Is>>().hits...};
	for (int k = 1; k <= H_N; ++k) { if (k > 1) out += ","; out += std::to_string(v[k]); }
	return out;
}
static std::string stateHits(const FSM::Instance& m) { return stateHitsImpl(m, MakeSeq<H_N>::Type{}); }
#endif
static unsigned g_epoch[4] = {0, 0, 0, 0}, g_heldEpoch[4] = {~0u, ~0u, ~0u, ~0u};      // g_epoch[i] counts the objects that have lived in slot i
static void obs(int inst, const FSM::Instance& m) {
	std::ostringstream o; o << "obs " << inst << " active=" << int(m.activeStateId());
	std::string x;
#if H_CTX != 3
	{ FSM::Instance& mm = const_cast<FSM::Instance&>(m); if (&ctxRef(m.context()) != &ctxRef(mm.context())) x += " APIX=C06:instance-const-context"; }
#endif
	if (FSM::Instance::template stateId<St<0>>() != 0 || FSM::Instance::template stateId<St<H_N - 1>>() != H_N - 1) x += " APIX=C14:instance-stateId-of-type";
	{ FSM::Instance& mm = const_cast<FSM::Instance&>(m);          // access<T>() through a const machine designates the state object itself, not a copy of it
	  if (static_cast<const void*>(&m.template access<St<0>>()) != static_cast<const void*>(&mm.template access<St<0>>()) ||
	      static_cast<const void*>(&m.template access<St<H_N - 1>>()) != static_cast<const void*>(&mm.template access<St<H_N - 1>>())) x += " APIX=C14:const-access-designates-another-object APIX=C18:const-access-returns-a-dangling-reference"; }
	if (m.isActive(ffsm2::StateID(0)) != m.template isActive<St<0>>() || m.isActive(ffsm2::StateID(H_N - 1)) != m.template isActive<St<H_N - 1>>()) x += " APIX=C06:isActive-id-vs-type";
#if H_MANUAL
	o << " on=" << (m.isActive() ? 1 : 0);
#else
	o << " on=" << (m.activeStateId() != ffsm2::INVALID_STATE_ID ? 1 : 0);
#endif
	o << " act=";
#if H_TAPI
	for (int k = 0; k < H_N; ++k) o << (isActiveT(m, k) ? '1' : '0');
#else
	for (int k = 0; k < H_N; ++k) o << (m.isActive(ffsm2::StateID(k)) ? '1' : '0');
#endif
#if H_HISTORY
	o << " prev=" << tstr(m.previousTransition());
#else
	o << " prev=-";
#endif
#if H_PLANS
	{ auto p = m.plan(); o << " plan=" << pstr(p);
	  if (p) o << " first=" << taskStr(p.first()) << " last=" << taskStr(p.last()); else o << " first=- last=-";
	  // a read-only plan obtained once and kept while the plan is edited is a view, not a snapshot: it must keep agreeing with a fresh one
	  typedef decltype(m.plan()) CPlanType;
	  alignas(CPlanType) static unsigned char held[4][sizeof(CPlanType)]; static const FSM::Instance* heldFor[4] = {nullptr, nullptr, nullptr, nullptr};
	  if (heldFor[inst] != &m || g_heldEpoch[inst] != g_epoch[inst]) { new (held[inst]) CPlanType(m.plan()); heldFor[inst] = &m; g_heldEpoch[inst] = g_epoch[inst]; }
	  else {
	  	const CPlanType& h = *reinterpret_cast<const CPlanType*>(held[inst]);
	  	if (pstr(h) != pstr(p) || static_cast<bool>(h) != static_cast<bool>(p)) x += " APIX=C10:held-read-only-plan[" + pstr(h) + "]";
	  	else if (p && (taskStr(h.first()) != taskStr(p.first()) || taskStr(h.last()) != taskStr(p.last()))) x += " APIX=C10:held-read-only-plan-first-last";
	  } }
#else
	o << " plan=[] first=- last=-";
#endif
#if H_SERIAL
	{ FSM::Instance::SerialBuffer b; memset(&b, 0xEE, sizeof b);
#if !H_MANUAL
	  if (m.activeStateId() != ffsm2::INVALID_STATE_ID)
#endif
	  { m.save(b); o << " ser="; for (unsigned char x : b.data()) { char h[3]; snprintf(h, 3, "%02x", x); o << h; } }
	}
#else
	o << " ser=";
#endif
#if H_SDATA
	o << " cnts=" << stateHits(m);
#endif
	o << x;
	g_script.trace += o.str() + "\n";
}

static int toInt(const std::string& s) { return atoi(s.c_str()); }

static void parseActs(std::istringstream& in, std::vector<Act>& acts) {
	std::string tok;
	while (in >> tok) {
		if (tok == ";") continue;
		Act a; a.op = tok;
		if (tok == "change") in >> a.a;
		else if (tok == "changeWith") in >> a.a >> a.p;
		else if (tok == "succeed" || tok == "fail") { std::string x; in >> x; if (x == "self") a.self = true; else a.a = toInt(x); }
		else if (tok == "plan.append") in >> a.a >> a.b;
		else if (tok == "plan.appendWith") in >> a.a >> a.b >> a.p;
		else if (tok == "plan.removeAt") in >> a.a;
		acts.push_back(a);
	}
}

static FSM::Instance* g_inst[4] = {nullptr, nullptr, nullptr, nullptr};
alignas(64) static unsigned char g_mem[4][sizeof(FSM::Instance) + 64];

#if H_HISTORY
static const Transition* instPrev(int inst) { return g_inst[inst] ? &g_inst[inst]->previousTransition() : nullptr; }
#endif

static FSM::Instance* make(int i, bool withLogger, int fill, const FSM::Instance* from) {
	++g_epoch[i];
	memset(g_mem[i], fill, sizeof g_mem[i]);
	memset(g_script.counts[i], 0, sizeof g_script.counts[i]);
	g_ctx[i].inst = i;
#if H_CTX == 0
	g_ctx_addr[i] = nullptr;
#else
	g_ctx_addr[i] = &g_ctx[i];
#endif
	(void) withLogger;
	if (from) {
		// odd fill bytes take the move constructor (the source stays alive and usable: nothing in an instance owns anything), even ones the copy constructor
#if H_CTX == 1
		FSM::Instance* m = new (g_mem[i]) FSM::Instance{*from};      // (a reference context cannot be moved: the library's move constructor does not compile for it)
#else
		FSM::Instance* m = (fill & 1) ? new (g_mem[i]) FSM::Instance{static_cast<FSM::Instance&&>(*const_cast<FSM::Instance*>(from))}
									  : new (g_mem[i]) FSM::Instance{*from};
#endif
#if H_CTX == 0
		m->context().inst = i;
#endif
		return m;
	}
#if H_CTX == 3
#if H_LOG
	return new (g_mem[i]) FSM::Instance{withLogger ? &g_logger : nullptr};
#else
	return new (g_mem[i]) FSM::Instance{};
#endif
#endif
#if H_CTX == 0
	Ctx c; c.inst = i;
	// a value context can be handed over as an lvalue or as an rvalue: two different constructors of the instance (odd fill bytes take the rvalue one)
	if (fill & 1) {
#if H_LOG
		return new (g_mem[i]) FSM::Instance{static_cast<Ctx&&>(c), withLogger ? &g_logger : nullptr};
#else
		return new (g_mem[i]) FSM::Instance{static_cast<Ctx&&>(c)};
#endif
	}
#if H_LOG
	return new (g_mem[i]) FSM::Instance{c, withLogger ? &g_logger : nullptr};
#else
	return new (g_mem[i]) FSM::Instance{c};
#endif
#elif H_CTX == 1
#if H_LOG
	return new (g_mem[i]) FSM::Instance{g_ctx[i], withLogger ? &g_logger : nullptr};
#else
	return new (g_mem[i]) FSM::Instance{g_ctx[i]};
#endif
#elif H_CTX == 2
#if H_MANUAL
	// a manually activated machine can be built without a context and be given one later (odd fill bytes): the default argument and setContext()
	if (fill & 1) {
		FSM::Instance* m = new (g_mem[i]) FSM::Instance{};
#if H_LOG
		m->attachLogger(withLogger ? &g_logger : nullptr);
#endif
		m->setContext(&g_ctx[i]);
		return m;
	}
#endif
#if H_LOG
	return new (g_mem[i]) FSM::Instance{&g_ctx[i], withLogger ? &g_logger : nullptr};
#else
	return new (g_mem[i]) FSM::Instance{&g_ctx[i]};
#endif
#endif
}

#ifdef H_COVERAGE
extern "C" void __gcov_dump(void);
#endif
int main() {
	Script& script = g_script;
	std::string line;
	while (std::getline(std::cin, line)) {
		std::istringstream in(line); std::string kw; in >> kw;
		if (kw == "cfg") {
			// the binary is compiled for one configuration; refuse a script meant for another
			std::ostringstream mine; mine << "n=" << H_N << " head=" << H_HEAD << " manual=" << H_MANUAL << " limit=" << H_LIMIT << " cap=" << H_CAP_EFFECTIVE
				<< " payload=" << (H_PAYLOAD ? 1 : 0) << " inj_root=" << H_INJ_ROOT << " inj_state=" << H_INJ_STATE
				<< " plans=" << H_PLANS << " serial=" << H_SERIAL << " history=" << H_HISTORY;
			std::string rest; std::getline(in, rest);
			if (rest.find(mine.str()) == std::string::npos) { fprintf(stderr, "config mismatch: built for [%s], script says [%s]\n", mine.str().c_str(), rest.c_str()); return 3; }
		} else if (kw == "tab") {
			Entry e; std::string is, w, r, m, tok; in >> is >> w >> r >> m;
			e.inst = is == "*" ? -1 : toInt(is);
			e.who = w == "*" ? -2 : w == "S*" ? -3 : w == "R" ? -1 : toInt(w.substr(1));
			e.rec = r == "*" ? -2 : r == "own" ? -1 : toInt(r.substr(1));
			e.meth = m == "*" ? -1 : methIndex(m);
			while (in >> tok && tok != ":") {
				if (tok.rfind("occ=", 0) == 0) e.occ = toInt(tok.substr(4));
				else if (tok.rfind("mod=", 0) == 0) { size_t c = tok.find(','); e.modM = toInt(tok.substr(4, c - 4)); e.modR = toInt(tok.substr(c + 1)); }
				else if (tok.rfind("pend=", 0) == 0) e.pend = toInt(tok.substr(5));
				else if (tok.rfind("cur=", 0) == 0) e.cur = toInt(tok.substr(4));
				else if (tok.rfind("active=", 0) == 0) e.active = toInt(tok.substr(7));
			}
			parseActs(in, e.acts);
			script.table.push_back(e);
		} else if (kw == "op") {
			std::string op; int i; in >> op >> i;
			std::string rest; std::getline(in, rest);
			std::istringstream args(rest);
			script.trace += "api " + op + " " + std::to_string(i) + rest + " begin\n";
			std::string ret = "-";
			FSM::Instance*& m = g_inst[i];
#ifdef H_COUNT_ALLOC
			g_in_call = true;
#endif
			if (op == "construct") { int lg; std::string fill; args >> lg >> fill; m = make(i, lg != 0, int(strtol(fill.c_str(), nullptr, 16)), nullptr); }
			else if (op == "copy") { int j; std::string fill; args >> j >> fill; if (g_inst[j]) m = make(i, false, int(strtol(fill.c_str(), nullptr, 16)), g_inst[j]); }
			else if (!m) { /* no such instance: nothing happens */ }
			else if (op == "destroy") { m->~InstanceT(); m = nullptr; }
#if H_MANUAL
			else if (op == "enter") m->enter();
			else if (op == "exit") m->exit();
#endif
			else if (op == "update") m->update();
			else if (op == "react") { Ev e{7}; g_event_addr = &e; m->react(e); g_event_addr = nullptr; }
			else if (op == "query") { Ev e{7}; g_event_addr = &e; const FSM::Instance& cm = *m; cm.query(e); g_event_addr = nullptr; }
#if H_TAPI
			else if (op == "change") { int d; args >> d; FChangeTo<FSM::Instance> f{*m}; withState(d, f); }
			else if (op == "immChange") { int d; args >> d; FImmChangeTo<FSM::Instance> f{*m}; withState(d, f); }
#if H_PAYLOAD
			else if (op == "changeWith") { int d, p; args >> d >> p; const Payload pl = mkPayload(p); FChangeWith<FSM::Instance> f{*m, pl}; withState(d, f); }
			else if (op == "immChangeWith") { int d, p; args >> d >> p; const Payload pl = mkPayload(p); FImmChangeWith<FSM::Instance> f{*m, pl}; withState(d, f); }
#endif
#if H_PLANS
			else if (op == "succeed") { int s; args >> s; FSucceed<FSM::Instance> f{*m}; withState(s, f); }
			else if (op == "fail") { int s; args >> s; FFail<FSM::Instance> f{*m}; withState(s, f); }
#endif
#else
			else if (op == "change") { int d; args >> d; m->changeTo(ffsm2::StateID(d)); }
			else if (op == "immChange") { int d; args >> d; m->immediateChangeTo(ffsm2::StateID(d)); }
#if H_PAYLOAD
			else if (op == "changeWith") { int d, p; args >> d >> p; m->changeWith(ffsm2::StateID(d), mkPayload(p)); }
			else if (op == "immChangeWith") { int d, p; args >> d >> p; m->immediateChangeWith(ffsm2::StateID(d), mkPayload(p)); }
#endif
#if H_PLANS
			else if (op == "succeed") { int s; args >> s; m->succeed(ffsm2::StateID(s)); }
			else if (op == "fail") { int s; args >> s; m->fail(ffsm2::StateID(s)); }
#endif
#endif
#if H_PLANS
			else if (false) {}
			else if (op.rfind("plan.", 0) == 0) {
				Act a; a.op = op;
				if (op == "plan.append") args >> a.a >> a.b; else if (op == "plan.appendWith") args >> a.a >> a.b >> a.p; else if (op == "plan.removeAt") args >> a.a;
				std::string r = doPlanOn(m->plan(), a);
				ret = r == "ok" ? "1" : r == "full" ? "0" : r == "ignored" ? "-" : r;
				if (op == "plan.clear") ret = "1";
			}
#endif
#if H_SERIAL
			else if (op == "loadfrom") { int j; args >> j; if (g_inst[j]) { FSM::Instance::SerialBuffer b; memset(&b, 0xEE, sizeof b); g_inst[j]->save(b); m->load(b); } }
#endif
#if H_HISTORY
#if H_MANUAL
			else if (op == "replayEnter") { int d; args >> d; m->replayEnter(ffsm2::StateID(d)); }
#endif
			else if (op == "replayTransition") { int d; args >> d; ret = m->replayTransition(ffsm2::StateID(d)) ? "1" : "0"; }
#endif
#if H_LOG
			else if (op == "attachLogger") { int b; args >> b; m->attachLogger(b ? &g_logger : nullptr); }
#endif
#ifdef H_COUNT_ALLOC
			g_in_call = false;
#endif
			script.trace += "api " + op + " " + std::to_string(i) + rest + " end ret=" + ret + "\n";
#if H_CTX != 3
			if (g_inst[i] && g_ctx_addr[i] && g_ctx_addr[i] != &ctxRef(g_inst[i]->context())) script.trace += "ctxfail " + std::to_string(i) + "\n";
#endif
			if (g_inst[i]) obs(i, *g_inst[i]);
		}
	}
	// automatic machines run finalExit() in their destructor; keep that out of the trace
	fputs(script.trace.c_str(), stdout);
#ifdef H_COUNT_ALLOC
	printf("allocs %ld\n", g_allocs);
#endif
	fflush(stdout);
#ifdef H_COVERAGE
	__gcov_dump();        // tools/coverage.py: which lines of the library do the scripts reach
#endif
	_Exit(0);
}
