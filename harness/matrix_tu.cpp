// C19 compile matrix: one small translation unit that touches the whole public API under whatever
// FFSM2_ENABLE_* / FFSM2_DISABLE_* switches are given on the command line.
//   -DH_HEADER=<...>  -DH_MANUAL=0|1  -DH_PAYLOAD=0|1
// It is compiled with -fsyntax-only for the matrix and built + run for a digest of a feature-neutral scenario.
#ifndef H_HEADER
#define H_HEADER <ffsm2/machine.hpp>
#endif
#ifndef H_MANUAL
#define H_MANUAL 0
#endif
#ifndef H_PAYLOAD
#define H_PAYLOAD 0
#endif
#include H_HEADER
#ifndef H_NOSTDIO
#include <stdio.h>
#endif
#ifdef H_COUNT_ALLOC
// C18: no FFSM2 operation allocates or frees: count operator new/delete calls and compare malloc's own statistics
#include <new>
#include <stdlib.h>
#include <malloc.h>
static long g_news = 0;
void* operator new(std::size_t n) { ++g_news; void* p = malloc(n ? n : 1); if (!p) abort(); return p; }
void* operator new[](std::size_t n) { ++g_news; void* p = malloc(n ? n : 1); if (!p) abort(); return p; }
void operator delete(void* p) noexcept { ++g_news; free(p); }
void operator delete[](void* p) noexcept { ++g_news; free(p); }
void operator delete(void* p, std::size_t) noexcept { ++g_news; free(p); }
void operator delete[](void* p, std::size_t) noexcept { ++g_news; free(p); }
#endif

struct Ctx { int trace[64]; int n = 0; void add(int x) { if (n < 64) trace[n++] = x; } };

#if H_MANUAL
#define CFG_MANUAL ::ManualActivation
#else
#define CFG_MANUAL
#endif
#if H_PAYLOAD
#define CFG_PAYLOAD ::PayloadT<int>
#else
#define CFG_PAYLOAD
#endif
#ifdef FFSM2_ENABLE_ALL
#define H_HAS_PLANS 1
#elif defined(FFSM2_ENABLE_PLANS)
#define H_HAS_PLANS 1
#else
#define H_HAS_PLANS 0
#endif
#if H_HAS_PLANS
#define CFG_CAP ::TaskCapacityN<4>
#else
#define CFG_CAP
#endif
using Config = ffsm2::Config::ContextT<Ctx&> CFG_MANUAL ::SubstitutionLimitN<3> CFG_CAP CFG_PAYLOAD;
using M = ffsm2::MachineT<Config>;
struct Head; struct A; struct B; struct C;
using FSM = M::Root<Head, A, B, C>;

struct Head : FSM::State {
	void enter(PlanControl& c) { c.context().add(100); }
	void exit(PlanControl& c) { c.context().add(101); }
#ifdef FFSM2_ENABLE_PLANS
	void planSucceeded(FullControl& c) { c.context().add(102); }
	void planFailed(FullControl& c) { c.context().add(103); }
#endif
};
struct A : FSM::State {
	void entryGuard(GuardControl& c) { c.context().add(10); }
	void enter(PlanControl& c) { c.context().add(11); }
	void update(FullControl& c) { c.context().add(12); c.changeTo<B>(); }
	void exitGuard(GuardControl& c) { c.context().add(13); }
	void exit(PlanControl& c) { c.context().add(14); }
};
struct B : FSM::State {
	void entryGuard(GuardControl& c) { c.context().add(20); if (c.context().n < 12) { c.cancelPendingTransition(); c.changeTo<C>(); } }
	void enter(PlanControl& c) { c.context().add(21); }
	void reenter(PlanControl& c) { c.context().add(25); }
	void react(const int& e, FullControl& c) { c.context().add(22 + e); c.changeTo<A>(); }
	void exit(PlanControl& c) { c.context().add(24); }
};
struct C : FSM::State {
	void enter(PlanControl& c) { c.context().add(31); }
	void update(FullControl& c) { c.context().add(32); c.changeTo<B>(); }
	void query(int& e, ConstControl& c) const { e += int(c.stateId()); }
	void exit(PlanControl& c) { c.context().add(34); }
};

#ifdef FFSM2_ENABLE_LOG_INTERFACE
struct Logger : M::LoggerInterface {
	void recordMethod(const Context&, const ffsm2::StateID, const Method) override {}
	void recordTransition(const Context&, const ffsm2::StateID, const ffsm2::StateID) override {}
};
#endif

// the feature-neutral scenario: uses no plan, no serialization, no history, no logger
static unsigned neutral(FSM::Instance& m, Ctx& ctx) {
#if H_MANUAL
	m.enter();
#endif
	m.update();                 // A -> B vetoed+redirected -> C
	m.update();                 // C -> B
	m.react(1);                 // B -> A
	m.changeTo<C>(); m.update();
	m.immediateChangeTo<B>();
	int q = 0; { const FSM::Instance& cm = m; cm.query(q); }
	ctx.add(int(m.activeStateId())); ctx.add(q);
	ctx.add(m.isActive<B>() ? 1 : 0);
#if H_MANUAL
	m.exit(); ctx.add(m.isActive() ? 1 : 0);
#endif
	unsigned h = 2166136261u; for (int i = 0; i < ctx.n; ++i) { h ^= unsigned(ctx.trace[i]); h *= 16777619u; }
	return h;
}

// everything else, so that every member template is instantiated under every switch combination
static void featureUse(FSM::Instance& m) {
	(void) m.context(); (void) m.activeStateId(); (void) m.isActive(ffsm2::StateID(1)); (void) FSM::stateId<B>(); (void) m.access<B>();
#if H_PAYLOAD
	m.changeWith<B>(5); m.immediateChangeWith(ffsm2::StateID(0), 6); m.changeWith(ffsm2::StateID(1), 7);
#endif
#ifdef FFSM2_ENABLE_PLANS
	{ auto p = m.plan(); p.change<A, B>(); p.change(ffsm2::StateID(1), ffsm2::StateID(2));
#if H_PAYLOAD
	  p.changeWith<B, C>(3);
#endif
	  for (auto it = p.begin(); it; ++it) { (void) it->origin; }
	  m.succeed<A>(); m.fail(ffsm2::StateID(1)); m.update(); p.clear(); }
#endif
#ifdef FFSM2_ENABLE_SERIALIZATION
	{ FSM::Instance::SerialBuffer b; m.save(b); m.load(b); }
#endif
#ifdef FFSM2_ENABLE_TRANSITION_HISTORY
	(void) m.previousTransition(); (void) m.replayTransition(ffsm2::StateID(1));
#if H_MANUAL
	if (!m.isActive()) m.replayEnter(ffsm2::StateID(1));
#endif
#endif
#ifdef FFSM2_ENABLE_LOG_INTERFACE
	static Logger logger; m.attachLogger(&logger); m.update(); m.attachLogger(nullptr);
#endif
}

#ifdef H_NOSTDIO
extern "C" int ffsm2_use_everything() {
#else
int main() {
#endif
#ifdef H_COUNT_ALLOC
	const long news0 = g_news; const struct mallinfo2 mi0 = mallinfo2();
#endif
	Ctx ctx; FSM::Instance m{ctx};
	const unsigned h = neutral(m, ctx);
	Ctx ctx2; FSM::Instance m2{ctx2};
#if H_MANUAL
	m2.enter();
#endif
	featureUse(m2);
	FSM::Instance copy{m2}; (void) copy;
#ifdef H_COUNT_ALLOC
	{ const struct mallinfo2 mi1 = mallinfo2();
	  const long dn = g_news - news0; const long dh = long(mi1.uordblks) - long(mi0.uordblks) + long(mi1.hblkhd) - long(mi0.hblkhd);
	  printf("allocs=%ld heapdelta=%ld\n", dn, dh); return (dn || dh) ? 1 : 0; }
#endif
#ifndef H_NOSTDIO
	printf("%08x %d\n", h, ctx.n);
#endif
#ifdef H_NOSTDIO
	return int(h & 1);
#else
	return 0;
#endif
}
