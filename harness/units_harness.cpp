// Unit-level harness for the correspondence check: drives the real BitArrayT, StaticArrayT,
// DynamicArrayT, TaskListT, StreamBufferT / BitWriteStreamT / BitReadStreamT and bitWidth() through
// their public interfaces with operation lists read from stdin and prints every result in a
// canonical text form (the OCaml side, driver/units.ml, prints the same from the extracted model).
//
// Input, one test per line:   <kind> <capacity> : <op> ; <op> ; ...
#ifndef H_HEADER
#define H_HEADER <ffsm2/machine.hpp>
#endif
#define FFSM2_ENABLE_PLANS
#define FFSM2_ENABLE_SERIALIZATION
#include H_HEADER

#include <cstdio>
#include <cstdlib>
#include <cstring>
#include <string>
#include <vector>
#include <sstream>
#include <iostream>

using namespace ffsm2;
using namespace ffsm2::detail;

struct Op { std::string name; std::vector<long> args; };
static std::vector<Op> parseOps(const std::string& s) {
	std::vector<Op> ops; std::istringstream in(s); std::string tok; Op cur;
	while (in >> tok) {
		if (tok == ";") { if (!cur.name.empty()) ops.push_back(cur); cur = Op{}; continue; }
		if (cur.name.empty()) cur.name = tok; else cur.args.push_back(atol(tok.c_str()));
	}
	if (!cur.name.empty()) ops.push_back(cur);
	return ops;
}

static std::string out;

// ---- BitArrayT<CAP> ----
template <unsigned CAP> static void dumpBits(const BitArrayT<CAP>& b) {
	if (CAP > 5000) {      // large arrays: the non-zero storage units as unit:byte, recomputed from get()
		out += " nz=";
		for (unsigned u = 0; u * 8 < CAP; ++u) { unsigned v = 0; for (unsigned k = 0; k < 8 && u * 8 + k < CAP; ++k) if (b.get(u * 8 + k)) v |= 1u << k; if (v) out += std::to_string(u) + ":" + std::to_string(v) + ","; }
		out += b.empty() ? " empty=1" : " empty=0"; return;
	}
	out += " bits="; for (unsigned i = 0; i < CAP; ++i) out += b.get(i) ? '1' : '0';
	out += b.empty() ? " empty=1" : " empty=0";
}
template <unsigned CAP> static void runBitArray(const std::vector<Op>& ops) {
	BitArrayT<CAP> b;
	out += "init"; dumpBits(b); out += "\n";
	for (auto& o : ops) {
		out += o.name; for (long a : o.args) out += " " + std::to_string(a);
		if (o.name == "set") b.set(static_cast<unsigned>(o.args[0]));
		else if (o.name == "clr") b.clear(static_cast<unsigned>(o.args[0]));
		else if (o.name == "get") out += b.get(static_cast<unsigned>(o.args[0])) ? " ->1" : " ->0";
		else if (o.name == "setall") b.set();
		else if (o.name == "clrall") b.clear();
		else if (o.name == "and" || o.name == "andq") {
			BitArrayT<CAP> other; for (long a : o.args) other.set(static_cast<unsigned>(a));
			if (o.name == "and") b &= other; else out += (b & other) ? " ->1" : " ->0";
		}
		else if (o.name == "andall") { BitArrayT<CAP> other; other.set(); b &= other; }
		dumpBits(b); out += "\n";
	}
}

// ---- StaticArrayT<int, CAP> / StaticArrayT<uint8_t, CAP> / DynamicArrayT<int, CAP> ----
// ("sa8": one-byte items, the only item type for which the filler value used by clear() and empty() is not T{}: filler<Short>() is 255)
template <typename TItem, long CAP> static void runStaticT(const std::vector<Op>& ops) {
	StaticArrayT<TItem, CAP> a;
	auto dump = [&]() { out += " items="; for (long i = 0; i < CAP; ++i) { if (i) out += ","; out += std::to_string(int(a[i])); } out += " count=" + std::to_string(int(a.count())); };
	out += "init"; dump(); out += "\n";
	for (auto& o : ops) {
		out += o.name; for (long x : o.args) out += " " + std::to_string(x);
		if (o.name == "set") a[o.args[0]] = TItem(o.args[1]);
		else if (o.name == "get") out += " ->" + std::to_string(int(a[o.args[0]]));
		else if (o.name == "fill") a.fill(TItem(o.args[0]));
		else if (o.name == "clear") a.clear();
		else if (o.name == "ctorfill") { a.~StaticArrayT(); new (&a) StaticArrayT<TItem, CAP>{TItem(o.args[0])}; }      // the filling constructor
		else if (o.name == "isempty") out += a.empty() ? " ->1" : " ->0";                                              // every item equals the filler value
		dump(); out += "\n";
	}
}
template <long CAP> static void runStatic(const std::vector<Op>& ops) { runStaticT<int, CAP>(ops); }
template <long CAP> static void runStatic8(const std::vector<Op>& ops) { runStaticT<uint8_t, CAP>(ops); }
// an item whose move constructor really empties its source, and that counts what happens to it: a lost forward<>/move slip in
// emplace or operator+= shows as a gutted element (-777) instead of going unnoticed as it does with int
struct Tk {
	int v = 0;
	Tk() = default;
	Tk(int v_) : v(v_) {}
	Tk(const Tk& o) : v(o.v) {}
	Tk(Tk&& o) noexcept : v(o.v) { o.v = -777; }
	Tk& operator=(const Tk& o) { v = o.v; return *this; }
	Tk& operator=(Tk&& o) noexcept { v = o.v; o.v = -777; return *this; }
};
template <long CAP> static void runDynamic(const std::vector<Op>& ops) {
	DynamicArrayT<Tk, CAP> a;
	auto dump = [&]() {
		out += " iter="; bool f = true; for (const Tk& x : a) { if (!f) out += ","; f = false; out += std::to_string(x.v); }
		// the same through the mutable iterator, cbegin()/cend() and operator-> : all must agree
		std::string viaMut, viaC; f = true; for (Tk& x : a) { if (!f) viaMut += ","; f = false; viaMut += std::to_string(x.v); }
		f = true; { auto it = a.cbegin(); auto e = a.cend(); long k = 0; for (; it != e; ++it, ++k) { if (!f) viaC += ","; f = false; viaC += std::to_string(it->v);
			if (&*it != &static_cast<const decltype(a)&>(a)[k]) viaC += "@COPY"; } }      // the iterator designates the array's own element
		std::string viaConst; f = true; for (const Tk& x : a) { if (!f) viaConst += ","; f = false; viaConst += std::to_string(x.v); }
		if (viaMut != viaConst || viaC != viaConst) out += " ITERATORS-DISAGREE[" + viaMut + "|" + viaC + "]";
		out += " count=" + std::to_string(int(a.count())) + (a.empty() ? " empty=1" : " empty=0"); };
	out += "init"; dump(); out += "\n";
	for (auto& o : ops) {
		out += o.name; for (long x : o.args) out += " " + std::to_string(x);
		if (o.name == "emp") out += " ->" + std::to_string(int(a.emplace(int(o.args[0]))));
		else if (o.name == "add") a += Tk(int(o.args[0]));                                           // operator += (Item&&)
		else if (o.name == "addc") { const Tk k(int(o.args[0])); a += k; }                            // operator += (const Item&)
		else if (o.name == "emplv") { out += " ->" + std::to_string(int(a.emplace(a[o.args[0]]))); }  // emplace(non-const lvalue of the same array)
		else if (o.name == "empc") { const DynamicArrayT<Tk, CAP>& ca = a; out += " ->" + std::to_string(int(a.emplace(ca[o.args[0]]))); }
		else if (o.name == "addlv") { a += a[static_cast<unsigned char>(o.args[0])]; }                // operator += with an lvalue element, index of another integer type
		else if (o.name == "get") { const DynamicArrayT<Tk, CAP>& ca = a; out += " ->" + std::to_string(a[o.args[0]].v) + (ca[static_cast<short>(o.args[0])].v == a[o.args[0]].v ? "" : " CONST-INDEX-DISAGREES"); }
		else if (o.name == "clear") a.clear();
		else if (o.name == "addall") { DynamicArrayT<Tk, CAP> other; for (long x : o.args) other.emplace(int(x)); a += other; }
		else if (o.name == "selfassign") { DynamicArrayT<Tk, CAP>& alias = a; a = alias; }                                  // self-assignment must leave the array alone
		else if (o.name == "copyback") { DynamicArrayT<Tk, CAP> b; b = a; a.clear(); a = b; }                                 // copy assignment there and back
		else if (o.name == "copyctor") { const DynamicArrayT<Tk, CAP> b{a}; a = b; }                                          // copy construction, then assignment from the copy
		else if (o.name == "addall2") { DynamicArrayT<Tk, 7> other; for (long x : o.args) other.emplace(int(x)); a += other; }   // operator += <N> with another capacity
		dump(); out += "\n";
	}
}

// ---- TaskListT<void, CAP> ----
template <long CAP> static void runTaskList(const std::vector<Op>& ops) {
	TaskListT<void, CAP> l;
	auto dump = [&]() {
		out += " count=" + std::to_string(int(l.count())) + (l.empty() ? " empty=1" : " empty=0") + " slots=";
		const TaskListT<void, CAP>& cl = l;
		for (long i = 0; i < CAP; ++i) { if (i) out += ","; out += std::to_string(int(cl[static_cast<Long>(i)].origin)) + ">" + std::to_string(int(cl[static_cast<Long>(i)].destination)); }
	};
	out += "init"; dump(); out += "\n";
	for (auto& o : ops) {
		out += o.name; for (long x : o.args) out += " " + std::to_string(x);
		if (o.name == "emp") out += " ->" + std::to_string(int(l.emplace(StateID(o.args[0]), StateID(o.args[1]))));
		else if (o.name == "rem") l.remove(static_cast<Long>(o.args[0]));
		else if (o.name == "clear") l.clear();
		dump(); out += "\n";
	}
}

// ---- bit stream ----
template <long BITS> struct StreamRun {
	using Buffer = StreamBufferT<BITS>;
	Buffer buffer; Buffer shadow; BitWriteStreamT<BITS>* w = nullptr; BitReadStreamT<BITS>* r = nullptr;
	alignas(8) unsigned char wmem[sizeof(BitWriteStreamT<BITS>)]; alignas(8) unsigned char rmem[sizeof(BitReadStreamT<BITS>)];
	void dump() { out += " data="; for (unsigned char x : buffer.data()) { char h[3]; snprintf(h, 3, "%02x", x); out += h; } }
	template <int W> void doWrite(unsigned long v) { w->template write<W>(static_cast<UBitWidth<W>>(v)); }
	template <int W> unsigned long doRead() { return r->template read<W>(); }
	void write(int width, unsigned long v) {
		switch (width) {
#define WCASE(W) case W: doWrite<W>(v); break;
			WCASE(1) WCASE(2) WCASE(3) WCASE(4) WCASE(5) WCASE(6) WCASE(7) WCASE(8) WCASE(9) WCASE(10) WCASE(11) WCASE(12) WCASE(13) WCASE(14) WCASE(15) WCASE(16)
			WCASE(17) WCASE(18) WCASE(19) WCASE(20) WCASE(21) WCASE(22) WCASE(23) WCASE(24) WCASE(25) WCASE(26) WCASE(27) WCASE(28) WCASE(29) WCASE(30) WCASE(31) WCASE(32)
#undef WCASE
		}
	}
	unsigned long read(int width) {
		switch (width) {
#define RCASE(W) case W: return doRead<W>();
			RCASE(1) RCASE(2) RCASE(3) RCASE(4) RCASE(5) RCASE(6) RCASE(7) RCASE(8) RCASE(9) RCASE(10) RCASE(11) RCASE(12) RCASE(13) RCASE(14) RCASE(15) RCASE(16)
			RCASE(17) RCASE(18) RCASE(19) RCASE(20) RCASE(21) RCASE(22) RCASE(23) RCASE(24) RCASE(25) RCASE(26) RCASE(27) RCASE(28) RCASE(29) RCASE(30) RCASE(31) RCASE(32)
#undef RCASE
		}
		return 0;
	}
	void run(const std::vector<Op>& ops) {
		memset(&buffer, 0xEE, sizeof buffer);             // a write stream must clear whatever was there
		for (auto& o : ops) {
			out += o.name; for (long x : o.args) out += " " + std::to_string(x);
			if (o.name == "ws") { if (o.args.empty()) w = new (wmem) BitWriteStreamT<BITS>{buffer}; else w = new (wmem) BitWriteStreamT<BITS>{buffer, static_cast<Long>(o.args[0])}; out += " cursor=" + std::to_string(int(w->cursor())); }
			else if (o.name == "w") { write(int(o.args[0]), static_cast<unsigned long>(o.args[1])); out += " cursor=" + std::to_string(int(w->cursor())); }
			else if (o.name == "rs") { if (o.args.empty()) r = new (rmem) BitReadStreamT<BITS>{buffer}; else r = new (rmem) BitReadStreamT<BITS>{buffer, static_cast<Long>(o.args[0])}; out += " cursor=" + std::to_string(int(r->cursor())); }
			else if (o.name == "dirty") { memset(&buffer, int(o.args[0]), sizeof buffer); }
			else if (o.name == "snap") { memcpy(&shadow, &buffer, sizeof buffer); }
			else if (o.name == "eq") { out += std::string(" ->") + ((buffer == shadow) ? "1" : "0") + ((buffer != shadow) ? "1" : "0"); }
			else if (o.name == "r") { unsigned long v = read(int(o.args[0])); out += " ->" + std::to_string(v) + " cursor=" + std::to_string(int(r->cursor())); }
			dump(); out += "\n";
		}
	}
};

#define CAPS(X) X(1) X(2) X(3) X(4) X(5) X(7) X(8) X(9) X(12) X(15) X(16) X(17) X(24) X(31) X(32) X(33) X(63) X(64) X(65) X(100) X(128) X(200) X(248) X(254) X(255)

#define BIGCAPS(X) X(256) X(257) X(1000) X(2047) X(2048) X(2049) X(4096) X(5000) X(65535) X(65536) X(70001)

int main() {
	std::string line;
	while (std::getline(std::cin, line)) {
		const size_t colon = line.find(':');
		if (colon == std::string::npos) continue;
		std::istringstream head(line.substr(0, colon)); std::string kind; long cap = 0; head >> kind >> cap;
		const std::vector<Op> ops = parseOps(line.substr(colon + 1));
		out += "test " + kind + " " + std::to_string(cap) + "\n";
		if (kind == "bw") { for (auto& o : ops) out += "bw " + std::to_string(o.args[0]) + " ->" + std::to_string(bitWidth(static_cast<uint32_t>(o.args[0]))) + "\n"; }
#define BA(C) else if (kind == "ba" && cap == C) runBitArray<C>(ops);
		CAPS(BA)
		BIGCAPS(BA)
#define SA(C) else if (kind == "sa" && cap == C) runStatic<C>(ops); else if (kind == "sa8" && cap == C) runStatic8<C>(ops);
		CAPS(SA)
#define DA(C) else if (kind == "da" && cap == C) runDynamic<C>(ops);
		CAPS(DA)
#define TL(C) else if (kind == "tl" && cap == C) runTaskList<C>(ops);
		CAPS(TL)
#define BS(C) else if (kind == "bs" && cap == C) { static StreamRun<C> sr; sr.run(ops); }
		CAPS(BS)
		else out += "unsupported\n";
	}
	fputs(out.c_str(), stdout);
	return 0;
}
