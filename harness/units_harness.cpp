// Unit-level harness for the correspondence check: drives the real BitArrayT, StaticArrayT,
// DynamicArrayT, TaskListT, StreamBufferT / BitWriteStreamT / BitReadStreamT and bitWidth() through
// their public interfaces with operation lists read from stdin and prints every result in a
// canonical text form (the OCaml side, driver/units.ml, prints the same from the extracted model).
//
// Input, one test per line:   <kind> <capacity> : <op> ; <op> ; ...
#ifndef H_HEADER
#define H_HEADER <ffsm2/machine.hpp>
#endif
#define FFSM2_ENABLE_PLANS
#define FFSM2_ENABLE_SERIALIZATION
#include H_HEADER

#include <cstdio>
#include <cstdlib>
#include <cstring>
#include <string>
#include <vector>
#include <sstream>
#include <iostream>

using namespace ffsm2;
using namespace ffsm2::detail;

struct Op { std::string name; std::vector<long> args; };
static std::vector<Op> parseOps(const std::string& s) {
	std::vector<Op> ops; std::istringstream in(s); std::string tok; Op cur;
	while (in >> tok) {
		if (tok == ";") { if (!cur.name.empty()) ops.push_back(cur); cur = Op{}; continue; }
		if (cur.name.empty()) cur.name = tok; else cur.args.push_back(atol(tok.c_str()));
	}
	if (!cur.name.empty()) ops.push_back(cur);
	return ops;
}

static std::string out;

// ---- BitArrayT<CAP> ----
template <unsigned CAP> static void dumpBits(const BitArrayT<CAP>& b) {
	out += " bits="; for (unsigned i = 0; i < CAP; ++i) out += b.get(i) ? '1' : '0';
	out += b.empty() ? " empty=1" : " empty=0";
}
template <unsigned CAP> static void runBitArray(const std::vector<Op>& ops) {
	BitArrayT<CAP> b;
	out += "init"; dumpBits(b); out += "\n";
	for (auto& o : ops) {
		out += o.name; for (long a : o.args) out += " " + std::to_string(a);
		if (o.name == "set") b.set(static_cast<unsigned>(o.args[0]));
		else if (o.name == "clr") b.clear(static_cast<unsigned>(o.args[0]));
		else if (o.name == "get") out += b.get(static_cast<unsigned>(o.args[0])) ? " ->1" : " ->0";
		else if (o.name == "setall") b.set();
		else if (o.name == "clrall") b.clear();
		else if (o.name == "and" || o.name == "andq") {
			BitArrayT<CAP> other; for (long a : o.args) other.set(static_cast<unsigned>(a));
			if (o.name == "and") b &= other; else out += (b & other) ? " ->1" : " ->0";
		}
		else if (o.name == "andall") { BitArrayT<CAP> other; other.set(); b &= other; }
		dumpBits(b); out += "\n";
	}
}

// ---- StaticArrayT<int, CAP> / DynamicArrayT<int, CAP> ----
template <long CAP> static void runStatic(const std::vector<Op>& ops) {
	StaticArrayT<int, CAP> a;
	auto dump = [&]() { out += " items="; for (long i = 0; i < CAP; ++i) { if (i) out += ","; out += std::to_string(a[i]); } out += " count=" + std::to_string(int(a.count())); };
	out += "init"; dump(); out += "\n";
	for (auto& o : ops) {
		out += o.name; for (long x : o.args) out += " " + std::to_string(x);
		if (o.name == "set") a[o.args[0]] = int(o.args[1]);
		else if (o.name == "get") out += " ->" + std::to_string(a[o.args[0]]);
		else if (o.name == "fill") a.fill(int(o.args[0]));
		else if (o.name == "clear") a.clear();
		dump(); out += "\n";
	}
}
template <long CAP> static void runDynamic(const std::vector<Op>& ops) {
	DynamicArrayT<int, CAP> a;
	auto dump = [&]() { out += " iter="; bool f = true; for (const int& x : a) { if (!f) out += ","; f = false; out += std::to_string(x); } out += " count=" + std::to_string(int(a.count())) + (a.empty() ? " empty=1" : " empty=0"); };
	out += "init"; dump(); out += "\n";
	for (auto& o : ops) {
		out += o.name; for (long x : o.args) out += " " + std::to_string(x);
		if (o.name == "emp") out += " ->" + std::to_string(int(a.emplace(int(o.args[0]))));
		else if (o.name == "add") a += int(o.args[0]);
		else if (o.name == "get") out += " ->" + std::to_string(a[o.args[0]]);
		else if (o.name == "clear") a.clear();
		else if (o.name == "addall") { DynamicArrayT<int, CAP> other; for (long x : o.args) other.emplace(int(x)); a += other; }
		dump(); out += "\n";
	}
}

// ---- TaskListT<void, CAP> ----
template <long CAP> static void runTaskList(const std::vector<Op>& ops) {
	TaskListT<void, CAP> l;
	auto dump = [&]() {
		out += " count=" + std::to_string(int(l.count())) + (l.empty() ? " empty=1" : " empty=0") + " slots=";
		const TaskListT<void, CAP>& cl = l;
		for (long i = 0; i < CAP; ++i) { if (i) out += ","; out += std::to_string(int(cl[static_cast<Long>(i)].origin)) + ">" + std::to_string(int(cl[static_cast<Long>(i)].destination)); }
	};
	out += "init"; dump(); out += "\n";
	for (auto& o : ops) {
		out += o.name; for (long x : o.args) out += " " + std::to_string(x);
		if (o.name == "emp") out += " ->" + std::to_string(int(l.emplace(StateID(o.args[0]), StateID(o.args[1]))));
		else if (o.name == "rem") l.remove(static_cast<Long>(o.args[0]));
		else if (o.name == "clear") l.clear();
		dump(); out += "\n";
	}
}

// ---- bit stream ----
template <long BITS> struct StreamRun {
	using Buffer = StreamBufferT<BITS>;
	Buffer buffer; Buffer shadow; BitWriteStreamT<BITS>* w = nullptr; BitReadStreamT<BITS>* r = nullptr;
	alignas(8) unsigned char wmem[sizeof(BitWriteStreamT<BITS>)]; alignas(8) unsigned char rmem[sizeof(BitReadStreamT<BITS>)];
	void dump() { out += " data="; for (unsigned char x : buffer.data()) { char h[3]; snprintf(h, 3, "%02x", x); out += h; } }
	template <int W> void doWrite(unsigned long v) { w->template write<W>(static_cast<UBitWidth<W>>(v)); }
	template <int W> unsigned long doRead() { return r->template read<W>(); }
	void write(int width, unsigned long v) {
		switch (width) {
#define WCASE(W) case W: doWrite<W>(v); break;
			WCASE(1) WCASE(2) WCASE(3) WCASE(4) WCASE(5) WCASE(6) WCASE(7) WCASE(8) WCASE(9) WCASE(10) WCASE(11) WCASE(12) WCASE(13) WCASE(14) WCASE(15) WCASE(16)
			WCASE(17) WCASE(18) WCASE(19) WCASE(20) WCASE(21) WCASE(22) WCASE(23) WCASE(24) WCASE(25) WCASE(26) WCASE(27) WCASE(28) WCASE(29) WCASE(30) WCASE(31) WCASE(32)
#undef WCASE
		}
	}
	unsigned long read(int width) {
		switch (width) {
#define RCASE(W) case W: return doRead<W>();
			RCASE(1) RCASE(2) RCASE(3) RCASE(4) RCASE(5) RCASE(6) RCASE(7) RCASE(8) RCASE(9) RCASE(10) RCASE(11) RCASE(12) RCASE(13) RCASE(14) RCASE(15) RCASE(16)
			RCASE(17) RCASE(18) RCASE(19) RCASE(20) RCASE(21) RCASE(22) RCASE(23) RCASE(24) RCASE(25) RCASE(26) RCASE(27) RCASE(28) RCASE(29) RCASE(30) RCASE(31) RCASE(32)
#undef RCASE
		}
		return 0;
	}
	void run(const std::vector<Op>& ops) {
		memset(&buffer, 0xEE, sizeof buffer);             // a write stream must clear whatever was there
		for (auto& o : ops) {
			out += o.name; for (long x : o.args) out += " " + std::to_string(x);
			if (o.name == "ws") { w = new (wmem) BitWriteStreamT<BITS>{buffer}; out += " cursor=" + std::to_string(int(w->cursor())); }
			else if (o.name == "w") { write(int(o.args[0]), static_cast<unsigned long>(o.args[1])); out += " cursor=" + std::to_string(int(w->cursor())); }
			else if (o.name == "rs") { r = new (rmem) BitReadStreamT<BITS>{buffer}; out += " cursor=" + std::to_string(int(r->cursor())); }
			else if (o.name == "snap") { memcpy(&shadow, &buffer, sizeof buffer); }
			else if (o.name == "eq") { out += std::string(" ->") + ((buffer == shadow) ? "1" : "0") + ((buffer != shadow) ? "1" : "0"); }
			else if (o.name == "r") { unsigned long v = read(int(o.args[0])); out += " ->" + std::to_string(v) + " cursor=" + std::to_string(int(r->cursor())); }
			dump(); out += "\n";
		}
	}
};

#define CAPS(X) X(1) X(2) X(3) X(4) X(5) X(7) X(8) X(9) X(12) X(15) X(16) X(17) X(24) X(31) X(32) X(33) X(63) X(64) X(65) X(100) X(128) X(200) X(248) X(254) X(255)

int main() {
	std::string line;
	while (std::getline(std::cin, line)) {
		const size_t colon = line.find(':');
		if (colon == std::string::npos) continue;
		std::istringstream head(line.substr(0, colon)); std::string kind; long cap = 0; head >> kind >> cap;
		const std::vector<Op> ops = parseOps(line.substr(colon + 1));
		out += "test " + kind + " " + std::to_string(cap) + "\n";
		if (kind == "bw") { for (auto& o : ops) out += "bw " + std::to_string(o.args[0]) + " ->" + std::to_string(bitWidth(static_cast<uint32_t>(o.args[0]))) + "\n"; }
#define BA(C) else if (kind == "ba" && cap == C) runBitArray<C>(ops);
		CAPS(BA)
#define SA(C) else if (kind == "sa" && cap == C) runStatic<C>(ops);
		CAPS(SA)
#define DA(C) else if (kind == "da" && cap == C) runDynamic<C>(ops);
		CAPS(DA)
#define TL(C) else if (kind == "tl" && cap == C) runTaskList<C>(ops);
		CAPS(TL)
#define BS(C) else if (kind == "bs" && cap == C) { static StreamRun<C> sr; sr.run(ops); }
		CAPS(BS)
		else out += "unsupported\n";
	}
	fputs(out.c_str(), stdout);
	return 0;
}
