#!/bin/sh
# MANIFEST.setup_cmd: build the Coq development (full .vo), extract the model, build the OCaml runners,
# pre-build the harness configurations the quick checks use (cache under /verif/.cache, keyed by content hash).
set -e
cd "$(dirname "$0")"
(cd coq && coq_makefile -f _CoqProject -o Makefile >/dev/null && timeout 3000 make -j16 >/dev/null)
sh driver/build.sh
python3 -m vt.warm || true
