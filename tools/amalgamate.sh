#!/bin/sh
# Regenerate the single header from <repo>/development with <repo>/tools/join.py in a scratch
# directory (join.py writes to ../include relative to its own directory) and print the path
# of the scratch directory on stdout; the result is <dir>/include/ffsm2/machine.hpp.
# Usage: amalgamate.sh [repo] ; the caller removes the directory.
set -e
REPO=${1:-/repo}
D=$(mktemp -d /var/tmp/ffsm2-join.XXXXXX)
mkdir -p "$D/tools" "$D/include/ffsm2"
cp -r "$REPO/development" "$D/development"
cp "$REPO/tools/join.py" "$D/tools/join.py"
(cd "$D/tools" && python3 -W ignore join.py)
echo "$D"
