#!/usr/bin/env python3
"""Development aid (not a registered check): property-preserving rewrites of the library on which no check may raise an alarm.

  benign.py make <name> <python-file-with-EDITS>   apply textual edits to every file under include/ and development/ of /repo that contains the
                                                   pattern, store `git diff` as /verif/benign/<name>/patch.diff, undo
  benign.py run <name>... [--ids C01,C02]          for each: a scratch worktree of /repo with the stored patch applied; the test suite must still build
                                                   and pass; every quick check (or the ones named) is run against the worktree (VERIF_REPO), evidence
                                                   redirected; alarms are reported. C17 (which regenerates coq/Generated/InitFacts.v) runs last, alone.
"""
import sys, os, re, subprocess, json, glob, time, tempfile, shutil, concurrent.futures
os.environ.setdefault("VERIF_EVIDENCE_DIR", "/var/tmp/verif-scratch-evidence"); os.makedirs(os.environ["VERIF_EVIDENCE_DIR"], exist_ok=True)   # never overwrite /verif/evidence from a run against a modified tree
REPO = "/repo"; VERIF = os.path.dirname(os.path.dirname(os.path.abspath(__file__)))
def sh(cmd, cwd=None, timeout=3600, env=None):
    try:
        r = subprocess.run(cmd, shell=True, cwd=cwd, capture_output=True, text=True, timeout=timeout, env=env); return r.returncode, r.stdout + r.stderr
    except subprocess.TimeoutExpired: return -9, "timeout"
def make(name, edits):
    rc, out = sh("git -C %s status --porcelain --untracked-files=no" % REPO); assert out.strip() == "", "/repo dirty: " + out
    n = 0
    files = [f for pat in ("include/**/*.hpp", "development/**/*.hpp", "development/**/*.inl") for f in glob.glob(os.path.join(REPO, pat), recursive=True)]
    for f in files:
        t = open(f, encoding="utf-8", errors="surrogateescape").read(); t0 = t
        for old, new in edits:
            if old in t: t = t.replace(old, new)
        if t != t0: open(f, "w", encoding="utf-8", errors="surrogateescape").write(t); n += 1
    d = os.path.join(VERIF, "benign", name); os.makedirs(d, exist_ok=True)
    rc, out = sh("git -C %s diff" % REPO); open(os.path.join(d, "patch.diff"), "w").write(out)
    sh("git -C %s checkout -- ." % REPO); print(name, "files changed:", n, "diff lines:", len(out.splitlines()))
def check(pid, wt):
    rc, out = sh("./check %s --tier quick" % pid, cwd=VERIF, env=dict(os.environ, VERIF_REPO=wt, VERIF_JOBS="6"))
    v = [l for l in out.splitlines() if l.startswith("VIOLATION")]
    if rc == 0 and not v: return None
    reason = ""
    try: reason = json.load(open(v[0].split("replay=")[1].split()[0])).get("reason", "")[:400]
    except Exception: reason = out[-400:]
    return dict(rc=rc, v=v[:1], reason=reason)
def prepare(name):
    d = os.path.join(VERIF, "benign", name); res = dict(name=name)
    wt = tempfile.mkdtemp(prefix="benwt.", dir="/var/tmp"); os.rmdir(wt); res["wt"] = wt
    rc, out = sh("git -C %s worktree add -q --detach %s HEAD" % (REPO, wt)); assert rc == 0, out
    rc, out = sh("git apply %s/patch.diff" % d, cwd=wt); res["applies"] = rc == 0
    if rc != 0: res["apply_error"] = out[-300:]; return res
    rc, out = sh("cmake -S . -B _build -G Ninja >/dev/null && cmake --build _build 2>&1 | tail -4; rm -rf _build", cwd=wt, timeout=2400)
    res["suite"] = "Status: SUCCESS" in out
    if not res["suite"]: res["suite_tail"] = out[-300:]
    # the shipped header must still be the amalgamation of the sources
    return res
def run_one(name, ids):
    res = prepare(name)
    if res.get("applies") and res.get("suite"):
        res["alarms"] = {}
        for pid in ids:
            if pid == "C17": continue
            a = check(pid, res["wt"])
            if a: res["alarms"][pid] = a
    return res
def main():
    args = sys.argv[2:]; ids = ["C%02d" % i for i in range(1, 21)]
    if "--ids" in args: k = args.index("--ids"); ids = args[k + 1].split(","); args = args[:k] + args[k + 2:]
    with concurrent.futures.ThreadPoolExecutor(max_workers=int(os.environ.get("BENIGN_PAR", "3"))) as ex:
        results = list(ex.map(lambda n: run_one(n, ids), args))
    for res in results:
        if "C17" in ids and res.get("applies") and res.get("suite"):
            a = check("C17", res["wt"])
            if a: res["alarms"]["C17"] = a
        sh("git -C %s worktree remove --force %s" % (REPO, res["wt"])); shutil.rmtree(res["wt"], ignore_errors=True)
        res.pop("wt", None); print(json.dumps(res), flush=True)
    sh("python3 %s/tools/initfacts.py" % VERIF)
if __name__ == "__main__":
    if sys.argv[1] == "make":
        ns = {}; exec(open(sys.argv[3]).read(), ns); make(sys.argv[2], ns["EDITS"])
    elif sys.argv[1] == "run": main()
