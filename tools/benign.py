#!/usr/bin/env python3
"""Development aid (not a registered check): property-preserving rewrites of /repo on which no check may raise an alarm.

  benign.py make <name> <python-file-with-EDITS>   apply textual edits to every file under include/ and development/ that
                                                   contains the pattern, store `git diff` as /verif/benign/<name>/patch.diff, undo
  benign.py run <name> [ids...]                    apply the stored patch to /repo, check that the test suite still builds and
                                                   passes, run the quick checks named (default: all), undo, report alarms
"""
import sys, os, re, subprocess, json, glob, time
os.environ.setdefault("VERIF_EVIDENCE_DIR", "/var/tmp/verif-scratch-evidence"); os.makedirs(os.environ["VERIF_EVIDENCE_DIR"], exist_ok=True)   # never overwrite /verif/evidence from a run against a modified tree
REPO = "/repo"; VERIF = os.path.dirname(os.path.dirname(os.path.abspath(__file__)))
def sh(cmd, cwd=None, timeout=3600):
    r = subprocess.run(cmd, shell=True, cwd=cwd, capture_output=True, text=True, timeout=timeout); return r.returncode, r.stdout + r.stderr
def clean():
    rc, out = sh("git -C %s status --porcelain --untracked-files=no" % REPO); assert out.strip() == "", "/repo dirty: " + out
def make(name, edits):
    clean(); n = 0
    files = [f for pat in ("include/**/*.hpp", "development/**/*.hpp", "development/**/*.inl") for f in glob.glob(os.path.join(REPO, pat), recursive=True)]
    for f in files:
        t = open(f, encoding="utf-8", errors="surrogateescape").read(); t0 = t
        for old, new in edits:
            if old in t: t = t.replace(old, new)
        if t != t0: open(f, "w", encoding="utf-8", errors="surrogateescape").write(t); n += 1
    d = os.path.join(VERIF, "benign", name); os.makedirs(d, exist_ok=True)
    rc, out = sh("git -C %s diff" % REPO); open(os.path.join(d, "patch.diff"), "w").write(out)
    sh("git -C %s checkout -- ." % REPO); print(name, "files changed:", n, "diff lines:", len(out.splitlines()))
def run(name, ids):
    clean(); d = os.path.join(VERIF, "benign", name); res = {}
    rc, out = sh("git -C %s apply %s/patch.diff" % (REPO, d)); assert rc == 0, out
    try:
        rc, out = sh("rm -rf /var/tmp/benign_build && cmake -S %s -B /var/tmp/benign_build -G Ninja >/dev/null && cmake --build /var/tmp/benign_build 2>&1 | tail -3; rm -rf /var/tmp/benign_build" % REPO)
        res["suite"] = "Status: SUCCESS" in out
        if not res["suite"]: res["suite_tail"] = out[-300:]
        for pid in ids:
            t0 = time.time(); rc, out = sh("./check %s --tier quick" % pid, cwd=VERIF)
            v = [l for l in out.splitlines() if l.startswith("VIOLATION")]
            if rc != 0 or v:
                reason = ""
                try: reason = json.load(open(v[0].split("replay=")[1].split()[0])).get("reason", "")[:300]
                except Exception: reason = out[-300:]
                res[pid] = dict(rc=rc, v=v[:1], reason=reason)
    finally:
        sh("git -C %s checkout -- ." % REPO); sh("python3 %s/tools/initfacts.py" % VERIF)
    print(json.dumps({name: res}, indent=1)); return res
if __name__ == "__main__":
    if sys.argv[1] == "make":
        ns = {}; exec(open(sys.argv[3]).read(), ns); make(sys.argv[2], ns["EDITS"])
    elif sys.argv[1] == "run":
        ids = sys.argv[3:] or ["C%02d" % i for i in range(1, 21)]; run(sys.argv[2], ids)
