#!/usr/bin/env python3
"""Development aid: which lines of include/ffsm2/machine.hpp do the quick-tier scripts of the machine-level checks execute?
Builds every quick configuration with --coverage in a scratch directory, runs generated scripts, templates and the corpus,
merges gcov's per-line counts and prints the executable lines no run reached, grouped by function. Usage: coverage.py [scripts per cfg]"""
import sys, os, random, subprocess, hashlib, glob, tempfile, shutil, collections, re
sys.path.insert(0, os.path.dirname(os.path.dirname(os.path.abspath(__file__))))
from vt import props, cfg as cfgmod, gen, common, engine

def main():
    per = int(sys.argv[1]) if len(sys.argv) > 1 else 25
    root = tempfile.mkdtemp(prefix="ffsm2-cov.", dir="/var/tmp")
    specs = list(props.SPECS.items()) + [("C10", props.SPEC_C10_MACHINE), ("C17", props.SPEC_C17)]
    jobs = []
    for pid, spec in specs:
        rng = random.Random(int(hashlib.sha256((spec.pid + "quick").encode()).hexdigest()[:8], 16))
        cfgs = spec.cfgs("quick", rng)
        cfgs = cfgs + [dict(c, tapi=1) for k, c in enumerate(cfgs) if c["n"] <= 5 and (k % 2 == 0 or (c["plans"] and c["payload"]))]
        if spec.extra:
            for (c, sc, src) in spec.extra("quick"): jobs.append((c, [sc]))
        r2 = random.Random(1)
        for c in cfgs:
            prof = spec.profile(c) if callable(spec.profile) else spec.profile
            jobs.append((c, [gen.gen_script(r2, c, prof) for _ in range(per)]))
    for f in glob.glob(os.path.join(common.CORPUS, "*", "*.script")):
        sc = open(f).read(); jobs.append((engine.cfg_from_line(sc.split("\n")[0]), [sc]))
    by = collections.OrderedDict()
    for c, scripts in jobs: by.setdefault(cfgmod.name(c), [c, []])[1].extend(scripts)
    print("%d configurations, %d scripts" % (len(by), sum(len(v[1]) for v in by.values())))
    def one(item):
        name, (c, scripts) = item
        d = os.path.join(root, hashlib.sha256(name.encode()).hexdigest()[:12]); os.makedirs(d)
        cmd = ["g++", "-std=c++11", "-O0", "-w", "--coverage", "-DH_COVERAGE", "-ftemplate-depth=2000", "-I" + os.path.join(common.REPO, "include"),
               "-DH_HEADER=<ffsm2/machine.hpp>"] + cfgmod.flags(c) + [os.path.join(common.HARNESS, "machine_harness.cpp"), "-o", "bin"]
        if subprocess.run(cmd, cwd=d, capture_output=True, text=True).returncode != 0: return None
        for s in scripts:
            try: subprocess.run(["./bin"], cwd=d, input=s, capture_output=True, text=True, timeout=30)
            except Exception: pass
        subprocess.run(["gcov", "-b", "bin-machine_harness.gcda"], cwd=d, capture_output=True, text=True)
        f = os.path.join(d, "machine.hpp.gcov")
        return open(f).read() if os.path.exists(f) else None
    hits = collections.Counter(); execl = set(); text = {}
    for out in common.pmap(one, list(by.items())):
        if not out: continue
        for l in out.splitlines():
            m = re.match(r"\s*([^:]+):\s*(\d+):(.*)", l)
            if not m: continue
            cnt, ln, src = m.group(1).strip(), int(m.group(2)), m.group(3)
            if ln == 0: continue
            text[ln] = src
            if cnt == "-": continue
            execl.add(ln)
            if cnt not in ("#####", "=====", "0"): hits[ln] += 1
    missed = sorted(l for l in execl if hits[l] == 0)
    print("executable lines seen by gcov: %d, reached: %d, never reached: %d" % (len(execl), len(execl) - len(missed), len(missed)))
    for l in missed: print("%5d: %s" % (l, text[l].rstrip()[:150]))
    shutil.rmtree(root, ignore_errors=True)

if __name__ == "__main__":
    main()
