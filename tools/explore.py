#!/usr/bin/env python3
"""Development aid: run a rich random profile on many configurations, report disagreements."""
import sys, os, random, time
sys.path.insert(0, os.path.dirname(os.path.dirname(os.path.abspath(__file__))))
from vt import common, cfg as cfgmod, gen, corr

RICH = gen.Profile().with_(
    w_ops=dict(update=10, react=4, query=2, change=5, immChange=5, changeWith=3, immChangeWith=3, succeed=3, fail=2,
               plan_append=5, plan_appendWith=3, plan_clear=1, plan_removeAt=2, loadfrom=2, replayTransition=2, replayEnter=1,
               attachLogger=1, exit_enter=2, copy=1, destroy_construct=1, second_instance=1),
    w_meth=dict(guard=4, phase=4, life=2, plancb=1, query=1),
    w_act=dict(change=6, changeWith=3, cancel=4, succeed=4, fail=2, plan_append=4, plan_appendWith=2, plan_clear=1, plan_removeAt=1))

def main():
    seed = int(sys.argv[1]) if len(sys.argv) > 1 else 1
    count = int(sys.argv[2]) if len(sys.argv) > 2 else 50
    rng = random.Random(seed)
    cfgs = []
    for k in range(12):
        cfgs.append(cfgmod.make(n=rng.choice([1, 2, 3, 4, 5, 8]), head=rng.randrange(2), manual=rng.randrange(2), limit=rng.choice([1, 2, 3, 4]),
                                cap=rng.choice([1, 2, 3, 4]), payload=rng.choice([0, 0, 1, 2, 4, 5]), ctx=rng.randrange(3),
                                inj_root=rng.choice([0, 0, 1, 2]), inj_state=rng.choice([0, 0, 1, 2]),
                                plans=rng.randrange(2), serial=rng.randrange(2), history=rng.randrange(2),
                                log=rng.choice(["off", "on", "verbose"]),
                                defroot=rng.choice([0x3fff, 0x3fff, 0, 0x0aaa]), defstate=rng.choice([0x3fff, 0x3fff, 0, 0x0555])))
    t0 = time.time()
    bins = common.pmap(lambda c: cfgmod.build(c, "include"), cfgs)
    print("built %d in %.1fs" % (len(bins), time.time() - t0))
    bad = 0; total = 0
    for c, (b, log) in zip(cfgs, bins):
        if not b:
            print("BUILD FAIL", cfgmod.name(c)); print(log[-1500:]); bad += 1; continue
        scripts = [gen.gen_script(rng, c, RICH) for _ in range(count)]
        res = common.pmap(lambda s: corr.compare(b, s, corr.proj_all), scripts)
        for s, (kind, detail, out, mout, i) in zip(scripts, res):
            total += 1
            if kind != "agree":
                bad += 1
                if bad <= 3:
                    print("==", kind, cfgmod.name(c)); print(detail)
                    def still(sc): return corr.compare(b, sc, corr.proj_all)[0] == kind
                    small = corr.shrink(c, s, still)
                    print(small)
                    k2, d2, o2, m2, i2 = corr.compare(b, small, corr.proj_all)
                    print(d2)
                    open("/tmp/exp/bad_%d.txt" % bad, "w").write(small)
    print("total %d bad %d in %.1fs" % (total, bad, time.time() - t0))

if __name__ == '__main__':
    main()
