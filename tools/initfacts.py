#!/usr/bin/env python3
"""Structural facts about /repo's current source that no run-time test can vary, regenerated on every run
(DESIGN.md section 4.6): which data members of the records that make up a machine have no initialiser, and
whether CoreT's hand-written copy / move constructors name every member. Output: coq/Generated/InitFacts.v.

Uses clang's JSON AST (`-Xclang -ast-dump=json -Xclang -ast-dump-filter=<Record>`). Fails closed: if the AST
has an unexpected shape the emitted facts say "unknown", which the Coq obligations do not accept."""
import json, os, subprocess, sys, tempfile

REPO = os.environ.get("VERIF_REPO", "/repo")
VERIF = os.path.dirname(os.path.dirname(os.path.abspath(__file__)))
OUT = os.path.join(VERIF, "coq", "Generated", "InitFacts.v")

TU = """#define FFSM2_ENABLE_PLANS
#define FFSM2_ENABLE_SERIALIZATION
#define FFSM2_ENABLE_TRANSITION_HISTORY
#define FFSM2_ENABLE_LOG_INTERFACE
#include <%s>
"""
# records whose scalar members must all be initialised for a machine to be a function of its history only
RECORDS = ["TaskStatus", "Registry", "TransitionBase", "TransitionT", "TaskBase", "TaskT", "TaskLink", "Bounds", "TaskListT", "PlanDataT", "CoreT", "BitArrayT", "StaticArrayT", "StreamBufferT"]
# members that are deliberately left indeterminate (guarded by a flag) or initialised in the constructor body
EXEMPT = {
    ("TransitionT", "storage"): "payload bytes: read only when payloadSet",
    ("TaskT", "storage"): "payload bytes: read only when payloadSet",
    ("TaskBase", "prev"): "union member aliasing origin (initialised through origin)",
    ("TaskBase", "next"): "union member aliasing destination",
    ("CoreT", "context"): "constructor argument", ("CoreT", "logger"): "constructor argument",
    ("CoreT", "registry"): "class type with member initialisers", ("CoreT", "request"): "class type with member initialisers",
    ("CoreT", "planData"): "class type with member initialisers", ("CoreT", "previousTransition"): "class type with member initialisers",
}

def parse_objects(txt):
    dec = json.JSONDecoder(); i = 0; objs = []
    while i < len(txt):
        while i < len(txt) and txt[i] in " \n\r\t": i += 1
        if i >= len(txt): break
        o, j = dec.raw_decode(txt, i); objs.append(o); i = j
    return objs

def dump(record, header, incdir):
    with tempfile.TemporaryDirectory(prefix="ffsm2-ast.", dir="/var/tmp") as d:
        tu = os.path.join(d, "tu.cpp"); open(tu, "w").write(TU % header)
        r = subprocess.run(["clang++", "-std=c++11", "-fsyntax-only", "-w", "-I" + incdir, "-Xclang", "-ast-dump=json",
                            "-Xclang", "-ast-dump-filter=" + record, tu], capture_output=True, text=True)
        if r.returncode != 0: return None, r.stderr[-800:]
        try: return parse_objects(r.stdout), ""
        except Exception as e: return None, repr(e)

SCALARS = {"bool", "char", "int", "unsigned", "StateID", "Long", "Short", "Prong", "Index", "Unit", "uint8_t", "uint16_t", "uint32_t", "uint64_t",
           "Method", "TransitionType", "Result", "Storage", "Data"}
def is_scalar(ty):
    """builtin / enum / pointer members (and arrays of them): the ones an omitted initialiser leaves indeterminate"""
    q = (ty.get("qualType") or "").replace("const ", "").strip()
    if q.endswith("*") or "*const" in q or "* const" in q: return True
    base = q.split("[")[0].strip().split("::")[-1].strip()
    return base in SCALARS

def calls_clear(node):
    if isinstance(node, dict):
        if node.get("kind") in ("MemberExpr", "UnresolvedMemberExpr", "CXXDependentScopeMemberExpr", "UnresolvedLookupExpr") and (node.get("name") == "clear" or node.get("member") == "clear"): return True
        return any(calls_clear(c) for c in node.get("inner", []))
    return False

def record_facts(objs, record):
    """-> (fields: list of (name, initialised|None), ctor_inits: dict kind -> list of member names)"""
    fields = []; ctors = {}; body_clears = False
    def visit_record(rec):
        nonlocal body_clears
        for c in rec.get("inner", []):
            k = c.get("kind")
            if k == "FieldDecl" and c.get("name"):
                fields.append((c["name"], bool(c.get("hasInClassInitializer")) or not is_scalar(c.get("type", {}))))
            elif k == "IndirectFieldDecl": pass
            elif k == "CXXRecordDecl" and not c.get("name") and c.get("tagUsed") in ("union", "struct"):   # anonymous union/struct members
                visit_record(c)
            elif k == "CXXConstructorDecl":
                qt = c.get("type", {}).get("qualType", "")
                inits = [(x.get("anyInit") or {}).get("name") for x in c.get("inner", []) if x.get("kind") == "CXXCtorInitializer"]
                kind = "copy" if "(const " + record in qt.replace("ffsm2::detail::", "") and "&)" in qt else "move" if "&&)" in qt and record in qt else "other"
                if qt.startswith("void ()"):
                    kind = "default"
                    if calls_clear(c): body_clears = True
                ctors.setdefault(kind, []).append((inits, any(x.get("kind") == "CompoundStmt" for x in c.get("inner", []))))
    def find(o):
        if isinstance(o, dict):
            if o.get("kind") in ("CXXRecordDecl", "ClassTemplatePartialSpecializationDecl", "ClassTemplateSpecializationDecl") and o.get("name") == record and (o.get("completeDefinition") or o.get("definitionData")):
                visit_record(o)
            for c in o.get("inner", []): find(c)
    for o in objs:
        if o.get("kind") in ("ClassTemplateDecl", "CXXRecordDecl", "ClassTemplatePartialSpecializationDecl", "ClassTemplateSpecializationDecl"): find(o)
        # out-of-line constructor definitions carry the initialiser lists
        if o.get("kind") == "CXXConstructorDecl":
            qt = o.get("type", {}).get("qualType", "")
            inits = [(x.get("anyInit") or {}).get("name") for x in o.get("inner", []) if x.get("kind") == "CXXCtorInitializer"]
            if any(x.get("kind") == "CompoundStmt" for x in o.get("inner", [])):
                q = qt.replace("ffsm2::detail::", "")
                kind = "copy" if "(const " + record in q else "move" if "&&)" in q and "(" + record in q else "other"
                ctors.setdefault(kind + "_def", []).append(inits)
    return fields, ctors, body_clears

def gather(variant):
    header, incdir = ("ffsm2/machine.hpp", os.path.join(REPO, "include")) if variant == "include" else ("ffsm2/machine_dev.hpp", os.path.join(REPO, "development"))
    uninit = []; notes = []; core_fields = []; copy_missing = None; move_missing = None
    for rec in RECORDS:
        objs, err = dump(rec, header, incdir)
        if objs is None:
            notes.append("%s: AST dump failed: %s" % (rec, err[:200])); uninit.append("%s::<unknown>" % rec); continue
        fields, ctors, clears = record_facts(objs, rec)
        if not fields and rec not in ("TaskBase",):
            notes.append("%s: no fields found in the AST" % rec); uninit.append("%s::<unknown>" % rec); continue
        seen = set()
        for name, init in fields:
            if (rec, name) in seen: continue
            seen.add((rec, name))
            if init or (rec, name) in EXEMPT: continue
            if rec == "BitArrayT" and name == "_storage" and clears: continue       # BitArrayT() { clear(); }
            uninit.append("%s::%s" % (rec, name))
        if rec == "CoreT":
            core_fields = sorted(set(n for n, _ in fields))
            def missing(kind):
                lists = ctors.get(kind + "_def") or [i for i, has_body in ctors.get(kind, []) if has_body]
                if not lists: return None
                return sorted(set(core_fields) - set(x for l in lists for x in l if x))
            copy_missing = missing("copy"); move_missing = missing("move")
    return uninit, copy_missing, move_missing, core_fields, notes

def coq_list(xs): return "[" + "; ".join('"%s"' % x for x in xs) + "]"

def main():
    res = {v: gather(v) for v in ("include", "development")}
    uninit = sorted(set(x for v in res for x in res[v][0]))
    def merge(idx):
        vals = [res[v][idx] for v in res]
        if any(x is None for x in vals): return ["<unknown>"]
        return sorted(set(x for l in vals for x in l))
    copy_missing = merge(1); move_missing = merge(2)
    notes = [n for v in res for n in res[v][4]]
    os.makedirs(os.path.dirname(OUT), exist_ok=True)
    body = """(* GENERATED by tools/initfacts.py from /repo's working tree (both header variants) on every run of the C17 / C09 checks.
   Do not edit. Facts read off clang's AST:
     uninitialised_fields : scalar data members of the records that make up a machine which have neither an in-class
                            initialiser nor (BitArrayT) a constructor that clears them, minus the documented exemptions;
     copy_ctor_missing / move_ctor_missing : members of CoreT that its hand-written copy / move constructor does not name. *)
From Coq Require Import List String.
Import ListNotations.
Open Scope string_scope.
Definition uninitialised_fields : list string := %s.
Definition copy_ctor_missing : list string := %s.
Definition move_ctor_missing : list string := %s.
Definition core_fields : list string := %s.
""" % (coq_list(uninit), coq_list(copy_missing), coq_list(move_missing), coq_list(res["include"][3]))
    out = OUT
    if "--out" in sys.argv: out = sys.argv[sys.argv.index("--out") + 1]
    old = open(out).read() if os.path.exists(out) else None
    if old != body:
        open(out, "w").write(body)
    print(json.dumps(dict(uninitialised_fields=uninit, copy_ctor_missing=copy_missing, move_ctor_missing=move_missing,
                          core_fields=res["include"][3], notes=notes)))

if __name__ == "__main__":
    main()
