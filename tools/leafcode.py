#!/usr/bin/env python3
"""Translate the bodies of FFSM2's leaf functions from /repo's current source into terms of the small imperative
language of coq/Model/Cxx.v (DESIGN.md section 4.7).  Output: coq/Generated/LeafCode.v (or the file named by --out).

Source of truth is clang's *typed* AST (`-Xclang -ast-dump=json`) of a translation unit that explicitly instantiates
the templates at representative arguments: every implicit conversion, promotion and compound-assignment type is
spelled out by clang, the translator only transcribes.  Template parameters and static constexpr members stay
*symbolic* (EConst), so the term obtained from BitArrayT<13> is the code of every BitArrayT<N> whose Index type is
uint8_t; a second instantiation (BitArrayT<300>) covers uint16_t.

Fails closed: a construct outside the supported subset makes the definition `None`-like (an `Unsupported` marker term
that no proof accepts) - never a guess."""
import json, os, subprocess, sys, tempfile, re

REPO = os.environ.get("VERIF_REPO", "/repo")
VERIF = os.path.dirname(os.path.dirname(os.path.abspath(__file__)))
OUT = os.path.join(VERIF, "coq", "Generated", "LeafCode.v")

TU = r"""#define FFSM2_ENABLE_PLANS
#define FFSM2_ENABLE_SERIALIZATION
#include <%s>
namespace d = ffsm2::detail;
template class d::BitArrayT<13>;
template bool d::BitArrayT<13>::get<unsigned>(unsigned) const;
template void d::BitArrayT<13>::set<unsigned>(unsigned);
template void d::BitArrayT<13>::clear<unsigned>(unsigned);
template bool d::BitArrayT<13>::get<uint8_t>(uint8_t) const;
template void d::BitArrayT<13>::set<uint8_t>(uint8_t);
template void d::BitArrayT<13>::clear<uint8_t>(uint8_t);
template class d::BitArrayT<300>;
template bool d::BitArrayT<300>::get<unsigned>(unsigned) const;
template void d::BitArrayT<300>::set<unsigned>(unsigned);
template void d::BitArrayT<300>::clear<unsigned>(unsigned);
template class d::StreamBufferT<100>;
template void d::BitWriteStreamT<100>::write<5>(uint8_t);
template void d::BitWriteStreamT<100>::write<12>(uint16_t);
template void d::BitWriteStreamT<100>::write<20>(uint32_t);
template uint8_t d::BitReadStreamT<100>::read<5>();
template uint16_t d::BitReadStreamT<100>::read<12>();
template uint32_t d::BitReadStreamT<100>::read<20>();
bool leafcode_use_static_array(d::StaticArrayT<uint8_t, 5>& a) { a.fill(uint8_t(1)); a.clear(); return a.empty(); }      // (the whole class cannot be instantiated: its iterators do not compile)
template class d::TaskListT<void, 5>;
template ffsm2::Long d::TaskListT<void, 5>::emplace<const ffsm2::StateID&, const ffsm2::StateID&>(const ffsm2::StateID&, const ffsm2::StateID&);
using LeafcodeArgs = d::ArgsT<d::G_<0, ffsm2::EmptyContext, ffsm2::Automatic, 4, 5, void>, d::TL_<int, long, short>, 2, 5, void>;
template class d::PlanT<LeafcodeArgs>;
uint32_t leafcode_use_bitWidth(uint32_t v) { return ffsm2::bitWidth(v); }
"""

TYPEMAP = {"bool": "TBool", "unsigned char": "TU8", "unsigned short": "TU16", "unsigned int": "TU32", "unsigned long": "TU64",
           "unsigned long long": "TU64", "signed char": "TS8", "char": "TS8", "short": "TS16", "int": "TS32", "long": "TS64", "long long": "TS64",
           # <stdint.h> names (they appear un-desugared in function signatures); LP64
           "uint8_t": "TU8", "uint16_t": "TU16", "uint32_t": "TU32", "uint64_t": "TU64", "int8_t": "TS8", "int16_t": "TS16", "int32_t": "TS32", "int64_t": "TS64"}
BITS = dict(TBool=1, TU8=8, TU16=16, TU32=32, TU64=64, TS8=8, TS16=16, TS32=32, TS64=64)
SHORT = dict(TBool="b", TU8="u8", TU16="u16", TU32="u32", TU64="u64", TS8="s8", TS16="s16", TS32="s32", TS64="s64")
def t_range(t):
    b = BITS[t]
    return (-(1 << (b - 1)), (1 << (b - 1)) - 1) if t.startswith("TS") else (0, (1 << b) - 1)
def widening(a, b):
    ra, rb = t_range(a), t_range(b); return rb[0] <= ra[0] and ra[1] <= rb[1]

class Unsupported(Exception): pass

def qual(node):
    t = node.get("type") or {}
    return t.get("desugaredQualType") or t.get("qualType") or ""
def strip_cv(q):
    q = re.sub(r"\b(const|volatile)\b", "", q).replace("&", "").strip()
    return re.sub(r"\s+", " ", q)
def ity_of_qual(q):
    q = strip_cv(q)
    if q in TYPEMAP: return TYPEMAP[q]
    raise Unsupported("type %r" % q)
def ity(node): return ity_of_qual(qual(node))
def is_ref(node): return "&" in ((node.get("type") or {}).get("qualType") or "")
def is_const_qualified(node): return bool(re.search(r"\bconst\b", (node.get("type") or {}).get("qualType") or ""))

def coq_str(s): return '"%s"' % s.replace('"', '""')
def coq_z(v): return "(%d)" % v if v < 0 else "%d" % v

BINOPS = {"+": "OAdd", "-": "OSub", "*": "OMul", "/": "ODiv", "%": "ORem", "<<": "OShl", ">>": "OShr", "&": "OAnd", "|": "OOr", "^": "OXor",
          "<": "OLt", "<=": "OLe", ">": "OGt", ">=": "OGe", "==": "OEq", "!=": "ONe"}
CMP = {"<", "<=", ">", ">=", "==", "!="}

def kids(n): return [c for c in n.get("inner", []) if c]           # null children are {} in the JSON

class Fn:
    """translation of one function body"""
    def __init__(self, params, class_consts, this_prefix="", const_prefix=""):
        self.this_prefix = this_prefix      # access path of the object the function runs in (inlined member functions of sub-objects)
        self.const_prefix = const_prefix    # qualifier of that object's class constants
        self.owner = None                   # label of the class the function is a member of (None: not tracked)
        self.ret_mode = None                # inlined function with a result: ("assign", local) turns `return e` into an assignment
        self.locals = {}          # decl id -> emitted name
        self.names = {}           # emitted name -> count (shadowing)
        self.alias = {}           # decl id -> lvalue (reference locals, range-for element variables)
        self.const_local = set()  # ids of const-qualified value locals
        self.assigned = set()     # emitted names of locals assigned after their declaration
        self.class_consts = class_consts
        self.calls = set()
        self.order = []           # emitted names in order of declaration
        self.params = []
        for p in params:
            if is_ref(p) and is_const_qualified(p) and strip_cv(qual(p)) in TYPEMAP:
                # const T& of a scalar type: read like a value parameter (the caller's object is not modified during the call - the functions translated
                # receive locals of their callers; stated in DESIGN.md 4.7)
                self.params.append(self.declare(p)); self.const_local.add(p["id"])
            elif is_ref(p) or "*" in qual(p) or "[" in qual(p):
                self.alias[p["id"]] = ("object", p.get("name"))                # a reference to an object: only used as a member-access base
            else:
                self.params.append(self.declare(p))
                if is_const_qualified(p): self.const_local.add(p["id"])

    def declare(self, d):
        name = d.get("name") or "_"
        k = self.names.get(name, 0); self.names[name] = k + 1
        em = name if k == 0 else "%s'%d" % (name, k)
        self.locals[d["id"]] = em
        self.order.append(em)
        return em

    # ---------- lvalues ----------
    def path(self, n):
        """access path of an object / array designator: this-> is the empty prefix"""
        k = n["kind"]
        if k == "CXXThisExpr": return self.this_prefix
        if k in ("ParenExpr",): return self.path(kids(n)[0])
        if k == "ImplicitCastExpr" and n.get("castKind") in ("NoOp", "ArrayToPointerDecay", "UncheckedDerivedToBase", "DerivedToBase"): return self.path(kids(n)[0])
        if k == "MemberExpr":
            base = self.path(kids(n)[0])
            return (base + "." if base else "") + n["name"]
        if k == "DeclRefExpr":
            rid = n["referencedDecl"]["id"]
            a = self.alias.get(rid)
            if a and a[0] == "object": return a[1]
            if a and a[0] == "array": return a[1]
            raise Unsupported("object designator %s" % n["referencedDecl"].get("name"))
        raise Unsupported("object designator kind %s" % k)

    def lvalue(self, n):
        k = n["kind"]
        if k == "ParenExpr": return self.lvalue(kids(n)[0])
        if k == "CallExpr":                                          # ffsm2::forward<T>(x) / ffsm2::move(x): the same object
            ks = kids(n); callee = ks[0]
            while callee["kind"] in ("ImplicitCastExpr", "ParenExpr"): callee = kids(callee)[0]
            if callee["kind"] == "DeclRefExpr" and callee["referencedDecl"].get("name") in ("forward", "move") and len(ks) == 2: return self.lvalue(ks[1])
            raise Unsupported("call used as an lvalue")
        if k == "ImplicitCastExpr" and n.get("castKind") == "NoOp": return self.lvalue(kids(n)[0])
        if k in ("CXXMemberCallExpr", "CXXOperatorCallExpr"):            # an accessor returning a reference: the lvalue its return statement names
            fd, obj, args = self.callee_of(n); r = accessor_return(fd)
            if r is None: raise Unsupported("call of %s used as an lvalue" % fd.get("name"))
            return self.sub_fn(fd, obj, args).lvalue(r)
        if k == "DeclRefExpr":
            rd = n["referencedDecl"]; rid = rd["id"]
            if rid in self.alias:
                a = self.alias[rid]
                if a[0] in ("object", "array"): raise Unsupported("whole-object use of %s" % rd.get("name"))
                return a
            if rid in self.locals: return ("local", self.locals[rid])
            vo = AST_VAROWNER.get(rd["id"])
            if rd.get("kind") == "VarDecl" and rd.get("name") in self.class_consts and (vo is None or self.owner is None or vo == self.owner):
                return ("const", self.const_prefix + rd["name"])
            if rd.get("kind") == "VarDecl" and rd["id"] in AST_VAROWNER:           # a static constant of another class: symbolic, qualified by that class's name
                return ("const", OWNER_CLASS[AST_VAROWNER[rd["id"]]] + "::" + rd["name"])
            if rd.get("kind") == "VarDecl" and rd["id"] in AST_GLOBALS: return ("global", rd["id"])
            raise Unsupported("reference to %s %s" % (rd.get("kind"), rd.get("name")))
        if k == "MemberExpr":
            if "[" in qual(n): raise Unsupported("array member used as a value")
            base = kids(n)[0]
            while (base["kind"] == "MemberExpr" and not base.get("name")) or (base["kind"] == "ImplicitCastExpr" and base.get("castKind") in ("UncheckedDerivedToBase", "DerivedToBase", "NoOp")):
                base = kids(base)[0]          # through an anonymous union / to the base class that declares the member
            if base["kind"] == "DeclRefExpr" and self.alias.get(base["referencedDecl"]["id"], ("",))[0] == "elemobj":
                _, arr, idx = self.alias[base["referencedDecl"]["id"]]
                return ("elem", arr + "." + UNION_BY_ID.get(n.get("referencedMemberDecl"), n["name"]), idx)
            return ("field", self.path(n))
        if k == "ArraySubscriptExpr":
            a, i = kids(n)
            return ("elem", self.path(a), self.expr(i))
        raise Unsupported("lvalue kind %s" % k)

    def read(self, lv):
        if lv[0] == "local": return "EVar %s" % coq_str(lv[1])
        if lv[0] == "field": return "EField %s" % coq_str(lv[1])
        if lv[0] == "elem": return "EElem %s (%s)" % (coq_str(lv[1]), lv[2])
        if lv[0] == "const": return "EConst %s" % coq_str(lv[1])
        if lv[0] == "subst": return lv[1]
        if lv[0] == "global":
            # a namespace-scope constant (static constexpr T NAME = init): its initialiser, converted to its type
            v = AST_GLOBALS[lv[1]]; init = [c for c in kids(v) if "Comment" not in c.get("kind", "")]
            if len(init) != 1: raise Unsupported("constant %s without initialiser" % v.get("name"))
            sub = Fn([], set()); e = sub.expr(init[0]); self.calls.update(sub.calls)
            return e if ity(init[0]) == ity(v) else "ECast %s (%s)" % (ity(v), e)
        raise Unsupported("read of %r" % (lv,))

    def write(self, lv, e):
        if lv[0] == "local":
            self.assigned.add(lv[1]); return "SLocal %s (%s)" % (coq_str(lv[1]), e)
        if lv[0] == "field": return "SSetField %s (%s)" % (coq_str(lv[1]), e)
        if lv[0] == "elem": return "SSetElem %s (%s) (%s)" % (coq_str(lv[1]), lv[2], e)
        raise Unsupported("write to %r" % (lv,))

    # ---------- expressions ----------
    def expr(self, n):
        k = n["kind"]
        if k in ("ParenExpr", "ConstantExpr", "ExprWithCleanups"): return self.expr(kids(n)[-1])
        if k == "IntegerLiteral": return "EInt %s" % coq_z(int(n["value"]))
        if k == "CharacterLiteral": return "EInt %s" % coq_z(int(n["value"]))
        if k == "CXXBoolLiteralExpr": return "EInt %d" % (1 if n["value"] else 0)
        if k == "SubstNonTypeTemplateParmExpr":
            pd = [c for c in kids(n) if c.get("kind") == "NonTypeTemplateParmDecl"]
            if len(pd) != 1 or not pd[0].get("name"): raise Unsupported("template parameter without a name")
            return "EConst %s" % coq_str(self.const_prefix + pd[0]["name"])
        if k in ("ImplicitCastExpr", "CXXStaticCastExpr", "CXXFunctionalCastExpr", "CStyleCastExpr"):
            ck = n.get("castKind"); (c,) = kids(n)[-1:]
            if ck == "LValueToRValue": return self.read(self.lvalue(c))
            if ck == "NoOp": return self.expr(c)
            if ck in ("IntegralCast", "IntegralToBoolean"): return "ECast %s (%s)" % (ity(n), self.expr(c))
            raise Unsupported("cast kind %s" % ck)
        if k == "InitListExpr":
            ks = kids(n)
            if len(ks) == 0: return "EInt 0"
            if len(ks) == 1: return self.expr(ks[0])
            raise Unsupported("initialiser list")
        if k == "BinaryOperator":
            op = n["opcode"]; a, b = kids(n)
            if op == "&&": return "EAndAlso (%s) (%s)" % (self.expr(a), self.expr(b))
            if op == "||": return "EOrElse (%s) (%s)" % (self.expr(a), self.expr(b))
            if op in BINOPS:
                t = "TBool" if op in CMP else ity(n)
                if op in CMP and ity(a) != ity(b): raise Unsupported("comparison of different types")
                return "EBin %s %s (%s) (%s)" % (BINOPS[op], t, self.expr(a), self.expr(b))
            raise Unsupported("binary operator %s in an expression" % op)
        if k == "UnaryOperator":
            op = n["opcode"]; (c,) = kids(n)
            if op == "~": return "EUn OBitNot %s (%s)" % (ity(n), self.expr(c))
            if op == "!": return "EUn OLogNot TBool (%s)" % self.expr(c)
            if op == "-": return "EUn ONeg %s (%s)" % (ity(n), self.expr(c))
            if op == "+": return self.expr(c)
            raise Unsupported("unary operator %s in an expression" % op)
        if k == "ConditionalOperator":
            c, a, b = kids(n); return "ECond (%s) (%s) (%s)" % (self.expr(c), self.expr(a), self.expr(b))
        if k in ("CXXMemberCallExpr", "CXXOperatorCallExpr"):            # an accessor (`return <expression>;`): that expression, in the callee's object
            fd, obj, args = self.callee_of(n); r = accessor_return(fd)
            if r is None: raise Unsupported("call of the member function %s inside an expression" % fd.get("name"))
            return self.sub_fn(fd, obj, args).expr(r)
        if k == "CallExpr":
            ks = kids(n); callee = ks[0]
            while callee["kind"] in ("ImplicitCastExpr", "ParenExpr"): callee = kids(callee)[0]
            if callee["kind"] != "DeclRefExpr" or callee["referencedDecl"].get("kind") not in ("FunctionDecl", "CXXMethodDecl"): raise Unsupported("callee")
            rd = callee["referencedDecl"]
            owner = AST_OWNER.get(rd["id"], "") if rd.get("kind") == "CXXMethodDecl" else ""       # a static member function called without an object
            name = call_name((owner + "__" if owner else "") + rd["name"], rd["type"]["qualType"], AST_NODE.get(rd["id"]))
            if len(ks) == 1: name += "_r" + SHORT[ity(n)]            # no parameters: instantiations differ in the result type only
            self.calls.add((rd["id"], rd["name"], rd["type"]["qualType"], name))
            args = [self.expr(a) for a in ks[1:]]
            if len(args) == 0: return "ECall0 %s" % coq_str(name)
            if len(args) == 1: return "ECall1 %s (%s)" % (coq_str(name), args[0])
            if len(args) == 2: return "ECall2 %s (%s) (%s)" % (coq_str(name), args[0], args[1])
            raise Unsupported("call with %d arguments" % len(args))
        raise Unsupported("expression kind %s" % k)

    def invariant(self, n):
        """does the expression depend on constants only (template parameters, static members, literals, array extents)?"""
        k = n["kind"]
        if k == "DeclRefExpr":
            rd = n["referencedDecl"]
            return rd["id"] not in self.locals and rd["id"] not in self.alias and rd.get("name") in self.class_consts
        if k in ("MemberExpr", "ArraySubscriptExpr", "CallExpr", "CXXThisExpr") and k != "CallExpr": return False
        return all(self.invariant(c) for c in kids(n) if c.get("kind") not in ("NonTypeTemplateParmDecl",))

    def stable_index(self, n):
        """an index expression whose value cannot change while a reference bound to the element is alive: literals, constants, const locals"""
        k = n["kind"]
        if k == "DeclRefExpr":
            rd = n["referencedDecl"]
            return rd["id"] in self.const_local or (rd["id"] not in self.locals and rd["id"] not in self.alias and rd.get("name") in self.class_consts)
        if k in ("MemberExpr", "ArraySubscriptExpr", "CallExpr", "CXXThisExpr"): return False
        return all(self.stable_index(c) for c in kids(n) if c.get("kind") not in ("NonTypeTemplateParmDecl",))

    # ---------- member functions of this object and of its sub-objects ----------
    def callee_of(self, n):
        """a member call `obj.f(args)` / `obj[args]` -> (declaration with a body, access path of obj, argument nodes)"""
        ks = kids(n)
        if n["kind"] == "CXXMemberCallExpr":
            callee = ks[0]
            while callee["kind"] == "ParenExpr": callee = kids(callee)[0]
            if callee["kind"] != "MemberExpr": raise Unsupported("member call shape")
            fid = callee.get("referencedMemberDecl"); objn = kids(callee)[0]; args = ks[1:]
        else:
            c = ks[0]
            while c["kind"] in ("ImplicitCastExpr", "ParenExpr"): c = kids(c)[0]
            if c["kind"] != "DeclRefExpr" or c["referencedDecl"].get("kind") != "CXXMethodDecl": raise Unsupported("operator call on a non-member")
            fid = c["referencedDecl"]["id"]; objn = ks[1]; args = ks[2:]
        fd = AST_NODE.get(fid)
        if fd is None or not body_of(fd): raise Unsupported("member function %s has no body in the AST" % (fd or {}).get("name", fid))
        if fd.get("storageClass") == "static" or fd.get("virtual"): raise Unsupported("static / virtual member call")
        return fd, self.path(objn), args

    def sub_fn(self, fd, obj, args=None, subst=True):
        """translation context of the member function fd running in the object at path obj; with subst, its (scalar, by-value or const-reference)
        parameters stand for the argument expressions - only used for accessors, whose single expression reads each parameter at most in one place"""
        owner = AST_OWNER.get(fd["id"])
        cp = self.const_prefix if obj == self.this_prefix and owner == self.owner else (obj + "::" if obj else "")
        sub = Fn([], OWNER_CONSTS.get(owner, set()), this_prefix=obj, const_prefix=cp); sub.owner = owner
        sub.names = self.names; sub.order = self.order; sub.calls = self.calls; sub.assigned = self.assigned
        if subst and args is not None:
            ps = params_of(fd)
            if len(ps) != len(args): raise Unsupported("default arguments")
            for p, a in zip(ps, args):
                if (is_ref(p) and not is_const_qualified(p)) or "*" in qual(p) or strip_cv(qual(p)) not in TYPEMAP: raise Unsupported("parameter %s of an accessor" % p.get("name"))
                sub.alias[p["id"]] = ("subst", self.arg_value(p, a))
        return sub

    def arg_value(self, p, a):
        """value of the argument a bound to the scalar parameter p (by value, or by const reference: the object named is read at the call)"""
        if is_ref(p):
            if ity(a) != ity(p): raise Unsupported("reference parameter bound through a conversion")
            return self.read(self.lvalue(a))
        e = self.expr(a)
        return e if ity(a) == ity(p) else "ECast %s (%s)" % (ity(p), e)

    def struct_elem(self, n):
        """an lvalue of struct type that designates an array element -> (path of the array, index expression)"""
        n = strip_noop(n)
        if n["kind"] == "ArraySubscriptExpr":
            a, i = kids(n); return self.path(a), self.expr(i)
        if n["kind"] in ("CXXMemberCallExpr", "CXXOperatorCallExpr"):
            fd, obj, args = self.callee_of(n); r = accessor_return(fd)
            if r is None: raise Unsupported("call of %s used as an object" % fd.get("name"))
            return self.sub_fn(fd, obj, args).struct_elem(r)
        raise Unsupported("struct designator kind %s" % n["kind"])

    def inline_call(self, n, ret):
        """a call of a member function with a compound body, as a statement: the parameters become fresh locals, then the body runs in the callee's object.
        ret: ("void",) | ("assign", local) | ("return",).  Except in return mode every return statement of the callee must be in tail position."""
        fd, obj, args = self.callee_of(n)
        rt = strip_cv(qual(n))
        if ret[0] == "void" and rt != "void" and rt not in TYPEMAP: raise Unsupported("discarded result of type %s" % rt)
        if ret[0] != "void" and rt not in TYPEMAP: raise Unsupported("result of type %s" % rt)
        if ret[0] != "return" and not tail_returns_only(body_of(fd)): raise Unsupported("inlined member function %s returns early" % fd.get("name"))
        sub = self.sub_fn(fd, obj, subst=False); sub.ret_mode = ret if ret[0] != "return" else None
        if ret[0] == "void" and rt != "void": sub.ret_mode = ("discard",)
        ps = params_of(fd)
        if len(ps) != len(args): raise Unsupported("default arguments")
        binds = []
        for p, a in zip(ps, args):
            if (is_ref(p) and not is_const_qualified(p)) or "*" in qual(p) or strip_cv(qual(p)) not in TYPEMAP: raise Unsupported("reference parameter of an inlined call")
            name = sub.declare(p)
            if is_const_qualified(p): sub.const_local.add(p["id"])
            an = strip_noop(a)
            if an["kind"] in ("CXXMemberCallExpr", "CXXOperatorCallExpr") and accessor_return(self.callee_of(an)[0]) is None:
                if ity(an) != ity(p): raise Unsupported("conversion of an inlined result")
                binds.append(self.inline_call(an, ("assign", name)))
            else:
                binds.append("SLocal %s (%s)" % (coq_str(name), self.arg_value(p, a)))
        body = sub.stmt(body_of(fd))
        return self.seq(binds + [body])

    # ---------- statements ----------
    def seq(self, ss):
        ss = [s for s in ss if s != "SSkip"]
        if not ss: return "SSkip"
        r = ss[-1]
        for s in reversed(ss[:-1]): r = "SSeq (%s)\n(%s)" % (s, r)
        return r

    def promote(self, t): return "TS32" if BITS[t] < 32 else t

    def decl(self, d):
        k = d["kind"]
        if k in ("TypeAliasDecl", "TypedefDecl", "StaticAssertDecl", "UsingDecl"): return "SSkip"
        if k != "VarDecl": raise Unsupported("declaration kind %s" % k)
        init = kids(d)
        init = [c for c in init if c.get("kind") not in ("FullComment",)]
        if is_ref(d) and len(init) == 1 and strip_noop(init[0])["kind"] in ("ArraySubscriptExpr", "CXXMemberCallExpr", "CXXOperatorCallExpr") and strip_cv(qual(init[0])) not in TYPEMAP:
            # a reference to an element of an array of structs: the index is evaluated now (a reference stays bound to that element), members are reached
            # through one array per field ("_items.origin")
            apath, iexpr = self.struct_elem(init[0])
            hidden = (d.get("name") or "ref") + "#idx"
            k = self.names.get(hidden, 0); self.names[hidden] = k + 1
            if k: hidden = "%s'%d" % (hidden, k)
            self.order.append(hidden)
            self.alias[d["id"]] = ("elemobj", apath, "EVar %s" % coq_str(hidden))
            return "SLocal %s (%s)" % (coq_str(hidden), iexpr)
        if is_ref(d):
            if len(init) != 1: raise Unsupported("reference without initialiser")
            lv = self.lvalue(init[0]) if "[" not in strip_cv(qual(init[0])) else ("array", self.path(init[0]))
            if lv[0] == "elem":
                a, i = kids(strip_noop(init[0]))
                if not self.stable_index(i): raise Unsupported("reference to an element whose index may change")
            self.alias[d["id"]] = lv
            return "SSkip"
        if "[" in qual(d) or "*" in qual(d): raise Unsupported("local of type %s" % qual(d))
        t = ity(d)
        if len(init) != 1: raise Unsupported("local %s without initialiser" % d.get("name"))
        i0 = strip_noop(init[0])
        if i0["kind"] in ("CXXMemberCallExpr", "CXXOperatorCallExpr") and accessor_return(self.callee_of(i0)[0]) is None and ity(i0) == t:
            name = self.declare(d)
            if is_const_qualified(d): self.const_local.add(d["id"])
            return self.inline_call(i0, ("assign", name))
        e = self.expr(init[0])
        if ity(init[0]) != t: e = "ECast %s (%s)" % (t, e)
        name = self.declare(d)
        if is_const_qualified(d) or d.get("constexpr"): self.const_local.add(d["id"])
        return "SLocal %s (%s)" % (coq_str(name), e)

    def incdec(self, n):
        op = n["opcode"]; (c,) = kids(n); lv = self.lvalue(c); t = ity(c); p = self.promote(t)
        o = "OAdd" if op == "++" else "OSub"
        r = self.read(lv)
        if p != t: r = "ECast %s (%s)" % (p, r)
        e = "EBin %s %s (%s) (EInt 1)" % (o, p, r)
        if p != t: e = "ECast %s (%s)" % (t, e)
        return self.write(lv, e)

    def stmt(self, n):
        k = n["kind"]
        if k == "CompoundStmt":
            ks = kids(n); out = []; i = 0
            if self.ret_mode: ks = fold_early_returns(ks)
            while i < len(ks):
                c = ks[i]
                if i + 1 < len(ks) and c["kind"] == "DeclStmt" and ks[i + 1]["kind"] == "WhileStmt":
                    r = self.counted_while(c, ks[i + 1])
                    if r is not None:
                        out.append(r); i += 2; continue
                out.append(self.stmt(c)); i += 1
            return self.seq(out)
        if k == "NullStmt": return "SSkip"
        if k == "DeclStmt": return self.seq([self.decl(d) for d in kids(n)])
        if k == "ReturnStmt":
            ks = kids(n)
            if ks and strip_noop(ks[0])["kind"] in ("CXXMemberCallExpr", "CXXOperatorCallExpr") and accessor_return(self.callee_of(strip_noop(ks[0]))[0]) is None:
                # return obj.f(args): f's body, whose return statements return from (or assign the result of) this function
                c = strip_noop(ks[0])
                if self.ret_mode and self.ret_mode[0] in ("void", "discard"): return self.inline_call(c, ("void",))
                return self.inline_call(c, self.ret_mode or ("return",))
            if self.ret_mode:                                        # this body is inlined at a call site and the statement is in tail position
                if self.ret_mode[0] == "assign":
                    if not ks: raise Unsupported("return without a value")
                    return self.write(("local", self.ret_mode[1]), self.expr(ks[0]))
                return "SSkip"                                       # void / discarded result (expressions have no side effects)
            return "SReturn (%s)" % self.expr(ks[0]) if ks else "SReturnVoid"
        if k == "IfStmt":
            ks = kids(n)
            if n.get("hasInit") or n.get("hasVar"): raise Unsupported("if with initialiser")
            c = self.expr(ks[0]); a = self.stmt(ks[1]); b = self.stmt(ks[2]) if len(ks) > 2 else "SSkip"
            return "SIf (%s)\n(%s)\n(%s)" % (c, a, b)
        if k == "WhileStmt":
            c, b = kids(n); return "SWhile (%s)\n(%s)" % (self.expr(c), self.stmt(b))
        if k == "ForStmt": return self.for_stmt(n)
        if k == "CXXForRangeStmt": return self.range_for(n)
        if k in ("ParenExpr", "CStyleCastExpr", "ImplicitCastExpr") and strip_cv(qual(n)) == "void": return "SSkip"       # FFSM2_ASSERT(...) with assertions off: ((void) 0)
        if k == "BinaryOperator" and n["opcode"] == "=":
            a, b = kids(n); lv = self.lvalue(a); e = self.expr(b)
            return self.write(lv, e)
        if k == "CompoundAssignOperator":
            a, b = kids(n); lv = self.lvalue(a); op = n["opcode"][:-1]
            if op not in BINOPS or op in CMP: raise Unsupported("compound operator %s" % n["opcode"])
            ta = ity(a); tl = ity_of_qual(n["computeLHSType"].get("desugaredQualType") or n["computeLHSType"]["qualType"])
            tr = ity_of_qual(n["computeResultType"].get("desugaredQualType") or n["computeResultType"]["qualType"])
            l = self.read(lv)
            if tl != ta: l = "ECast %s (%s)" % (tl, l)
            e = "EBin %s %s (%s) (%s)" % (BINOPS[op], tr, l, self.expr(b))
            if tr != ta: e = "ECast %s (%s)" % (ta, e)
            return self.write(lv, e)
        if k == "UnaryOperator" and n["opcode"] in ("++", "--"): return self.incdec(n)
        if k == "CXXNewExpr": return self.placement_new(n)
        if k in ("CXXMemberCallExpr", "CXXOperatorCallExpr"): return self.inline_call(n, ("void",))
        raise Unsupported("statement kind %s" % k)

    def for_stmt(self, n):
        raw = n.get("inner", [])
        if len(raw) != 5: raise Unsupported("for statement shape")
        init, condvar, cond, inc, body = raw
        if condvar: raise Unsupported("for with a condition variable")
        # the counting form: for (T i = lo; i < hi; ++i) body
        try:
            if init and init["kind"] == "DeclStmt" and len(kids(init)) == 1 and cond and inc and cond["kind"] == "BinaryOperator" and cond["opcode"] == "<" \
               and inc["kind"] == "UnaryOperator" and inc["opcode"] == "++":
                d = kids(init)[0]
                if d["kind"] == "VarDecl" and not is_ref(d):
                    l, h = kids(cond)
                    lcore, lcasts = peel(l)
                    if lcore["kind"] == "DeclRefExpr" and lcore["referencedDecl"]["id"] == d["id"] and kids(inc)[0]["kind"] == "DeclRefExpr" \
                       and kids(inc)[0]["referencedDecl"]["id"] == d["id"] and self.invariant(h):
                        t = ity(d)
                        # both sides reach the comparison through value-preserving conversions only
                        cl, ch = chain_preserves(l), chain_preserves(h)
                        ok = (cl if cl is not None else all(widening(a, b) for a, b in lcasts)) and (ch if ch is not None else all(widening(a, b) for a, b in cast_steps(h)))
                        if ok:
                            lo = self.expr(kids(d)[0])
                            if ity(kids(d)[0]) != t: lo = "ECast %s (%s)" % (t, lo)
                            hi = self.expr(h)
                            name = self.declare(d); self.const_local.add(d["id"])          # not assigned in the body (checked below)
                            before = set(self.assigned)
                            b = self.stmt(body)
                            if name in self.assigned - before or name in before: raise Unsupported("the loop counter is assigned in the body")
                            return "SForRange %s %s (%s) (%s)\n(%s)" % (coq_str(name), t, lo, hi, b)
        except KeyError:
            pass
        i = self.stmt(init) if init else "SSkip"
        c = self.expr(cond) if cond else "EInt 1"
        b = self.stmt(body)
        s = self.expr_stmt(inc) if inc else "SSkip"
        return self.seq([i, "SWhile (%s)\n(%s)" % (c, self.seq([b, s]))])

    def counted_while(self, decl, wh):
        """`T i = lo; while (i < hi) { ...; ++i; }` with a loop-invariant bound, value-preserving conversions around the comparison, `++i` as the last
        statement of the body and no other assignment to i: the counting loop (None if the shape does not match; nothing is declared in that case)"""
        try:
            ds = kids(decl)
            if len(ds) != 1 or ds[0]["kind"] != "VarDecl" or is_ref(ds[0]) or len(kids(ds[0])) != 1: return None
            d = ds[0]; cond, body = kids(wh)
            if cond["kind"] != "BinaryOperator" or cond["opcode"] != "<" or body["kind"] != "CompoundStmt": return None
            l, h = kids(cond); lcore, lcasts = peel(l)
            if lcore["kind"] != "DeclRefExpr" or lcore["referencedDecl"]["id"] != d["id"] or not self.invariant(h): return None
            bk = kids(body)
            if not bk or bk[-1]["kind"] != "UnaryOperator" or bk[-1]["opcode"] != "++": return None
            tgt = kids(bk[-1])[0]
            if tgt["kind"] != "DeclRefExpr" or tgt["referencedDecl"]["id"] != d["id"]: return None
            cl, ch = chain_preserves(l), chain_preserves(h)
            if not ((cl if cl is not None else all(widening(a, b) for a, b in lcasts)) and (ch if ch is not None else all(widening(a, b) for a, b in cast_steps(h)))): return None
            if uses_continue(body): return None
        except (KeyError, Unsupported):
            return None
        t = ity(d); lo = self.expr(kids(d)[0])
        if ity(kids(d)[0]) != t: lo = "ECast %s (%s)" % (t, lo)
        hi = self.expr(h)
        name = self.declare(d); self.const_local.add(d["id"])
        before = set(self.assigned)
        b = self.seq([self.stmt(c) for c in bk[:-1]])
        if name in self.assigned - before or name in before: raise Unsupported("the loop counter is assigned in the body")
        return "SForRange %s %s (%s) (%s)\n(%s)" % (coq_str(name), t, lo, hi, b)

    def placement_new(self, n):
        """new (&elem) Item{a, b}: the constructor's member initialisers as assignments to the element's fields (only constructors whose body is empty and
        whose initialisers are `field{parameter}`, looked up in the AST by class and arity)"""
        ks = kids(n)
        ctor = [c for c in ks if c["kind"] == "CXXConstructExpr"]; place = [c for c in ks if c["kind"] != "CXXConstructExpr"]
        if len(ctor) != 1 or len(place) != 1: raise Unsupported("new-expression shape")
        tgt = place[0]
        while tgt["kind"] in ("ImplicitCastExpr", "ParenExpr", "CStyleCastExpr"): tgt = kids(tgt)[0]
        if tgt["kind"] != "UnaryOperator" or tgt["opcode"] != "&": raise Unsupported("placement address")
        obj = kids(tgt)[0]
        if obj["kind"] != "DeclRefExpr" or self.alias.get(obj["referencedDecl"]["id"], ("",))[0] != "elemobj": raise Unsupported("placement target")
        _, arr, idx = self.alias[obj["referencedDecl"]["id"]]
        args = kids(ctor[0]); cls = strip_cv(qual(ctor[0])).split("::")[-1].split("<")[0]
        inits = ctor_inits(cls, len(args))
        if inits is None: raise Unsupported("constructor of %s with %d arguments is not a plain member-wise initialiser" % (cls, len(args)))
        return self.seq(["SSetElem %s (%s) (%s)" % (coq_str(arr + "." + UNION_BY_ID.get(fid, f)), idx, self.expr(args[k])) for f, k, fid in inits])

    def inline_this_call(self, n):
        """this->f(args); for a void member function f whose body is translatable and does not return early: the arguments are bound to fresh locals,
        then f's body runs in the caller's object"""
        ks = kids(n); callee = ks[0]
        if callee["kind"] != "MemberExpr" or kids(callee)[0]["kind"] != "CXXThisExpr": raise Unsupported("member call on another object")
        fd = AST_NODE.get(callee.get("referencedMemberDecl"))
        if fd is None or not body_of(fd): raise Unsupported("member function %s has no body in the AST" % callee.get("name"))
        if strip_cv(fd["type"]["qualType"].split("(")[0]) != "void": raise Unsupported("call of a non-void member function as a statement")
        sub = Fn([], self.class_consts); sub.names = self.names; sub.order = self.order; sub.alias = dict(self.alias); sub.calls = self.calls
        binds = []
        for p, a in zip(params_of(fd), ks[1:]):
            if is_ref(p) or "*" in qual(p): raise Unsupported("reference parameter of an inlined call")
            e = self.expr(a)
            if ity(a) != ity(p): e = "ECast %s (%s)" % (ity(p), e)
            name = sub.declare(p); binds.append("SLocal %s (%s)" % (coq_str(name), e))
            if is_const_qualified(p): sub.const_local.add(p["id"])
        body = sub.stmt(body_of(fd))
        if "SReturn" in body: raise Unsupported("inlined member function returns early")
        self.assigned |= sub.assigned
        return self.seq(binds + [body])

    def expr_stmt(self, n): return self.stmt(n)

    def range_for(self, n):
        raw = n.get("inner", [])
        if len(raw) != 8 or raw[0]: raise Unsupported("range-for shape")
        rng = kids(raw[1])[0]                                   # VarDecl __range = <array lvalue>
        a = self.path(kids(rng)[0])
        if "[" not in qual(kids(rng)[0]): raise Unsupported("range-for over a non-array")
        var = kids(raw[6])[0]; body = raw[7]
        idx = (var.get("name") or "it") + "#i"
        k = self.names.get(idx, 0); self.names[idx] = k + 1
        if k: idx = "%s'%d" % (idx, k)
        self.order.append(idx)
        elem = ("elem", a, "EVar %s" % coq_str(idx))
        pre = "SSkip"
        if is_ref(var): self.alias[var["id"]] = elem
        else:
            name = self.declare(var); pre = "SLocal %s (%s)" % (coq_str(name), self.read(elem))
        b = self.seq([pre, self.stmt(body)])
        return "SForRange %s TU64 (EInt 0) (ELen %s)\n(%s)" % (coq_str(idx), coq_str(a), b)

def plain_stmts(body):
    """statements of a function body without the compiled-out assertions ((void) 0) and empty statements"""
    return [c for c in kids(body) if not (c["kind"] == "NullStmt" or (c["kind"] in ("ParenExpr", "CStyleCastExpr", "ImplicitCastExpr") and strip_cv(qual(c)) == "void"))]

def accessor_return(fd):
    """the returned expression if the body of fd is `return <expression>;` (assertions aside), else None"""
    ss = plain_stmts(body_of(fd))
    if len(ss) == 1 and ss[0]["kind"] == "ReturnStmt" and kids(ss[0]): return kids(ss[0])[0]
    return None

def has_return(n):
    if n.get("kind") == "ReturnStmt": return True
    return any(has_return(c) for c in kids(n))

def always_returns(n):
    """does every path through n end in a return statement?"""
    k = n.get("kind")
    if k == "ReturnStmt": return True
    if k == "CompoundStmt":
        ks = fold_early_returns(kids(n)); return bool(ks) and always_returns(ks[-1])
    if k == "IfStmt":
        ks = kids(n); return len(ks) == 3 and always_returns(ks[1]) and always_returns(ks[2])
    return False

def fold_early_returns(ks):
    """`if (c) { ...; return e; } rest...` (no else, the branch always returns) is `if (c) { ...; return e; } else { rest... }`: the statements after the
    test only run when it fails.  Used for bodies that are inlined, where a return must be the last thing on its path."""
    for i, c in enumerate(ks[:-1]):
        if c.get("kind") == "IfStmt" and not c.get("hasInit") and not c.get("hasVar") and len(kids(c)) == 2 and always_returns(kids(c)[1]):
            rest = {"kind": "CompoundStmt", "inner": fold_early_returns(ks[i + 1:])}
            return ks[:i] + [{"kind": "IfStmt", "inner": [kids(c)[0], kids(c)[1], rest]}]
    return ks

def tail_returns_only(n):
    """is every return statement under n the last thing executed on its path through n?"""
    k = n.get("kind")
    if k == "ReturnStmt": return True
    if k == "CompoundStmt":
        ks = fold_early_returns(kids(n))
        return all(not has_return(c) for c in ks[:-1]) and (not ks or tail_returns_only(ks[-1]))
    if k == "IfStmt":
        ks = kids(n)
        return not has_return(ks[0]) and all(tail_returns_only(c) for c in ks[1:])
    return not has_return(n)

def uses_continue(n):
    if n.get("kind") in ("ContinueStmt", "BreakStmt", "GotoStmt"): return True
    return any(uses_continue(c) for c in kids(n))

def strip_noop(n):
    while n["kind"] in ("ParenExpr",) or (n["kind"] == "ImplicitCastExpr" and n.get("castKind") == "NoOp"): n = kids(n)[0]
    return n

def peel(n):
    """strip value conversions around an lvalue read: -> (core lvalue node, [(from, to) integral cast steps])"""
    steps = []
    while True:
        k = n["kind"]
        if k in ("ParenExpr", "ConstantExpr"): n = kids(n)[-1]
        elif k in ("ImplicitCastExpr", "CXXStaticCastExpr") and n.get("castKind") in ("IntegralCast",):
            c = kids(n)[-1]; steps.append((ity(c), ity(n))); n = c
        elif k == "ImplicitCastExpr" and n.get("castKind") in ("LValueToRValue", "NoOp"): n = kids(n)[-1]
        else: return n, steps

def chain_preserves(n):
    """operand of a comparison: conversions stacked on a constant, a literal or a variable - is every conversion value-preserving for the values the
    innermost operand can take?  (uint8_t -> int -> unsigned int is, although int -> unsigned int alone is not)"""
    tys = []
    while True:
        k = n["kind"]
        if k in ("ParenExpr", "ConstantExpr"): n = kids(n)[-1]
        elif k in ("ImplicitCastExpr", "CXXStaticCastExpr", "CXXFunctionalCastExpr", "CStyleCastExpr") and n.get("castKind") == "IntegralCast":
            tys.append(ity(n)); n = kids(n)[-1]
        elif k == "ImplicitCastExpr" and n.get("castKind") in ("LValueToRValue", "NoOp"): n = kids(n)[-1]
        else: break
    if n["kind"] not in ("DeclRefExpr", "IntegerLiteral", "SubstNonTypeTemplateParmExpr", "CharacterLiteral"): return None
    if n["kind"] in ("IntegerLiteral", "CharacterLiteral"):
        v = int(n["value"]); return all(t_range(t)[0] <= v <= t_range(t)[1] for t in tys)
    base = ity(n)
    return all(widening(base, t) for t in tys)

def cast_steps(n):
    out = []
    def go(m):
        if m["kind"] in ("ImplicitCastExpr", "CXXStaticCastExpr", "CXXFunctionalCastExpr", "CStyleCastExpr") and m.get("castKind") == "IntegralCast":
            out.append((ity(kids(m)[-1]), ity(m)))
        for c in kids(m):
            if c.get("kind") != "NonTypeTemplateParmDecl": go(c)
    go(n); return out

def call_name(name, sig, node=None):
    """name of an instantiation: the function's name and its parameter types (desugared types of the declaration's parameters when the declaration is at hand -
    a signature string may spell them with library aliases)"""
    if node is not None and params_of(node):
        try: return name + "".join("_" + SHORT[ity(p)] for p in params_of(node))
        except Unsupported: pass
    m = re.match(r"^(.*?)\((.*)\)", sig)
    ps = [p for p in m.group(2).split(",") if p.strip()] if m else []
    return name + "".join("_" + SHORT[ity_of_qual(p)] for p in ps)

# ---------- finding the instantiations in the AST ----------
def load_ast(header, incdir):
    with tempfile.TemporaryDirectory(prefix="ffsm2-leaf.", dir="/var/tmp") as d:
        tu = os.path.join(d, "tu.cpp"); open(tu, "w").write(TU % header)
        r = subprocess.run(["clang++", "-std=c++11", "-fsyntax-only", "-w", "-I" + incdir, "-Xclang", "-ast-dump=json", tu], capture_output=True, text=True)
        if r.returncode != 0: raise SystemExit("leafcode: clang failed on the instantiation unit:\n" + r.stderr[-1500:])
        return json.loads(r.stdout)

def walk(n):
    yield n
    for c in n.get("inner", []):
        if c: yield from walk(c)

def targ_values(n):
    out = []
    for c in n.get("inner", []):
        if c.get("kind") == "TemplateArgument":
            if "value" in c: out.append(c["value"])
            elif "type" in c: out.append(strip_cv(c["type"].get("desugaredQualType") or c["type"]["qualType"]))
    return tuple(out)

def body_of(fd):
    for c in fd.get("inner", []):
        if c.get("kind") == "CompoundStmt": return c
    return None

def params_of(fd): return [c for c in fd.get("inner", []) if c.get("kind") == "ParmVarDecl"]

def class_specs(ast, name):
    for n in walk(ast):
        if n.get("kind") == "ClassTemplateSpecializationDecl" and n.get("name") == name and n.get("completeDefinition"):
            yield n

def class_const_defs(spec):
    out = []
    for c in spec.get("inner", []):
        if c.get("kind") == "VarDecl" and c.get("storageClass") == "static" and c.get("constexpr"):
            init = [x for x in kids(c) if "Comment" not in x.get("kind", "")]
            out.append((c["name"], c, init[-1] if init else None))
    return out

def methods(spec):
    """-> list of (name, template args, decl with body)"""
    out = []
    for c in spec.get("inner", []):
        if c.get("kind") in ("CXXMethodDecl", "CXXConversionDecl") and body_of(c): out.append((c["name"], (), c))
        if c.get("kind") == "FunctionTemplateDecl":
            for m in c.get("inner", []):
                if m.get("kind") == "CXXMethodDecl" and body_of(m) and targ_values(m): out.append((m["name"], targ_values(m), m))
                elif m.get("kind") == "CXXMethodDecl" and body_of(m) and any(x.get("kind") == "TemplateArgument" for x in m.get("inner", [])):
                    # instantiated with a parameter pack: name it by its parameter types
                    out.append((m["name"], tuple(strip_cv(qual(q)) for q in params_of(m)), m))
    return out

OPNAMES = {"operator&": "op_and", "operator&=": "op_and_assign", "operator==": "op_eq", "operator!=": "op_ne"}
def ident(s): return re.sub(r"[^A-Za-z0-9_]", "_", s)
def targ_id(a): return ident(SHORT.get(TYPEMAP.get(a, ""), str(a))) if isinstance(a, str) else str(a)

def indent(term, ind="  "):
    """put every '(' that follows a newline on its own indented line - the terms are deeply nested"""
    out = []; depth = 0
    for line in term.split("\n"):
        out.append(ind * (1 + depth) + line)
        depth += line.count("(") - line.count(")")
    return "\n".join(out)

CLASSES = [("PlanT", None), ("StaticArrayT", ("unsigned char", 5)), ("TaskListT", ("void", 5)), ("BitArrayT", (13,)), ("BitArrayT", (300,)), ("StreamBufferT", (100,)), ("BitWriteStreamT", (100,)), ("BitReadStreamT", (100,))]

UNION_BY_ID = {}    # id of a member of an anonymous union -> name of the first member of that union (they share storage)
CTORS = {}          # class name -> [(number of parameters, [(field, parameter index)] or None)]
BASES = {}          # class name -> base class names
def index_records(ast):
    UNION_BY_ID.clear(); CTORS.clear(); BASES.clear()
    def rec(n):
        if n.get("kind") in ("CXXRecordDecl", "ClassTemplateSpecializationDecl") and n.get("completeDefinition"):
            name = n.get("name")
            for c in n.get("inner", []):
                if c.get("kind") == "CXXRecordDecl" and not c.get("name") and c.get("tagUsed") == "union":
                    fs = [f for f in c.get("inner", []) if f.get("kind") == "FieldDecl" and f.get("name")]
                    for f in fs[1:]: UNION_BY_ID[f["id"]] = fs[0]["name"]
                if c.get("kind") == "CXXConstructorDecl" and name:
                    ps = [p for p in c.get("inner", []) if p.get("kind") == "ParmVarDecl"]
                    body = [b for b in c.get("inner", []) if b.get("kind") == "CompoundStmt"]
                    ok = bool(body) and not kids(body[0]); inits = []
                    for x in c.get("inner", []):
                        if x.get("kind") != "CXXCtorInitializer": continue
                        f = (x.get("anyInit") or {}).get("name"); e = kids(x)
                        while e and e[0]["kind"] in ("ImplicitCastExpr", "ParenExpr", "InitListExpr") and len(kids(e[0])) == 1: e = kids(e[0])
                        if f and e and e[0]["kind"] == "DeclRefExpr" and e[0]["referencedDecl"]["id"] in [p["id"] for p in ps]:
                            inits.append((f, [p["id"] for p in ps].index(e[0]["referencedDecl"]["id"]), x["anyInit"].get("id")))
                        elif x.get("anyInit") is None: pass          # a base-class initialiser: not supported
                        else: ok = False
                    CTORS.setdefault(name, []).append((len(ps), inits if ok and len(inits) == len(ps) else None))
            if name:
                for b in n.get("bases", []) or []:
                    BASES.setdefault(name, []).append(strip_cv(b.get("type", {}).get("qualType", "")).split("::")[-1].split("<")[0])
        for c in n.get("inner", []):
            if c: rec(c)
    rec(ast)
def ctor_inits(cls, arity):
    seen = set()
    while cls and cls not in seen:
        seen.add(cls)
        cands = [i for (a, i) in CTORS.get(cls, []) if a == arity]
        if any(c is not None for c in cands): return [c for c in cands if c is not None][0]
        bs = sorted(set(BASES.get(cls, [])))
        cls = bs[0] if len(bs) == 1 else None            # an inherited constructor (using Base::Base)
    return None

AST_GLOBALS = {}    # id -> VarDecl of a namespace-scope constant
AST_OWNER = {}      # id of a member function -> label of the class template specialisation it belongs to
AST_NODE = {}       # id -> node (function declarations only)
AST_VAROWNER = {}   # id of a static constexpr data member -> label of its class template specialisation
OWNER_CLASS = {}    # label of a class template specialisation -> name of the template
OWNER_CONSTS = {}   # label of a class template specialisation -> names of its static constexpr data members
def index_ast(ast):
    AST_OWNER.clear(); AST_NODE.clear(); AST_GLOBALS.clear(); AST_VAROWNER.clear(); OWNER_CONSTS.clear()
    def go(n, owner, depth=0, infn=False, ownername=""):
        k = n.get("kind")
        if k == "VarDecl" and not infn and not owner and (n.get("constexpr") or is_const_qualified(n)) and "id" in n: AST_GLOBALS[n["id"]] = n
        if k == "ClassTemplateSpecializationDecl" and n.get("name"):
            owner = "%s_%s" % (n["name"], "_".join(targ_id(a) for a in targ_values(n))); ownername = n["name"]
        if k == "VarDecl" and not infn and owner and n.get("storageClass") == "static" and "id" in n:
            AST_VAROWNER[n["id"]] = owner; OWNER_CLASS[owner] = ownername; OWNER_CONSTS.setdefault(owner, set()).add(n.get("name"))
        if k in ("FunctionDecl", "CXXMethodDecl") and "id" in n:
            AST_NODE.setdefault(n["id"], n)
            if body_of(n) or n["id"] not in AST_NODE or not body_of(AST_NODE[n["id"]]): AST_NODE[n["id"]] = n
            if owner: AST_OWNER[n["id"]] = owner
        for c in n.get("inner", []):
            if c: go(c, owner, depth + 1, infn or k in ("FunctionDecl", "CXXMethodDecl", "CXXConstructorDecl"), ownername)
    go(ast, "")

def translate(ast):
    index_ast(ast); index_records(ast)
    defs = []; notes = []; calls = set(); names = []
    def emit_method(cname, fd, consts, label):
        try:
            f = Fn(params_of(fd), consts); f.owner = AST_OWNER.get(fd["id"])
            body = f.stmt(body_of(fd))
            calls.update(f.calls)
            locs = [v for v in f.order if v not in f.params]
            defs.append("Definition %s : method :=\n  {| m_params := [%s];\n     m_locals := [%s];\n     m_body :=\n%s |}." % (label, "; ".join(coq_str(p) for p in f.params), "; ".join(coq_str(p) for p in locs), indent(body, "  ")))
        except Unsupported as e:
            defs.append("Definition %s : method := {| m_params := []; m_locals := []; m_body := SWhile (EInt 1) SSkip |}.   (* UNSUPPORTED: %s *)" % (label, str(e).replace("*)", "* )")))
            notes.append("%s: %s" % (label, e))
        names.append(label)
    for cname, targs in CLASSES:
        specs = [s for s in class_specs(ast, cname) if targs is None or targ_values(s) == targs]
        if not specs:
            notes.append("%s<%s>: no instantiation found" % (cname, targs)); continue
        spec = specs[-1]
        cdefs = class_const_defs(spec); consts = {c[0] for c in cdefs}
        prefix = "%s_%s" % (cname, "_".join(targ_id(a) for a in targs)) if targs is not None else cname
        tparams = set()
        for n in walk(spec):
            if n.get("kind") == "SubstNonTypeTemplateParmExpr":
                for c in kids(n):
                    if c.get("kind") == "NonTypeTemplateParmDecl" and c.get("name"): tparams.add(c["name"])
        lines = []
        for name, vd, init in cdefs:
            try:
                f = Fn([], consts); f.owner = "%s_%s" % (spec["name"], "_".join(targ_id(a) for a in targ_values(spec)))
                e = f.expr(init); calls.update(f.calls)
                if ity(init) != ity(vd): e = "ECast %s (%s)" % (ity(vd), e)
                lines.append("  (%s, %s)" % (coq_str(name), e))
            except Unsupported as ex:
                lines.append("  (%s, EConst \"UNSUPPORTED\")   (* %s *)" % (coq_str(name), ex)); notes.append("%s.%s: %s" % (prefix, name, ex))
        defs.append("(* static constexpr members of %s<...>, in declaration order; template parameters: %s *)\nDefinition %s_consts : list (string * expr) := [\n%s\n]." % (cname, ", ".join(sorted(tparams)) or "-", prefix, ";\n".join(lines)))
        names.append(prefix + "_consts")
        for mname, margs, fd in methods(spec):
            label = "%s__%s%s" % (prefix, OPNAMES.get(mname, ident(mname)), "".join("_" + targ_id(a) for a in margs))
            if label in names: label += "_const" if " const" in fd["type"]["qualType"] else "_2"
            emit_method(cname, fd, consts, label)
    # free functions and static member functions: everything called, plus bitWidth
    queue = [c for c in calls]
    for n in walk(ast):
        if n.get("kind") == "FunctionDecl" and n.get("name") == "bitWidth" and body_of(n):
            try: queue.append((n["id"], "bitWidth", n["type"]["qualType"], call_name("bitWidth", n["type"]["qualType"], n)))
            except Unsupported as ex: notes.append("bitWidth: %s" % ex)
    fns = []; done = set()
    while queue:
        fid, fname, sig, cn = queue.pop(0)
        if cn in done: continue
        done.add(cn)
        n = AST_NODE.get(fid)
        if n is None or not body_of(n):
            # the declaration referred to has no body of its own: another declaration of the same function in the same class / namespace has
            owner = AST_OWNER.get(fid, "")
            cands = [m for m in AST_NODE.values() if m.get("name") == fname and body_of(m) and m["type"]["qualType"] == sig and AST_OWNER.get(m["id"], "") == owner]
            n = cands[0] if cands else None
        try:
            if n is None: raise Unsupported("no definition found")
            if n.get("kind") == "CXXMethodDecl" and n.get("storageClass") != "static": raise Unsupported("call of a non-static member function")
            ks = kids(body_of(n))
            if len(ks) != 1 or ks[0]["kind"] != "ReturnStmt": raise Unsupported("the body is not a single return statement")
            f = Fn(params_of(n), set())
            e = f.expr(kids(ks[0])[0])
            queue.extend(f.calls)
            fns.append((cn, "Definition fn_%s : fundef :=\n  {| fn_params := [%s];\n     fn_body :=\n%s |}." % (ident(cn), "; ".join(coq_str(p) for p in f.params), indent(e))))
        except Unsupported as ex:
            fns.append((cn, "Definition fn_%s : fundef := {| fn_params := []; fn_body := EConst \"UNSUPPORTED\" |}.   (* %s *)" % (ident(cn), ex)))
            notes.append("%s: %s" % (cn, ex))
    fns.sort()
    table = "Definition leaf_ftable : ftable := [\n%s\n]." % ";\n".join("  (%s, fn_%s)" % (coq_str(cn), ident(cn)) for cn, _ in fns)
    return [f for _, f in fns] + [table] + defs, notes, names

HEADER = """(* GENERATED by tools/leafcode.py from clang's typed AST of %s - do not edit.
   The bodies of FFSM2's leaf functions as terms of Model/Cxx.v; Proofs/LeafCodeProofs.v proves what they compute. *)
From Coq Require Import List ZArith String.
From FFSM2 Require Import Model.Cxx.
Import ListNotations.
Local Open Scope string_scope.
Local Open Scope Z_scope.

"""

def generate(variant="development"):
    header, incdir = ("ffsm2/machine_dev.hpp", os.path.join(REPO, "development")) if variant == "development" else ("ffsm2/machine.hpp", os.path.join(REPO, "include"))
    ast = load_ast(header, incdir)
    defs, notes, names = translate(ast)
    return HEADER % ("<%s>" % header) + "\n\n".join(defs) + "\n", notes

def main():
    out = OUT; variant = "development"
    args = sys.argv[1:]
    while args:
        a = args.pop(0)
        if a == "-v": continue
        if a == "--out": out = args.pop(0)
        elif a == "--variant": variant = args.pop(0)
    text, notes = generate(variant)
    old = open(out).read() if os.path.exists(out) else None
    if old != text:
        tmp = out + ".new"; open(tmp, "w").write(text); os.replace(tmp, out)
    if "-v" in sys.argv:
        for n in notes: print("leafcode: " + n)
    print("leafcode: %s (%s)" % (out, "unchanged" if old == text else "rewritten"))

if __name__ == "__main__":
    main()
