#!/usr/bin/env python3
"""Writes /verif/MANIFEST.json from the table below (kept next to the checks so the two cannot drift)."""
import json, os, sys
sys.path.insert(0, os.path.dirname(os.path.dirname(os.path.abspath(__file__))))
from vt import props

NOTE = ("Trusted: Coq 8.16.1 kernel (coqc, full .vo; no native_compute); no axioms (every theorem prints 'Closed under the global context'); extraction with "
        "ExtrOcamlBasic only; OCaml driver (parse/print), C++ harness, Python orchestrator, g++/clang++. The model in coq/Model is hand-written; what ties it to "
        "/repo's working tree is the correspondence run of this check (both header variants), not a proof.")

CLAIMS = {
 "C10": ("proof", "7.10", "Coq: free-list invariant FL of TaskListT preserved by emplace/remove/clear over operation lists of any length for every capacity 1..255; emplace succeeds iff "
         "count < capacity, returns a vacant slot, leaves occupied slots untouched; no leak (from any reachable state the remaining capacity is available). Correspondence: real "
         "TaskListT and real machines' plan() vs the extracted model; abstract allocator/list oracle over implementation results.",
         "Coq proof (invariant by induction over operation lists) + model/implementation correspondence"),
 "C13": ("proof", "7.13", "Coq: bit-level write/read specifications of the per-byte chunk loops, round trip for any field sequence that fits, contiguity, locality, zeros past the cursor, "
         "bitWidth exact for all 32-bit arguments, width suffices for every state count. Correspondence: real BitWriteStreamT/BitReadStreamT/bitWidth vs the extracted model on every "
         "(offset, width) pair and random sequences; abstract bit-sequence oracle over implementation results.",
         "Coq proof (N.testbit-level induction on the chunk loop) + model/implementation correspondence"),
 "C14": ("proof", "7.14", "Coq: LowerT/UpperT are firstn/skipn, the CS_ halving reaches the k-th declared state with STATE_ID = k for lists of any length (strong induction), FindImpl gives the "
         "declaration position, absent types get the invalid id. Correspondence: one real machine per state count (all twelve callback kinds, stateId<T>(), access<T>() identity) vs the extracted machine model.",
         "Coq proof (strong induction on the state list) + per-N implementation runs compared with the model"),
 "C15": ("proof", "7.15", "Coq: delivery order of A_<I1..Ik>::wideX combined with S_::deepX is I1..Ik,self for the seven set-up callbacks and self,Ik..I1 for exit/postUpdate/postReact, exactly once "
         "each, for every k. Correspondence: real machines with 0..3 injected bases on states and root vs the extracted model; order monitor over implementation traces.",
         "Coq proof (induction on the number of injections) + model/implementation correspondence"),
 "C20": ("proof", "7.20", "Coq: BitArrayT get/set/clear/set-all/clear-all/and-assign laws, empty() iff no member under the padding invariant, invariant preserved by every operation, for every "
         "capacity; StaticArrayT/DynamicArrayT laws incl. iteration order with the uint8_t cursor. Correspondence: the real containers vs the extracted model; abstract set/list oracle.",
         "Coq proof (byte-level lemmas, induction) + model/implementation correspondence"),
}

PENDING = {}

def main():
    ids = ["C%02d" % k for k in range(1, 21)]
    checks = []
    for pid in ids:
        if pid not in CLAIMS: continue
        level, ref, text, tech = CLAIMS[pid]
        assert pid in props.CHECKS, pid
        checks.append(dict(property_id=pid, quick_cmd="./check %s --tier quick" % pid, thorough_cmd="./check %s --tier thorough" % pid,
                           evidence_file="/verif/evidence/%s.json" % pid, replay_cmd_template="./check --replay {path}", engine="coq-model-correspondence",
                           level_claimed=dict(category=level, text=text, design_ref="DESIGN.md section " + ref), level_note=NOTE, technique=tech))
    na = [dict(property_id=pid, reason=PENDING.get(pid, "not claimed yet: the property's theorem file (coq/Properties/Properties_%s.v) is not finished; the model, harness, generator and monitor for it exist and run (tools/explore.py), but no check is registered until the theorems are proved" % pid))
          for pid in ids if pid not in CLAIMS]
    m = dict(version=1, setup_cmd="sh /verif/setup.sh",
             hooks=dict(guard="FFSM2_VERIF", enable="no hooks are needed: every observation goes through the public API and the public ffsm2::detail classes (the guard name is reserved, nothing in /repo uses it)",
                        baseline_off_cmd="cmake -S /repo -B /repo/_build -G Ninja && cmake --build /repo/_build && /repo/_build/ffsm2_test", source_commits=[], add_only=True),
             engines=[dict(name="coq-model-correspondence", path="/verif/check", serves_properties=[c["property_id"] for c in checks],
                           kind_free_text="Coq 8.16 theorems over a hand-written executable model (coq/), extracted to OCaml and run against C++ harnesses built from /repo's working tree (both header variants) on generated scripts; property monitors over implementation traces find the failing input")],
             checks=checks, not_applicable=na,
             notes="See DESIGN.md. KNOWN_FINDINGS.txt lists the eight defects repaired by 'fix:' commits in /repo (fixed: entries suppress nothing).")
    with open(os.path.join(os.path.dirname(os.path.dirname(os.path.abspath(__file__))), "MANIFEST.json"), "w") as fh:
        json.dump(m, fh, indent=1)
    print("MANIFEST.json: %d checks, %d not claimed" % (len(checks), len(na)))

if __name__ == "__main__":
    main()
