#!/usr/bin/env python3
"""Writes /verif/MANIFEST.json from the table below (kept next to the checks so the two cannot drift)."""
import json, os, sys
sys.path.insert(0, os.path.dirname(os.path.dirname(os.path.abspath(__file__))))
from vt import props

NOTE = ("Trusted: Coq 8.16.1 kernel (coqc, full .vo; no native_compute); no axioms (every theorem prints 'Closed under the global context'); extraction with "
        "ExtrOcamlBasic only; OCaml driver (parse/print), C++ harness, Python orchestrator, g++/clang++. The model in coq/Model is hand-written; what ties it to "
        "/repo's working tree is the correspondence run of this check (both header variants), not a proof.")

CLAIMS = {
 "C10": ("proof", "7.10", "Coq: free-list invariant FL of TaskListT preserved by emplace/remove/clear over operation lists of any length for every capacity 1..255; emplace succeeds iff "
         "count < capacity, returns a vacant slot, leaves occupied slots untouched; no leak (from any reachable state the remaining capacity is available). Correspondence: real "
         "TaskListT and real machines' plan() vs the extracted model; abstract allocator/list oracle over implementation results. Source tie by proof (DESIGN.md 4.7): TaskListT<void,N>::emplace/remove/clear "
         "are translated from clang's typed AST of the current source on every run (tools/leafcode.py) and proved to stay inside the array and to equal the model on every list satisfying FL (Proofs/LeafCodeTaskList.v); PlanT::append/remove/linkTask/operator bool, with the member functions they call inlined, "
         "are translated the same way and proved equal to plan_append/plan_remove on every plan data satisfying the plan invariant, and over whole append/remove histories (Proofs/LeafCodePlan*.v).",
         "Coq proof (invariant by induction over operation lists) + model/implementation correspondence"),
 "C13": ("proof", "7.13", "Coq: bit-level write/read specifications of the per-byte chunk loops, round trip for any field sequence that fits, contiguity, locality, zeros past the cursor, "
         "bitWidth exact for all 32-bit arguments, width suffices for every state count. Correspondence: real BitWriteStreamT/BitReadStreamT/bitWidth vs the extracted model on every "
         "(offset, width) pair and random sequences; abstract bit-sequence oracle over implementation results. Source tie by proof (DESIGN.md 4.7): bitWidth, write<W>/read<W> for all three item types, StreamBufferT size and comparison operators are translated from clang's typed AST of the current source on every run (tools/leafcode.py) and proved equal to the model for every argument (Proofs/LeafCodeBits.v, LeafCodeStream.v, LeafCodeWide.v, LeafCodeBuffer.v); a translation that differs from the committed one is re-proved in a scratch copy.",
         "Coq proof (N.testbit-level induction on the chunk loop; translated source proved equal to the model) + model/implementation correspondence"),
 "C14": ("proof", "7.14", "Coq: LowerT/UpperT are firstn/skipn, the CS_ halving reaches the k-th declared state with STATE_ID = k for lists of any length (strong induction), FindImpl gives the "
         "declaration position, absent types get the invalid id. Correspondence: one real machine per state count (all twelve callback kinds, stateId<T>(), access<T>() identity) vs the extracted machine model.",
         "Coq proof (strong induction on the state list) + per-N implementation runs compared with the model"),
 "C15": ("proof", "7.15", "Coq: delivery order of A_<I1..Ik>::wideX combined with S_::deepX is I1..Ik,self for the seven set-up callbacks and self,Ik..I1 for exit/postUpdate/postReact, exactly once "
         "each, for every k. Correspondence: real machines with 0..3 injected bases on states and root vs the extracted model; order monitor over implementation traces.",
         "Coq proof (induction on the number of injections) + model/implementation correspondence"),
 "C20": ("proof", "7.20", "Coq: BitArrayT get/set/clear/set-all/clear-all/and-assign laws, empty() iff no member under the padding invariant, invariant preserved by every operation, for every "
         "capacity; StaticArrayT/DynamicArrayT laws incl. iteration order with the uint8_t cursor. Correspondence: the real containers vs the extracted model; abstract set/list oracle. Source tie by proof (DESIGN.md 4.7): every BitArrayT member (get/set/clear, set(), clear(), empty(), operator&, operator&=, UNIT_COUNT) for both index classes (N <= 255, N <= 65535) is translated from clang's typed AST of the current source on every run (tools/leafcode.py) and proved equal to the model for every capacity, content and index (Proofs/LeafConsts.v, LeafCodeProofs.v, LeafCodeArrays.v); StaticArrayT<uint8_t,N>::fill/clear/empty likewise (filler 255; Proofs/LeafCodeStatic.v).",
         "Coq proof (byte-level lemmas, induction; translated source of BitArrayT proved equal to the model) + model/implementation correspondence"),
}

WH = (" Lifted to every call of every in-contract history from construction (Proofs/Histories.v: at_every_call, every_processing_step_of_every_history). ")
MACH = ("Correspondence: generated scripts (callback table + API history) run on real FSM::Instance objects built from /repo's working tree (both header variants) "
        "and on the extracted model, traces compared under the property's projection; the property's monitor over the implementation's trace finds the failing history.")
CLAIMS.update({
 "C01": ("proof", "7.1", "Coq: for every API history from construction (all operations incl. save/load, replay, manual enter/exit), every callback behaviour (oracle), every n <= 255, capacity, limit, "
         "activation mode, head/no head: between calls the machine is inactive or has exactly one active state, and the trace is a chain of lifecycle shapes (quiet stretch with consistent views, then at most one of "
         "exit;enter | reenter | root enter;enter | exit;root exit, every recipient exactly once) - run_life. " + MACH, "Coq proof (invariant + trace shape by induction over the API history) + model/implementation correspondence"),
 "C02": ("proof", "7.2", "Coq: exact description of processRequest: the rounds of the substitution loop (ghost-instrumented, proved equal to the loop), last survivor wins, exit(old);enter(new) or reenter, nothing if no survivor; "
         "requests are lazy (API and control), later replaces earlier, update/react process exactly once at the end." + WH + MACH, "Coq proof (function-level exact specification of request processing) + model/implementation correspondence"),
 "C03": ("proof", "7.3", "Coq: guard rounds: exit guard then entry guard with short circuit, views carry pending/current, cancelled iff a cancel action occurred, next round's pending is the request written inside the guards, "
         "cancelled destinations are never entered, fallback to the last survivor, no lifecycle callback between guards, replay/load consult no guards." + WH + MACH, "Coq proof (inductive shape of the guard rounds) + model/implementation correspondence"),
 "C04": ("proof", "7.4", "Coq: at most SUBSTITUTION_LIMIT rounds per processing step for every guard behaviour; the left-over request is untouched and only exists when the limit was used up; the state reached is the last survivor's; "
         "activation ends with one active state. Activation: one evaluation of the initial entry guards plus at most SUBSTITUTION_LIMIT redirection rounds (Proofs/ActivationRounds.v)." + WH + MACH, "Coq proof (fuel-bounded loop, ghost round count) + model/implementation correspondence"),
 "C05": ("proof", "7.5", "Coq: update()/react() deliver exactly pre(root) pre(a) upd(root) upd(a) post(a) post(root), every recipient once, only root and the state active at the start, all before any guard/enter/exit of the call; "
         "query delivers query(root) query(a) and leaves the core unchanged; for every cycle and query of every history (every_cycle_of_every_history). Object identity of the event is a token in the model. " + MACH, "Coq proof (exact delivery sequences) + model/implementation correspondence (event address compared in the harness)"),
 "C06": ("proof", "7.6", "Coq: every callback view: stateId = the state's id (255 for root), isActive(k) = (k = active) for every k and every control flavour and equal to the instance's own answer, request() = outstanding request, "
         "guards see pending/current, a request through a control records the caller as origin; every callback of every history sees its own id and an isActive table naming at most one state (every_view_of_every_history). Context identity is a token in the model. " + MACH, "Coq proof (view specification of every delivery) + model/implementation correspondence (context address compared in the harness)"),
 "C07": ("proof", "7.7", "Coq (parametric in the payload type): transitions travel as whole records request -> pending -> current -> previous; any predicate true of all supplied payloads is true of every payload shown; "
         "payload-free requests expose none; plan tasks issue their own payload. Byte-level copying/alignment is exercised by the harness (six payload types), not proved. " + MACH, "Coq proof (parametricity + whole-record movement) + model/implementation correspondence over six payload types"),
 "C08": ("proof", "7.8", "Coq: the C++ plan scan (iterator with cached next over the index-linked plan) implements the abstract firing rule fire_scan: only tasks of the active origin with outstanding success fire, never past a task of another origin, "
         "fired tasks are removed, others keep their order, success is consumed, head fires; the hypotheses of these statements hold at the plan step of every cycle of every history (Proofs/StatusBits.v). " + MACH, "Coq proof (refinement of the plan scan to an abstract list rule) + model/implementation correspondence"),
 "C09": ("proof", "7.9", "Coq: case analysis of the plan step: idle / planFailed / planSucceeded / tasks fire, never two, plan empty and reports clear afterwards, failure of the active state is delivered (in every cycle of every history: failure_delivered_in_every_history), planExists only by append. "
         "'Any prior memory contents' is covered by the fill patterns of the correspondence (C17). " + MACH, "Coq proof (exhaustive case specification of deepUpdatePlans/updatePlan) + model/implementation correspondence under memory fill patterns"),
 "C11": ("proof", "7.11", "Coq: previousTransition() = the survivor after every processing step, names the active state when set; replayTransition/replayEnter apply without guards; replayTransition(INVALID) = identity, false; "
         "a replica fed with the authority's destinations stays in sync for arbitrary replica callbacks - one step (replica_in_sync) and over whole histories of the authority (replica_follows_every_history: same active state after every call, no guard on the replica). " + MACH, "Coq proof (two-instance simulation step) + model/implementation correspondence"),
 "C12": ("proof", "7.12", "Coq: save is pure, exactly ceil(SERIAL_BITS/8) bytes, canonical (equal buffers iff equal activity) for every n in 1..255; load(save(c)) into any loader state yields the saver's activity by exactly the needed "
         "lifecycle change and no guard, built on the bit-stream round trip of C13; between any two in-contract histories of saver and loader (load_roundtrip_between_histories). " + MACH, "Coq proof (bit-level round trip + lifecycle shape of load) + model/implementation correspondence on saver x loader pairs"),
 "C16": ("proof", "7.16", "Coq: strip (detach logger, erase records) commutes with every model function and every API history, across log modes: callbacks, actions, results and final core are independent of the logger; "
         "method record first in its delivery, one record per permitted change/cancel/succeed/fail. " + MACH, "Coq proof (strip-commutation / non-interference over all histories) + model/implementation correspondence with logging off/on/verbose"),
})

CLAIMS.update({
 "C17": ("proof", "7.17", "Coq: the model's run is a function of configuration, callbacks and API history (determinism by construction); construction ignores prior memory contents and the copy/move constructors are the identity, "
         "relative to facts regenerated from clang's AST of /repo on every run (members without initialiser; members the hand-written CoreT copy/move constructors omit) - the obligations are provable exactly when those lists are empty; "
         "instances are independent; a copy behaves like the original. Correspondence: scripts with copies at random points compared with the model, the copy-equals-original monitor, and every script re-run over six memory fill "
         "patterns with the implementation's traces compared among themselves.", "Coq proof over facts regenerated from the source + model/implementation correspondence + fill-pattern differential runs"),
 "C18": ("other", "7.18", "Coq: index safety - every container operation has a checked twin that fails on the first out-of-range index, proved equal to the model's operation and proved to succeed under the container's invariant "
         "(task list, plan links and iterators, bit arrays, bit stream incl. cursor no-wrap, arrays, per-state report bits); in every state reached by an in-contract history both report bit arrays are well formed, so every report-bit access below n is in range (reachable_status_bits). Instrumented execution for what the model cannot express: ASan+UBSan builds of the correspondence scripts "
         "(capacity-full plans, payload alignments 1/4/8/16, n = 1..255 in thorough), undefined-symbol scan of an object instantiating the whole API, operator new/delete and mallinfo2 counters.",
         "Coq proof of index safety + sanitizer-instrumented runs + symbol / allocation-counter inspection"),
 "C19": ("other", "7.19", "Coq: non-interference - for every history that uses none of plans / serialization / transition history and every two settings of those switches and of the log mode and logger, the runs agree on callbacks, "
         "actions, results, active state, request and plan (features_irrelevant); each switch separately as well. Enumeration for what no model expresses: the compile matrix (256 switch masks x 4 standards x 2 compilers x activation x payload "
         "x header variant: complete in thorough, one rotating slice per mask in quick, plus FFSM2_ENABLE_ALL), tools/join.py byte identity, neutral-scenario digests under switch masks, feature-crossed correspondence runs.",
         "Coq proof of feature non-interference + complete enumeration of the compile matrix + byte comparison of the amalgamation"),
})

PENDING = {}

def main():
    ids = ["C%02d" % k for k in range(1, 21)]
    checks = []
    for pid in ids:
        if pid not in CLAIMS: continue
        level, ref, text, tech = CLAIMS[pid]
        assert pid in props.CHECKS, pid
        checks.append(dict(property_id=pid, quick_cmd="./check %s --tier quick" % pid, thorough_cmd="./check %s --tier thorough" % pid,
                           evidence_file="/verif/evidence/%s.json" % pid, replay_cmd_template="./check --replay {path}", engine="coq-model-correspondence",
                           level_claimed=dict(category=level, text=text, design_ref="DESIGN.md section " + ref), level_note=NOTE, technique=tech))
    na = [dict(property_id=pid, reason=PENDING.get(pid, "not claimed yet: the property's theorem file (coq/Properties/Properties_%s.v) is not finished; the model, harness, generator and monitor for it exist and run (tools/explore.py), but no check is registered until the theorems are proved" % pid))
          for pid in ids if pid not in CLAIMS]
    m = dict(version=1, setup_cmd="sh /verif/setup.sh",
             hooks=dict(guard="FFSM2_VERIF", enable="no hooks are needed: every observation goes through the public API and the public ffsm2::detail classes (the guard name is reserved, nothing in /repo uses it)",
                        baseline_off_cmd="cmake -S /repo -B /repo/_build -G Ninja && cmake --build /repo/_build && /repo/_build/ffsm2_test", source_commits=[], add_only=True),
             engines=[dict(name="coq-model-correspondence", path="/verif/check", serves_properties=[c["property_id"] for c in checks],
                           kind_free_text="Coq 8.16 theorems over a hand-written executable model (coq/), extracted to OCaml and run against C++ harnesses built from /repo's working tree (both header variants) on generated scripts; property monitors over implementation traces find the failing input")],
             checks=checks, not_applicable=na,
             notes="See DESIGN.md. KNOWN_FINDINGS.txt lists the eight defects repaired by 'fix:' commits in /repo (fixed: entries suppress nothing).")
    with open(os.path.join(os.path.dirname(os.path.dirname(os.path.abspath(__file__))), "MANIFEST.json"), "w") as fh:
        json.dump(m, fh, indent=1)
    print("MANIFEST.json: %d checks, %d not claimed" % (len(checks), len(na)))

if __name__ == "__main__":
    main()
