#!/usr/bin/env python3
"""Development aid: write a coq/Properties/Properties_<id>.v from a list of (theorem name, proof term, comment).
The statement text is what Coq prints for the type of the term (so the property file shows every statement in
full), the proof is `exact term`, and Print Assumptions follows each. Run once when the lemma set changes; the
generated files are committed and are what the checks compile."""
import subprocess, sys, os, re, textwrap

COQ = os.path.join(os.path.dirname(os.path.dirname(os.path.abspath(__file__))), "coq")

def type_of(imports, term):
    src = imports + "\nSet Printing Width 110.\nSet Printing Depth 1000.\nCheck (%s).\n" % term
    p = "/tmp/exp/_mk.v"; os.makedirs("/tmp/exp", exist_ok=True)
    open(p, "w").write(src)
    r = subprocess.run(["coqc", "-Q", COQ, "FFSM2", p], capture_output=True, text=True)
    if r.returncode != 0: raise SystemExit("Check failed for %s:\n%s" % (term, r.stdout + r.stderr))
    out = r.stdout
    i = out.index("\n     : ")
    return out[i + 8:].rstrip()

def write(pid, header, imports, items, extra=""):
    lines = ["(* %s *)" % "\n   ".join(textwrap.wrap(header.strip(), 116)), imports, ""]
    for name, term, comment in items:
        ty = type_of(imports, term)
        if comment: lines.append("(* %s *)" % "\n   ".join(textwrap.wrap(comment.strip(), 116)))
        lines.append("Theorem %s :\n  %s." % (name, ty.replace("\n", "\n  ")))
        lines.append("Proof. exact (%s). Qed." % term)
        lines.append("Print Assumptions %s.\n" % name)
    if extra: lines.append(extra)
    path = os.path.join(COQ, "Properties", "Properties_%s.v" % pid)
    open(path, "w").write("\n".join(lines) + "\n")
    r = subprocess.run(["coqc", "-Q", COQ, "FFSM2", path], capture_output=True, text=True, cwd=COQ)
    ok = r.returncode == 0
    print(pid, "OK" if ok else "FAILED", len(items), "theorems,", r.stdout.count("Closed under the global context"), "closed")
    if not ok: print((r.stdout + r.stderr)[-3000:])
    return ok
