#!/usr/bin/env python3
"""Development aid: which branches of the *model* do the quick-tier scripts execute?
The correspondence check can only notice a difference on a branch of the model that some script reaches, so this is the
model-side counterpart of tools/coverage.py (which measures the C++ side). The extracted model (driver/extracted/model.ml)
and the drivers are compiled with OCaml's profiling compiler `ocamlcp -P a` (counters at every function, match arm,
if branch, loop and try), every quick script of every machine-level check (generated ones, templates, corpus) and the
unit-level test lines are run through it, and `ocamlprof` prints the source annotated with execution counts.
Reports, per extracted function, the instrumentation points never reached.   Usage: modelcov.py [scripts per cfg]"""
import sys, os, random, subprocess, hashlib, glob, tempfile, shutil, collections, re
sys.path.insert(0, os.path.dirname(os.path.dirname(os.path.abspath(__file__))))
from vt import props, cfg as cfgmod, gen, common, engine, units

def scripts(per):
    out = []
    specs = list(props.SPECS.items()) + [("C10", props.SPEC_C10_MACHINE), ("C17", props.SPEC_C17)]
    for pid, spec in specs:
        rng = random.Random(int(hashlib.sha256((spec.pid + "quick").encode()).hexdigest()[:8], 16))
        cfgs = spec.cfgs("quick", rng)
        if spec.extra:
            for (c, sc, src) in spec.extra("quick"): out.append(sc)
        r2 = random.Random(1)
        for c in cfgs:
            prof = spec.profile(c) if callable(spec.profile) else spec.profile
            out.extend(gen.gen_script(r2, c, prof) for _ in range(per))
    for f in glob.glob(os.path.join(common.CORPUS, "*", "*.script")): out.append(open(f).read())
    return out

def main():
    per = int(sys.argv[1]) if len(sys.argv) > 1 else 25
    root = tempfile.mkdtemp(prefix="ffsm2-mcov.", dir="/var/tmp")
    ex = os.path.join(common.DRIVER, "extracted")
    for f in ("model.ml", "model.mli"): shutil.copy(os.path.join(ex, f), root)
    for f in ("main.ml", "units.ml"): shutil.copy(os.path.join(common.DRIVER, f), root)
    def cc(main, out):
        r = subprocess.run(["ocamlfind", "ocamlcp", "-P", "a", "-w", "-a", "-package", "str", "-linkpkg", "model.mli", "model.ml", main, "-o", out], cwd=root, capture_output=True, text=True)
        assert r.returncode == 0, r.stderr
    cc("main.ml", "runner_cov")
    scs = scripts(per)
    env = dict(os.environ, OCAMLPROF_DUMP=os.path.join(root, "ocamlprof.dump"))
    n = 0
    for s in scs:
        try: subprocess.run(["./runner_cov"], cwd=root, input=s, capture_output=True, text=True, timeout=60, env=env); n += 1
        except Exception: pass
    # unit-level lines (bit stream, bit width, bit array, arrays, task list) through the units driver; the dump accumulates
    # only for one program, so the unit runner gets its own dump and its counts are merged by taking the maximum per point
    ann1 = subprocess.run(["ocamlprof", "model.ml"], cwd=root, capture_output=True, text=True).stdout
    os.remove(os.path.join(root, "ocamlprof.dump"))
    for f in glob.glob(os.path.join(root, "*.cm*")): os.remove(f)
    cc("units.ml", "units_cov")
    rng = random.Random(1); m = 0
    for kind, g in (("bs", units.gen_bitstream), ("bw", units.gen_bitwidth), ("ba", units.gen_bitarray), ("ar", units.gen_arrays), ("tl", units.gen_tasklist)):
        try: lines = g(rng, 60)
        except TypeError: lines = g(rng, 60)
        text = "\n".join(lines) + "\n" if isinstance(lines, list) else lines
        try: subprocess.run(["./units_cov"], cwd=root, input=text, capture_output=True, text=True, timeout=600, env=env); m += 1
        except Exception: pass
    ann2 = subprocess.run(["ocamlprof", "model.ml"], cwd=root, capture_output=True, text=True).stdout
    pts1 = [int(x) for x in re.findall(r"\(\* (\d+) \*\)", ann1)]; pts2 = [int(x) for x in re.findall(r"\(\* (\d+) \*\)", ann2)]
    assert len(pts1) == len(pts2), (len(pts1), len(pts2))
    merged = [max(a, b) for a, b in zip(pts1, pts2)]
    # attribute each point to the enclosing top-level definition of model.ml
    missed = collections.OrderedDict(); total = collections.Counter(); k = 0; cur = "?"
    for line in ann1.split("\n"):
        m0 = re.match(r"(?:let rec|let|and) ([a-zA-Z_0-9']+)", line)
        if m0 and not line.startswith(" "): cur = m0.group(1)
        for _ in re.findall(r"\(\* \d+ \*\)", line):
            total[cur] += 1
            if merged[k] == 0: missed.setdefault(cur, []).append(line.strip()[:110])
            k += 1
    npts = len(merged); nmiss = sum(1 for x in merged if x == 0)
    print("%d machine scripts, %d unit batches; instrumentation points in the extracted model: %d, reached: %d, never reached: %d" % (n, m, npts, npts - nmiss, nmiss))
    for f, ls in missed.items():
        print("  %s: %d of %d points not reached" % (f, len(ls), total[f]))
        for l in ls[:6]: print("      " + l)
    shutil.rmtree(root, ignore_errors=True)

if __name__ == "__main__":
    main()
