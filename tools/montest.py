#!/usr/bin/env python3
"""Development aid: every monitor must accept every model trace (the model is proved to satisfy the properties)."""
import sys, os, random, time, collections
sys.path.insert(0, os.path.dirname(os.path.dirname(os.path.abspath(__file__))))
from vt import common, cfg as cfgmod, gen, corr, monitors
sys.path.insert(0, os.path.dirname(os.path.abspath(__file__)))
from explore import RICH

def main():
    seed = int(sys.argv[1]) if len(sys.argv) > 1 else 1
    count = int(sys.argv[2]) if len(sys.argv) > 2 else 50
    rng = random.Random(seed)
    rejects = collections.Counter(); shown = collections.Counter(); applied = collections.Counter()
    for k in range(30):
        simple = rng.random() < 0.6
        c = cfgmod.make(n=rng.choice([1, 2, 3, 4, 5]), head=rng.randrange(2), manual=rng.randrange(2), limit=rng.choice([1, 2, 3, 4]),
                        cap=rng.choice([1, 2, 3, 4]), payload=rng.choice([0, 0, 2, 4]), ctx=0,
                        inj_root=0 if simple else rng.choice([0, 1, 2]), inj_state=0 if simple else rng.choice([0, 1, 2]),
                        plans=rng.randrange(2), serial=rng.randrange(2), history=rng.randrange(2),
                        log=rng.choice(["off", "on", "verbose"]),
                        defroot=0x3fff if simple else rng.choice([0x3fff, 0, 0x0aaa]), defstate=0x3fff if simple else rng.choice([0x3fff, 0, 0x0555]))
        prof = RICH.with_(p_logger_at_construct=1.0, w_ops=dict(attachLogger=0)) if k % 2 else RICH
        scripts = [gen.gen_script(rng, c, prof) for _ in range(count)]
        outs = common.pmap(lambda s: corr.run_model(s), scripts)
        for s, (rc, out, err) in zip(scripts, outs):
            if rc != 0: print("MODEL ERROR", err[-300:]); continue
            for pid in monitors.MONITORS:
                if any(m.applies(c) for m in monitors.MONITORS[pid]): applied[pid] += 1
                r = monitors.run_monitors(pid, out, c)
                if r:
                    rejects[pid] += 1
                    if shown[pid] < 1:
                        shown[pid] += 1
                        print("==== %s rejects a model trace: %s" % (pid, r[1])); print(cfgmod.name(c))
                        open("/tmp/exp/mon_%s.script" % pid, "w").write(s); open("/tmp/exp/mon_%s.trace" % pid, "w").write(out)
    print("applied", dict(applied)); print("rejects", dict(rejects))
main()
