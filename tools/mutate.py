#!/usr/bin/env python3
"""Development aid (not a registered check): automatic mutation analysis of the checks.

Works on a scratch copy of the repository given by $VP_RUN_REPO (vp run --with-repo) or --repo: for each sampled mutant of
the development sources (relational / logical / arithmetic operator flips, boolean constants, statement deletion) it
regenerates the single header with tools/join.py, builds and runs the repository's own test suite, and - for mutants the
suite does not notice - runs every quick check with VERIF_REPO pointing at the copy. Prints one JSON line per mutant.

  python3 tools/mutate.py --n 120 --seed 1 [--repo DIR] [--checks C01,C02,...]
"""
import argparse, json, os, random, re, subprocess, sys, time, glob
os.environ.setdefault("VERIF_EVIDENCE_DIR", "/var/tmp/verif-scratch-evidence"); os.makedirs(os.environ["VERIF_EVIDENCE_DIR"], exist_ok=True)   # never overwrite /verif/evidence from a run against a modified tree

VERIF = os.path.dirname(os.path.dirname(os.path.abspath(__file__)))

SKIP_LINE = re.compile(r"^\s*(//|#|template\b|typename\b|using\b|static_assert|FFSM2_ASSERT|FFSM2_CONSTEXPR|FFSM2_IF_ASSERT|FFSM2_BREAK|namespace\b|struct\b|class\b|enum\b|public:|private:|protected:|friend\b|\}|\{|$)")
REL = [(" < ", " <= "), (" <= ", " < "), (" > ", " >= "), (" >= ", " > "), (" == ", " != "), (" != ", " == ")]
LOGIC = [(" && ", " || "), (" || ", " && ")]
ARITH = [(" + 1", " + 0"), (" - 1", " - 0"), ("++", "--"), (" + ", " - "), (" |= ", " &= "), (" &= ", " |= ")]
CONST = [("true", "false"), ("false", "true"), ("INVALID_STATE_ID", "StateID{0}"), ("INVALID_SHORT", "Short{0}")]

def candidates(repo):
    out = []
    files = sorted(glob.glob(os.path.join(repo, "development", "ffsm2", "detail", "**", "*.inl"), recursive=True)) + \
            sorted(glob.glob(os.path.join(repo, "development", "ffsm2", "detail", "**", "*.hpp"), recursive=True))
    for f in files:
        base = os.path.basename(f)
        if base.startswith("macros") or "structure_report" in f or "debug" in base: continue
        lines = open(f).read().split("\n")
        depth_angle = 0
        for i, l in enumerate(lines):
            if SKIP_LINE.match(l): continue
            if "FFSM2_ASSERT" in l or "static constexpr" in l or "operator" in l and "(" not in l: continue
            code = l.split("//")[0]
            if not code.strip(): continue
            for ops, kind in ((REL, "rel"), (LOGIC, "logic"), (ARITH, "arith"), (CONST, "const")):
                for a, b in ops:
                    start = 0
                    while True:
                        k = code.find(a, start)
                        if k < 0: break
                        # avoid template angle brackets: a '<' directly after an identifier followed by a type-ish token is too risky to tell; keep only spaced operators
                        out.append((f, i, kind, code[:k] + b + code[k + len(a):] + (l[len(code):] if len(l) > len(code) else ""), "%s: '%s' -> '%s'" % (kind, a.strip(), b.strip())))
                        start = k + len(a)
            s = code.strip()
            if s.endswith(";") and not s.startswith(("return", "const ", "auto ", "static ", "typedef", "using ", "for", "if", "else", "case", "break", "continue", "new ")) \
               and re.match(r"^[A-Za-z_:.\->\[\]\*&\(\)\s]*[\w\]\)]\s*(\(|=|\+=|-=|\|=|&=|\+\+|--)", s) and not re.match(r"^[A-Za-z_:<>]+\s+[A-Za-z_]+\s*(=|;|\{)", s):
                out.append((f, i, "delete", re.sub(r"\S.*$", "/* deleted */;", l, count=1), "delete statement: " + s[:70]))
    return out

def sh(cmd, cwd=None, timeout=3600, env=None):
    try:
        r = subprocess.run(cmd, shell=True, cwd=cwd, capture_output=True, text=True, timeout=timeout, env=env)
        return r.returncode, r.stdout + r.stderr
    except subprocess.TimeoutExpired:
        return -9, "timeout"

def main():
    ap = argparse.ArgumentParser()
    ap.add_argument("--n", type=int, default=100); ap.add_argument("--seed", type=int, default=1)
    ap.add_argument("--repo", default=os.environ.get("VP_RUN_REPO")); ap.add_argument("--checks", default="")
    ap.add_argument("--out", default="mutants.jsonl")
    a = ap.parse_args()
    repo = a.repo
    assert repo and os.path.abspath(repo) != "/repo", "refusing to mutate /repo itself: give a scratch copy"
    checks = a.checks.split(",") if a.checks else ["C%02d" % k for k in range(1, 21)]
    env = dict(os.environ, VERIF_REPO=repo)
    rc, out = sh("git -C %s status --porcelain --untracked-files=no" % repo); assert out.strip() == "", out
    rc, out = sh("cmake -S . -B _build -G Ninja >/dev/null && cmake --build _build 2>&1 | tail -3", cwd=repo, timeout=1800)
    print("# baseline suite:", out.strip().split("\n")[-1], flush=True)
    cands = candidates(repo)
    rng = random.Random(a.seed); rng.shuffle(cands)
    # spread over kinds and files
    seen = set(); picked = []
    for c in cands:
        key = (c[0], c[1])
        if key in seen: continue
        seen.add(key); picked.append(c)
        if len(picked) >= a.n: break
    print("# %d candidate sites, %d picked" % (len(cands), len(picked)), flush=True)
    outf = open(a.out, "a")
    for (f, i, kind, newline, desc) in picked:
        t0 = time.time()
        lines = open(f).read().split("\n"); old = lines[i]; lines[i] = newline
        open(f, "w").write("\n".join(lines))
        rec = dict(file=os.path.relpath(f, repo), line=i + 1, kind=kind, desc=desc, old=old.strip()[:160], new=newline.strip()[:160])
        try:
            rc, out = sh("python3 -W ignore join.py", cwd=os.path.join(repo, "tools"), timeout=300)
            rc, out = sh("cmake --build _build 2>&1 | tail -25", cwd=repo, timeout=1800)
            if "Status: SUCCESS" not in out or "FAILED" in out or "error" in out.lower():
                rec["suite"] = "killed" if "Status: FAILURE" in out or "FAILED" in out else "does-not-compile" if "error" in out.lower() else "killed"
            else:
                rec["suite"] = "survived"; rec["checks"] = {}
                for pid in checks:
                    rc, o = sh("./check %s --tier quick" % pid, cwd=VERIF, timeout=1800, env=env)
                    v = [l for l in o.splitlines() if l.startswith("VIOLATION")]
                    rec["checks"][pid] = "violation" + (" (no-failing-input-found)" if v and "no-failing-input-found" in v[0] else "") if v else ("ok" if rc == 0 else "error rc=%s" % rc)
                rec["detected_by"] = [p for p, r in rec["checks"].items() if r.startswith("violation")]
        finally:
            lines[i] = old; open(f, "w").write("\n".join(lines))
            sh("git checkout -- include/ffsm2/machine.hpp development", cwd=repo)
        rec["wall_s"] = round(time.time() - t0, 1)
        outf.write(json.dumps(rec) + "\n"); outf.flush()
        print(json.dumps({k: rec[k] for k in ("file", "line", "desc", "suite") if k in rec} | {"detected_by": rec.get("detected_by")}), flush=True)

if __name__ == "__main__":
    main()
