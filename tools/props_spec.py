#!/usr/bin/env python3
import sys, os
sys.path.insert(0, os.path.dirname(os.path.abspath(__file__)))
from mkprops import write

IMP = """From Coq Require Import List Arith Bool NArith.
From FFSM2 Require Import Model.TaskList Model.BitArray Model.BitStream Model.Plan Model.Ancestors Model.Machine
  Proofs.BitArrayProofs Proofs.TaskListProofs Proofs.TaskListRun Proofs.PlanProofs Proofs.MachineFrame Proofs.MachinePlan Proofs.MachineLife Proofs.GuardProofs Proofs.CycleProofs Proofs.PlanStep
  Proofs.SerialProofs Proofs.LogProofs Proofs.MachineTop Model.Multi Generated.InitFacts Proofs.ConstructProofs Proofs.LifeMonitor Proofs.ActivationRounds Proofs.IndexSafety Proofs.FeatureProofs Model.Script Proofs.Contract Proofs.Histories Proofs.StatusBits Proofs.Worlds Model.Cxx Generated.LeafCode Proofs.LeafTactics Proofs.LeafConsts Proofs.LeafCodeTaskList Proofs.LeafCodeStream Proofs.LeafCodeWide.
Import ListNotations."""
# the translated PlanT (long symbolic runs): only the properties that state something about it import it, so that a cold build of any other property does not wait for it
IMP_PLAN = IMP.replace("Proofs.LeafCodeWide.", "Proofs.LeafCodeWide Proofs.LeafCodePlan Proofs.LeafCodePlanRemove Proofs.LeafCodePlanAppend Proofs.LeafCodePlanChange Proofs.LeafCodePlanInv.")

VOC = ("Vocabulary: Ready cfg s a = the machine is at a point where requests are processed (or between API calls) with state a < n active, "
       "registry.requested = INVALID, the outstanding request (if any) names a state, the plan is well formed; Inv = the same without naming a. "
       "loop_rounds = the guard rounds the substitution loop executes (ghost-instrumented copy of the loop, proved equal to it: transitions_loop_g_erase), "
       "each with its pending transition, whether it was cancelled, and whether it was dropped by applyRequest's same-destination rule; "
       "last_survivor = the pending transition of the last round neither cancelled nor dropped; rounds_shape / guard_round describe the events of the rounds "
       "(exit guard of the active state, then - unless it cancelled - entry guard of the destination; every guard view shows that round's pending transition and the survivor so far); "
       "change a a' l = the lifecycle events exit(a);enter(a') | reenter(a) | ...; quiet a l = no enter/exit/reenter in l and every view shows a active.")

SPECS = {
 "C02": ("C02 - Transition outcome: last surviving request wins, applied only when processed. Theorems only. " + VOC, [
   ("C02_process_request", "process_request_top", "what one processing step does, for every reachable state, every callback behaviour, every n and limit: the active state afterwards is the destination of the last surviving round, reached by exit(old);enter(new) or reenter alone, each lifecycle callback seeing the surviving transition as current; if nothing survived, the active state is unchanged and only guard events were appended"),
   ("C02_request_is_lazy_api", "request_is_lazy", "changeTo/changeWith from outside change nothing but the outstanding request (and log at most one record)"),
   ("C02_request_is_lazy_callback", "action_request_is_lazy_top", "an action performed through a control changes neither the active state nor registry.requested; a permitted changeTo/changeWith overwrites the outstanding request with (caller, destination, payload)"),
   ("C02_later_request_replaces_earlier", "request_overwrites", "a later request replaces an earlier unprocessed one"),
   ("C02_update_processes_at_the_end", "cycle_processes_last", "update()/react(): the phase callbacks and the plan step apply no transition (quiet), then requests are processed exactly once"),
   ("C02_every_reachable_state_is_ready", "reachable_ready", "the hypothesis Ready of the statements above holds in every state reached by an in-contract history (when the machine is active)"),
   ("C02_survivor_is_a_round_that_passed", "applied_passed_guards", "the applied transition was the pending transition of a round that was neither cancelled nor dropped, and no later round survived"),
 ]),
 "C03": ("C03 - Guards can veto: a cancelled transition is never applied. Theorems only. " + VOC, [
   ("C03_cancelled_never_entered", "cancelled_never_entered_top", "a destination that is not the last survivor's is not the active state afterwards: a request cancelled by a guard is not applied on account of that request"),
   ("C03_all_cancelled_stays_put", "all_cancelled_stays_top", "if every round was cancelled the machine stays put"),
   ("C03_only_the_survivor_is_entered", "enter_only_survivor_top", "every enter() delivered during processing goes to the last survivor's destination"),
   ("C03_round_cancelled_iff_cancel_action", "round_cancelled_iff", "a round counts as cancelled exactly when a guard callback of that round performed cancelPendingTransition()"),
   ("C03_exit_guard_first_and_short_circuit", "exit_cancel_short_circuit", "the exit guard of the active state is consulted first; if it cancelled, the entry guard is not consulted; otherwise the entry guard of the destination is"),
   ("C03_rounds_and_their_events", "round_events_proj", "the events of the substitution loop are exactly those of its rounds (rounds_shape): no enter/exit/reenter between guards, every guard view shows the round's pending transition and the survivor so far, the next round's pending transition is the request written inside this round's guards (next_pend)"),
   ("C03_fresh_round_for_guard_requests", "fresh_round", "a request made from inside a guard becomes the pending transition of the next round (it is evaluated, not applied blindly)"),
   ("C03_replay_consults_no_guards", "replay_transition_spec", "replayTransition applies the transition with lifecycle callbacks only (change), whatever the callbacks do"),
   ("C03_lifecycle_change_has_no_guards", "change_only_life", "a lifecycle change consists of enter/exit/reenter callbacks only"),
 ]),
 "C04": ("C04 - Request processing terminates within the substitution limit. Theorems only. (All model functions are total Coq functions, so termination itself is by construction: the substitution loops recurse on fuel = SUBSTITUTION_LIMIT.) " + VOC, [
   ("C04_rounds_le_limit", "rounds_le_limit", "at most SUBSTITUTION_LIMIT guard rounds per processing step, whatever the guards do"),
   ("C04_leftover_untouched", "leftover_top", "the request left over when the loop stops is kept untouched, and one is left over only if all SUBSTITUTION_LIMIT rounds were used"),
   ("C04_leftover_means_full", "leftover_full", "a valid left-over request means the fuel was exhausted"),
   ("C04_state_chosen_among_survivors", "process_request_top", "when the limit is reached the call still ends with exactly one active state: the last survivor's destination (or the old state), by the same theorem as C02"),
   ("C04_activation", "initial_enter_spec", "activation: ends with exactly one active state below n and registry.requested consumed, for any guard behaviour (the redirection loop of initialEnter recurses on fuel = SUBSTITUTION_LIMIT after one evaluation of the initial entry guards)"),
 ]),
 "C11": ("C11 - Transition history mirrors what happened; replay keeps replicas in sync. Theorems only. " + VOC, [
   ("C11_previous_is_the_survivor", "process_request_top", "previousTransition() after a processing step is the surviving transition (origin, destination and payload), empty if none survived"),
   ("C11_previous_names_the_active_state", "previous_tracks_active", "when previousTransition() is set its destination is the now-active state; when it is empty the active state did not change"),
   ("C11_replica_in_sync", "replica_in_sync", "feeding the authority's previousTransition().destination to replayTransition() on a replica in the same state reproduces the authority's active state, running enter/exit/reenter only, for arbitrary (hostile) replica callbacks orc'"),
   ("C11_replay_transition", "replay_transition_spec", "replayTransition(d), d < n: returns true, the active state becomes d by exit/enter or reenter, no guard"),
   ("C11_replay_invalid_changes_nothing", "replay_transition_invalid", "replayTransition(INVALID_STATE_ID) returns false and changes nothing at all"),
   ("C11_replay_enter", "replay_enter_spec", "replayEnter(d) on an inactive machine: root enter then enter(d), no guard"),
 ]),
}


PI_NOTE = ("The plan's structural invariant is a parameter PI with plan_inv_ok P cfg PI in the statements taken from Proofs/CycleProofs.v / Proofs/PlanStep.v; "
           "the last theorem of this file shows the concrete invariant PIc (the plan refines a bounded task list whose tasks name states, Proofs/PlanProofs.v, Proofs/MachinePlan.v) satisfies it. ")
PIC = ("plan_invariant_exists", "PIc_ok", "the abstract plan invariant the statements above quantify over is inhabited by the concrete one")

SPECS.update({
 "C05": ("C05 - Update/react cycle: fixed callback order, active state only, requests last. Theorems only. delivs a ds l = l is the concatenation of one delivery (deliv: every recipient exactly once, in C15 order, views showing a active) per (who, method) of ds, oldest first; cbs l = the (who, recipient, method) of the callbacks in l, oldest first; expected_cbs = the same computed from the configuration. " + PI_NOTE, [
   ("C05_update_order", "update_cycle_order", "update(): the oldest events of the call are exactly preUpdate(root), preUpdate(a), update(root), update(a), postUpdate(a), postUpdate(root) - each recipient once -, only the root and the state active at the start are addressed, and every guard/enter/exit/reenter of the call is newer than all of them, whatever the callbacks request or report on the way"),
   ("C05_react_order", "react_cycle_order", "react(): the same with preReact/react/postReact"),
   ("C05_cycle_shape", "cycle_shape", "the whole cycle: six phase deliveries, then the plan step (only planSucceeded/planFailed on the root, nothing when plans are off), then request processing"),
   ("C05_query", "query_shape", "query(): query(root), query(active) and the core is left unchanged"),
   ("C05_exactly_once_in_order", "delivs_cbs", "a sequence of deliveries reaches exactly the expected recipients, once each, in order"),
   PIC,
 ]),
 "C06": ("C06 - Control objects give a consistent view inside every callback. Theorems only. " + PI_NOTE, [
   ("C06_view_of_a_delivery", "view_spec", "every callback of a delivery to w sees stateId() = id_of w (255 for the root), isActive(k) = (k = active) for every k, and the control's current/pending transition and kind"),
   ("C06_view_fields", "mk_view_fields", "the view is built from the core at the moment of the callback: request() is the outstanding request, isActive(k) compares with registry.active for every control flavour"),
   ("C06_control_agrees_with_instance", "view_act_agrees_with_instance", "control.isActive(k) inside a callback equals what the instance itself reports for every k (including 0 and inactive ids), for guard, plan, full and const controls"),
   ("C06_guards_see_pending_and_current", "guards_see_pending", "guards see the pending transition being evaluated and the transition accepted so far"),
   ("C06_request_records_caller", "invoke_records_caller", "a changeTo made through a control records the calling state (255 for the root) as origin"),
   ("C06_request_with_payload_records_caller", "invoke_records_caller_with", "likewise changeWith"),
   PIC,
 ]),
 "C07": ("C07 - Payloads travel intact with the transition they were attached to. Theorems only. The payload type P is arbitrary (every theorem is parametric in it) and transitions are moved as whole records (origin, destination, optional payload). " + PI_NOTE, [
   ("C07_api_request", "change_to_spec", "changeWith(d, p) from outside stores exactly (255, d, Some p); changeTo stores None"),
   ("C07_guards_see_the_request", "guards_see_pending", "the guards of a round see, as pending transition, the whole request record of that round"),
   ("C07_destination_sees_the_survivor", "lifecycle_sees_current", "exit/enter/reenter see the surviving transition (with its payload) as current transition"),
   ("C07_whole_step", "process_request_top", "previousTransition() afterwards is the survivor, payload included; every lifecycle view carries it (gview KPlan surv)"),
   ("C07_payload_predicate_preserved", "process_request_pay", "any predicate on payloads that holds of every payload the callbacks supply holds of every payload shown anywhere (request, pending, current, previous): no payload is invented or mixed up"),
   ("C07_no_payload_invented", "no_payload_invented", "if nobody supplies a payload none is exposed"),
   ("C07_plan_task_payload", "plan_scan_fire_step", "a firing plan task issues (origin, destination, the task's payload)"),
   PIC,
 ]),
 "C08": ("C08 - Plan tasks fire in order, only for the succeeded active state, and only once. Theorems only. fire_scan a sa defer ts = (fired, remaining, success bit of a afterwards, clear-after-scan) is the abstract firing rule over the plan as a list of tasks; plan_scan_spec proves the C++ scan (iterator with cached next over the index-linked plan) implements it. ", [
   ("C08_scan_implements_fire_scan", "plan_scan_spec", "the SUCCESS branch of the plan step: remaining tasks in original order, the request is the last fired task's (origin, destination, payload), the success bit of the active state is consumed accordingly, other bits and everything else unchanged, one transition record per fired task and no callback"),
   ("C08_fire_scan_shape", "fire_scan_shape", "only a prefix of tasks whose origin is the active state is scanned; the scan stops at the first task of another origin; fired and kept tasks partition that prefix in order"),
   ("C08_fired_have_active_origin", "fired_all_origin_a", ""),
   ("C08_no_task_fires_past_another_origin", "fired_prefix", ""),
   ("C08_order_preserved", "remaining_order", ""),
   ("C08_fired_once", "fired_once", "fired tasks are removed: lengths add up"),
   ("C08_head_fires", "head_fires", "converse: the head task fires when its origin is active and has an outstanding success"),
   ("C08_no_success_no_fire", "no_success_no_fire", ""),
   ("C08_success_consumed", "success_consumed", "a success report is consumed by the tasks it fires"),
   ("C08_plan_step_only_in_update_react", "cycle_processes_last", "the plan step runs inside update()/react() only (step's other operations never call it: see Model/Machine.v step), before request processing"),
   PIC,
 ]),
 "C09": ("C09 - planSucceeded / planFailed are delivered exactly when warranted. Theorems only. plan_st c = strongest of the cycle's task status and the active state's latched report (failure over success); outcome_post m st ... = exactly one delivery of m to the root, afterwards the plan is empty and every report bit below n is clear. ", [
   ("C09_idle", "dup_idle", "no status or no plan ever created: nothing happens"),
   ("C09_failure", "dup_failure", "failure outstanding: planFailed, plan cleared, no task fires"),
   ("C09_success_empty", "dup_success_empty", "success outstanding and no task remains: planSucceeded, plan cleared (even if the callback appended tasks)"),
   ("C09_success_fire", "dup_success_fire", "success outstanding and tasks remain: tasks fire, no outcome callback"),
   ("C09_never_both", "dup_never_both", "at most one of the two callbacks per cycle"),
   ("C09_failure_delivered", "failure_delivered", "plan exists and the active state reported failure: planFailed is delivered in that cycle"),
   ("C09_exists_only_by_append", "plan_exists_only_by_append", "planExists becomes true only through an append: on a machine to which no task has been added neither callback is ever delivered"),
   PIC,
 ]),
 "C12": ("C12 - Serialization round-trips the activity state and is canonical. Theorems only. saver_ok = the saver is active with a state below n, or inactive (manual activation only). ", [
   ("C12_load_roundtrip", "load_roundtrip", "loading what any instance of the same type saved, into any loader state: the loader ends with the saver's activity, by exactly the lifecycle change needed (none | exit;enter | reenter | root enter;enter | exit;root exit) - change contains no guard event"),
   ("C12_change_has_no_guards", "change_only_life", ""),
   ("C12_save_is_pure", "save_pure", "save() is a function of (activation mode, n, active state) only and does not modify the machine (it takes the core and returns bytes)"),
   ("C12_save_length", "save_length", "exactly ceil(SERIAL_BITS / 8) bytes, for every core"),
   ("C12_save_fits", "save_le_2_bytes", ""),
   ("C12_canonical", "save_canonical", "two machines produce equal buffers iff their activity states are equal"),
   ("C12_read_back_active", "save_read_active", ""),
   ("C12_read_back_inactive", "save_read_inactive", ""),
   ("C12_load_of_save", "load_save_spec", "load(save(c0)) with the bit stream eliminated"),
   ("C12_saved_buffer_in_contract", "load_buffer_in_contract", ""),
 ]),
 "C16": ("C16 - Logging is faithful and does not perturb the machine. Theorems only. strip s = s with the logger detached and the logger's records erased from the trace; log_blind orc orc' = the callbacks orc' under logging behave as orc on the trace without logger records (callbacks cannot see the logger's records). ", [
   ("C16_log_transparent", "log_transparent", "for every history: running with a logger attached at any point(s) and then forgetting the records equals running without any logger: same callbacks, same order, same actions and results, same final core"),
   ("C16_log_mode_irrelevant", "log_transparent_gen", "the same across compile-time log modes (off / on / verbose)"),
   ("C16_from_construction", "run_log_transparent", ""),
   ("C16_cores_agree", "run_log_transparent_core", ""),
   ("C16_trace_without_records", "run_log_transparent_trace", ""),
   ("C16_one_step", "step_log_transparent", ""),
   ("C16_method_record_first", "deliver_log_adjacent", "faithfulness: with a logger attached, a delivery whose method is logged appends its method record first, before any user code of that delivery runs, and nothing but callbacks of that very (state, method) follow in the delivery"),
   ("C16_no_record_otherwise", "deliver_log_silent", ""),
   ("C16_action_records", "perform_log", "each permitted changeTo/changeWith emits exactly one transition record (caller, destination), each cancellation one cancellation record, each succeed/fail one task-status record; refused and other actions emit nothing"),
   ("C16_refused_is_silent", "perform_ignored_silent", ""),
 ]),
})

SPECS.update({
 "C17": ("C17 - Behaviour depends only on history; copies are equivalent. Theorems only. The model's run is a Coq function of (configuration, callbacks, API history), so determinism is by construction; what can break it in C++ is a member without initialiser or a member the hand-written copy constructor forgets. Generated/InitFacts.v lists exactly those, read off clang's AST of /repo's working tree on this run; core_over builds each field from its initialiser if it has one and from arbitrary prior memory contents g otherwise; copy_over copies a member if the constructor names it and default-initialises it otherwise. ", [
   ("C17_construct_ignores_garbage", "construct_ignores_garbage", "a freshly constructed core is core_init whatever the storage held before"),
   ("C17_construct_same_for_any_memory", "construct_same_for_any_memory", ""),
   ("C17_copy_ctor_is_identity", "copy_ctor_is_identity", "a copy-constructed core equals the original (active state, request, previous transition, plan, logger)"),
   ("C17_move_ctor_is_identity", "move_ctor_is_identity", ""),
   ("C17_model_copy_is_the_copy_ctor", "copy_core_is_copy_ctor", ""),
   ("C17_copy_behaves_like_original", "copy_behaves_like_original", "thereafter the copy responds to the same inputs with the same results"),
   ("C17_instances_independent", "instances_independent", "operations on one instance leave every other instance untouched"),
 ]),
})

INST = "fun P cfg orc (Hcfg : wf_cfg cfg) (Hwf : wf_oracle P cfg orc) => %s P cfg orc (PIc P cfg) (PIc_ok P cfg (proj1 (proj2 Hcfg))) Hwf%s"
SPECS.update({
 "C01": ("C01 - Exactly one active state; enter/exit strictly paired over the whole lifetime. Theorems only. "
         "SInv s = between API calls: registry.requested is INVALID, the machine is inactive (active = INVALID) or has exactly one active state < n, the outstanding request (if any) names a state, the plan is well formed (PIc); "
         "deliv w m a l = l are the events of ONE delivery of callback m to w while a is active: only callbacks of (w, m), each recipient (injected bases and the state itself, in C15 order) exactly once, every view reporting id_of w and isActive(k) = (k = a); "
         "change a a' l = the lifecycle events of one call: none | exit(a);enter(a') | reenter(a) | root enter;enter(a') | exit(a);root exit; "
         "life_shape a a' l = a change preceded by a quiet stretch (no enter/exit/reenter at all, every view shows a); life_chain a0 a l = the trace l is a concatenation of life_shapes from a0 to a; "
         "mon = the executable lifecycle monitor of Proofs/LifeMonitor.v (an automaton over the states' own enter/exit/reenter callbacks that also checks every view's isActive bits).", [
   ("C01_every_history", INST % ("run_life", " Hcfg"), "every API history from construction, every behaviour of the callbacks, every n <= 255, capacity, limit, activation mode, head or no head, payload type: the state between calls is well formed and the whole trace is a chain of lifecycle shapes"),
   ("C01_monitor_accepts_every_history", "run_accepted", "the executable lifecycle monitor accepts the trace of every history and ends in the state matching activeStateId() (for configurations whose states define enter/exit/reenter, so that the lifecycle is observable)"),
   ("C01_one_call", INST % ("step_spec", " Hcfg"), "one API call on any reachable state"),
   ("C01_construct", INST % ("construct_spec", " Hcfg"), "construction activates an automatic machine (root enter, then the initial or redirected state) and leaves a manual one inactive"),
   ("C01_destroy", INST % ("destroy_spec", ""), "destruction of an automatic machine exits the active state and then the root"),
   ("C01_exit_pairs", INST % ("final_exit_spec", ""), "deactivation: exit(active) then exit(root), nothing else"),
   ("C01_change_only_lifecycle", "change_only_life", "a lifecycle change runs enter/exit/reenter callbacks only"),
   ("C01_after_enter_comes_exit_or_reenter", "accepted_after_enter", "in any accepted trace the next own lifecycle callback of a state after enter(k) is exit(k) or reenter(k)"),
   ("C01_no_two_enters_without_exit", "accepted_enter_enter", ""),
   ("C01_views_show_the_entered_state", "accepted_life_view", ""),
   ("C01_scripted_callbacks_are_in_the_domain", "table_oracle_wf", "the correspondence check's scripted callbacks satisfy wf_oracle when the extracted test table_okb says so (the model runner evaluates it for every script)"),
   ("C01_scripted_operations_are_in_the_domain", "in_contractb_spec", "... and an operation the extracted test in_contractb accepts is in_contract (the model runner evaluates first_violation for every script and the check skips a script that is not)"),
   ("C01_loads_between_instances_are_in_the_domain", "load_from_in_contract", ""),
 ]),
})
SPECS["C04"][1].extend([
   ("C04_activation_rounds_le_limit", "initial_rounds_le_limit", "activation: at most SUBSTITUTION_LIMIT redirection rounds"),
   ("C04_activation_exact", "initial_enter_rounds", "activation = one evaluation of the initial entry guards (verdict ignored), at most SUBSTITUTION_LIMIT rounds, then entry into the last survivor's destination or state 0"),
   ("C04_activation_guard_evaluations", "initial_enter_guard_evals", "the number of root entry-guard evaluations during activation is one plus the rounds that reached their guards, at most 1 + SUBSTITUTION_LIMIT"),
])
SPECS.update({
 "C18": ("C18 - No out-of-bounds access: the Coq part. The model reads with nth-with-default and writes with update functions that ignore an out-of-range index; every container operation has a checked twin in an option monad that fails on the first out-of-range index, is proved to compute the same result (erasure), and is proved to succeed under the container's invariant and the operation's precondition - so on in-contract histories every index the code computes is in range. Misalignment, indeterminate reads and allocation live in the C++ abstract machine and are decided by instrumented runs, not here. ", [
   ("C18_tasklist_emplace", "emplace_c_safe", ""), ("C18_tasklist_remove", "remove_c_safe", ""),
   ("C18_plan_append", "plan_append_c_safe", ""), ("C18_plan_append_with", "plan_append_with_c_safe", ""), ("C18_plan_remove", "plan_remove_c_safe", ""),
   ("C18_plan_clear", "plan_clear_c_safe", ""), ("C18_plan_iterate", "plan_tasks_c_safe", ""), ("C18_plan_remove_while_iterating", "plan_remove_at_c_safe", ""),
   ("C18_plan_first_last", "plan_first_last_c_safe", "first()/last() are in range on a non-empty plan (on an empty one they would read slot 255: an asserted precondition)"),
   ("C18_bitarray_get", "ba_get_c_safe", ""), ("C18_bitarray_set", "ba_set_c_safe", ""), ("C18_bitarray_clear", "ba_clear_c_safe", ""), ("C18_bitarray_set_all", "ba_set_all_c_safe", ""),
   ("C18_stream_write", "write_c_safe", ""), ("C18_stream_read", "read_c_safe", ""), ("C18_stream_cursor_no_wrap", "cursor_no_wrap", ""),
   ("C18_static_array_get", "sa_get_c_safe", ""), ("C18_static_array_set", "sa_set_c_safe", ""), ("C18_dynamic_array_emplace", "da_emplace_c_safe", ""), ("C18_dynamic_array_iterate", "da_to_list_c_safe", ""),
   ("C18_status_bits_of_actions", "perform_status_bits_safe", ""), ("C18_plan_task_ids_in_range", "plan_task_ids", ""),
   ("C18_erasure_example_emplace", "emplace_c_erase", "the checked twin computes what the model computes"),
   ("C18_erasure_example_plan_remove", "plan_remove_c_erase", ""),
 ]),
})

SPECS.update({
 "C19": ("C19 - Feature switches are orthogonal: the Coq part (non-interference of features a program does not use). with_log/with_plans/with_serial/with_history cfg x = the configuration with that switch set to x; with_features sets all four; strip forgets the logger and its records, strip_h forgets previousTransition(); a program 'does not use' plans when its callbacks issue no succeed/fail/plan action (no_plan_oracle) and its history has no plan operation (no_plan_op), and 'does not use' transition history when it calls neither replayEnter nor replayTransition. 'Every combination compiles' and 'the shipped header equals the amalgamation' are decided by enumeration and byte comparison in the check, not here. ", [
   ("C19_all_four_switches", "features_irrelevant", "for every history that uses none of the features and every two settings of (plans, serialization, history, log mode, logger): same returns, and the same run once logger records and previousTransition() are forgotten"),
   ("C19_all_four_switches_observable", "features_irrelevant_observable", "in particular: same callbacks/actions/results in the same order, same active state, request and plan"),
   ("C19_features_against_the_bare_machine", "features_transparent", ""),
   ("C19_serialization_is_inert", "serial_run", "the serialization switch changes nothing but the availability of save/load"),
   ("C19_serialization_observe", "serial_observe", ""),
   ("C19_history_is_write_only", "history_run_on_off", "transition history is write-only for programs that do not replay"),
   ("C19_history_returns", "history_run_rets_on_off", ""),
   ("C19_plans_idle", "plans_run", "with plans compiled in but unused the run is identical and the plan data stays as constructed"),
   ("C19_plans_from_any_idle_state", "plans_run_from_idle", ""),
   ("C19_logging_does_not_interfere", "log_transparent_gen", "for every history and every pair of log modes: forgetting the logger's records, the run with a logger equals the run without"),
   ("C19_log_mode_irrelevant_without_logger", "run_log_mode_irrelevant", "with no logger attached the compile-time log mode is unobservable"),
 ]),
})

SPECS.update({
 "C10": ("C10 - Plan capacity is exact, order-preserving and never leaks. Theorems only. Three layers. (1) TaskListT, the slot allocator with an intrusive free list: invariant FL t vac occ (vac = the vacant slots chained from the head, occ = the occupied slots with their contents); (2) the plan = doubly linked order over those slots (PlanInv d order; tasks_of d order = the plan as a list of tasks), with the C++ iterator that caches the next index; plan_refines_list: over operation lists of any length (append, append with payload, remove through an iterator at position k, clear) the model returns exactly what a bounded list returns; (3) the machine: in every reachable state the plan satisfies the invariant and, when empty, offers the whole capacity again. For every capacity 1..255. ", [
   ("C10_plan_refines_a_bounded_list", "plan_refines_list", "every history of plan edits, any length: returned values (append succeeded / refused, the tasks an iterating removal visited) and the plan as seen afterwards equal those of the obvious bounded list"),
   ("C10_invariant_over_histories", "plan_run_inv", ""),
   ("C10_append", "plan_append_spec", "append succeeds exactly when fewer than capacity tasks are present, adds at the end, leaves everything else alone; otherwise returns false and changes nothing"),
   ("C10_append_with_payload", "plan_append_with_spec", ""),
   ("C10_iteration_yields_the_tasks_in_order", "plan_tasks_spec", "the iterator with cached next yields precisely the tasks appended and not yet removed, in append order"),
   ("C10_first_last", "plan_first_last_spec", ""), ("C10_nonempty", "plan_nonempty_spec", ""),
   ("C10_remove_anywhere", "plan_remove_spec", "removing any task keeps the others, their contents and their order"),
   ("C10_remove_while_iterating", "plan_remove_at_spec", "removing through an iterator does not disturb the iteration over the rest: every task is still visited once, in order"),
   ("C10_clear", "plan_clear_spec", ""), ("C10_data_clear", "pd_clear_spec", ""),
   ("C10_capacity_restored", "capacity_restored", "no leak: from any state of the free list in which the plan is empty, capacity consecutive appends succeed and the next is refused"),
   ("C10_every_reachable_machine_state", "reachable_plan_capacity", "... and every state a machine reaches through any in-contract API history (consumption by firing, plan-outcome clearing, exits, load included) is such a state"),
   ("C10_tasklist_init", "init_FL", ""), ("C10_tasklist_full", "emplace_full", "the slot allocator: emplace on a full list reports INVALID and changes nothing"),
   ("C10_tasklist_emplace", "emplace_FL", "emplace with room returns a slot that was vacant, stores the task there, keeps every occupied slot"),
   ("C10_tasklist_remove", "remove_FL", ""), ("C10_tasklist_clear", "clear_FL", ""),
   ("C10_tasklist_every_history", "tl_run_FL", ""), ("C10_tasklist_no_leak", "emplace_all_spec", ""),
 ]),
})

# whole-history forms (Proofs/Histories.v): the per-call statements hold at every call of every in-contract history
SPECS["C01"][1].extend([
   ("C01_trace_only_grows", "trace_monotone", "what a prefix of a history produced stays in the trace: later calls only add events (so an enter() once delivered is never un-delivered and the pairing argument is over one growing trace)"),
])
SPECS["C02"][1].extend([
   ("C02_cut_any_history_anywhere", "at_every_call", "wherever an in-contract history from construction is cut, the state before the next call satisfies the invariant, is Ready when the machine is active, and the call is one step of the model - so every per-call statement of this file applies to every call of every history"),
   ("C02_every_external_request_of_every_history", "every_change_of_every_history", "every changeTo()/changeWith() made from outside, at any point of any history: active state, plan and previous transition are unchanged, the request is stored, at most one log record and no callback"),
   ("C02_every_immediate_change_of_every_history", "every_immediate_change_of_every_history", "every immediateChangeTo()/immediateChangeWith(), at any point of any history: at most SUBSTITUTION_LIMIT guard rounds, and the active state afterwards is the last survivor's destination, or unchanged when nothing survived"),
])
SPECS["C04"][1].extend([
   ("C04_every_immediate_change_of_every_history", "every_immediate_change_of_every_history", "at any point of any history an immediate change uses at most SUBSTITUTION_LIMIT guard rounds and ends with exactly one active state below n"),
   ("C04_every_cycle_of_every_history", "every_cycle_of_every_history", "likewise every update()/react() of every history ends with one active state below n and the invariant restored"),
])
SPECS["C05"][1].insert(-1, ("C05_every_cycle_of_every_history", "every_cycle_of_every_history", "every update()/react() at any point of any in-contract history: the six phase deliveries to the root and to the state active when the call began, in order, each recipient once; then the plan step; then request processing"))
SPECS["C05"][1].insert(-1, ("C05_every_query_of_every_history", "every_query_of_every_history", "every query() of every history: query(root), query(active), core unchanged"))

SPECS["C11"][1].extend([
   ("C11_replica_follows_every_history", "replica_follows_every_history", "over whole histories: the authority runs any in-contract history of enter/exit/update/react/changeTo/changeWith/immediateChange*/succeed/fail/plan edits/query under callbacks orc; the replica (arbitrary callbacks orc') is driven only by replayEnter(previous.destination or 0) after enter(), replayTransition(previous.destination) after each processing call whose previousTransition() is set, exit() after exit(). After every call the replica's active state equals the authority's, and everything appended to the replica's trace is enter/exit/reenter - no guard is consulted on it"),
   ("C11_replica_follows_from_any_agreeing_pair", "replica_follows_from", ""),
   ("C11_replica_follows_manual", "replica_follows_manual", "manual activation: both instances are constructed inactive, so the premise 'constructed in the same state' holds whatever the callbacks do"),
   ("C11_one_call_mirrored", "follow_step", "one call of the authority and its mirror on the replica"),
])
SPECS["C12"][1].extend([
   ("C12_between_any_two_histories", "load_roundtrip_between_histories", "over whole histories: whatever in-contract histories (and callbacks) the saver and the loader have behind them, load(save(saver)) into the loader leaves it with the saver's activity, by exactly the lifecycle change needed and enter/exit/reenter callbacks only"),
   ("C12_reachable_states_can_be_saved", "reachable_saver_ok", ""),
])

SPECS["C06"][1].insert(-1, ("C06_every_view_of_every_history", "every_view_of_every_history", "over whole histories: every callback delivered anywhere in any in-contract history sees stateId() = its own id (255 for the root) and an isActive() table that is the characteristic vector of a single id - consistent for every k at once"))

SPECS["C08"][1].insert(-1, ("C08_every_plan_step_of_every_history", "every_plan_step_of_every_history", "over whole histories: at the plan step of every update()/react() of every in-contract history the state active when the call began is still the active one, the plan satisfies its invariant and both report bit arrays are well formed - the hypotheses under which the statements of this file describe the step - and the call is: six phase deliveries; the plan step from that state; request processing"))
SPECS["C09"][1].insert(-1, ("C09_every_plan_step_of_every_history", "every_plan_step_of_every_history", "over whole histories: the hypotheses of the case statements above hold at the plan step of every update()/react() of every in-contract history"))
SPECS["C09"][1].insert(-1, ("C09_failure_delivered_in_every_history", "failure_delivered_in_every_history", "the converse over whole histories: in any cycle of any history in which a plan exists and the active state has a failure outstanding when the plan step runs, planFailed() is delivered in that cycle, no task fires and the plan is empty afterwards"))
SPECS["C18"][1].extend([
   ("C18_report_bits_well_formed_in_every_reachable_state", "reachable_status_bits", "over whole histories: in every state any in-contract history reaches, tasksSuccesses and tasksFailures hold exactly ceil(n/8) bytes (PIw, closed under every operation of the machine: PIw_ok)"),
   ("C18_report_bit_indices_in_range", "reachable_status_bits_in_range", "... so every succeed/fail/clear/plan-step access with a state id below n is inside both arrays"),
   ("C18_invariant_with_report_bits_is_closed", "PIw_ok", ""),
])

_TIE = ("the tie to the source, by proof: the static constants of BitArrayT<N> as tools/leafcode.py translates them from clang's typed AST of /repo's current bit_array.hpp / utility.hpp on every run "
        "(Generated/LeafCode.v; contain() included), evaluated in the interpreter of Model/Cxx.v (C++ integer semantics), are CAPACITY = N and UNIT_COUNT = ceil(N / 8) for every N up to 255 - "
        "the size the model gives the report-bit arrays and the serialized form's byte count rest on")
for _pid in ("C08", "C09", "C12"):
    SPECS[_pid][1].append(("%s_source_constants_are_the_model" % _pid, "src_BitArray_consts", _TIE))
    SPECS[_pid][1].append(("%s_source_contain_is_the_model" % _pid, "src_contain_u8", "contain(x, to) of utility.hpp, as translated from the current source, is ceil(x / to) for all one-byte operands (no wrap-around in the intermediate sum)"))

_TLT = ("the tie to the source, by proof (DESIGN.md 4.7): the body of TaskListT<void, N>::%s as tools/leafcode.py translates it from clang's typed AST of /repo's current task_list.inl on every run "
        "(the array of items as one array per field, prev/next sharing storage with origin/destination as the union in TaskBase says), run in the interpreter of Model/Cxx.v on any list satisfying the invariant FL - "
        "hence on every list any operation sequence reaches - stays inside the array and computes exactly the model's %s, for every capacity up to 255")
SPECS["C10"][1].extend([
   ("C10_source_emplace_is_the_model", "src_TaskList_emplace_FL", _TLT % ("emplace(origin, destination)", "emplace")),
   ("C10_source_remove_is_the_model", "src_TaskList_remove_FL", _TLT % ("remove(i)", "remove")),
   ("C10_source_clear_is_the_model", "src_TaskList_clear", "... and clear() resets exactly the four indices"),
   ("C10_source_every_history", "src_TaskList_every_history", "over whole histories: any in-contract sequence of emplace / remove / clear from a freshly constructed list, executed by running the translated member functions one after the other on the object (src_run; None would be a fault), never faults and yields, object for object, the model's run - to which the invariant (tl_run_FL) and the no-leak / exact-capacity theorem (emplace_all_spec) above apply"),
])

_PLT = ("the tie to the source, by proof (DESIGN.md 4.7): the body of PlanT<Args>::%s as tools/leafcode.py translates it from clang's typed AST of /repo's current plan_1.inl on every run - the member "
        "functions of the sub-objects it calls (TaskListT::emplace / remove / count, StaticArrayT::operator[], PlanT::linkTask) inlined at the call site, running in _planData.tasks / _planData.taskLinks, "
        "so the term is everything the call executes - run in the interpreter of Model/Cxx.v on any plan data satisfying the plan invariant PlanInv (which pd_init establishes and every plan operation "
        "preserves: plan_append_spec, plan_remove_spec above) stays inside tasks and taskLinks and computes exactly the model's %s, for every capacity up to 255")
SPECS["C10"][1].extend([
   ("C10_source_plan_append_is_the_model", "src_Plan_append_inv", _PLT % ("append(origin, destination)", "plan_append (capacity test, planExists, slot allocation, linking at the end of the plan order)")),
   ("C10_source_plan_change_is_the_model", "src_Plan_change_inv", "... and so does the public entry point plan.change(origin, destination), whose body `return append(origin, destination);` the translator inlines as well: the term is everything a call of change() executes"),
   ("C10_source_plan_remove_is_the_model", "src_Plan_remove_inv", _PLT % ("remove(index)", "plan_remove (unlinking from the plan order, clearing the link, returning the slot)")),
   ("C10_source_plan_emptiness_test_is_the_model", "src_Plan_nonempty_inv", "explicit operator bool() of PlanT, as translated from the current source: true exactly when the plan order is non-empty"),
   ("C10_source_plan_every_history", "src_Plan_every_history", "over whole histories: any in-contract sequence of append / remove-a-task-of-the-plan from a freshly constructed PlanDataT, executed by running the translated member functions one after the other on the object (src_prun; None would be a fault), never faults, returns what the model returns (the bool of every append) and leaves, object for object, the model's plan data - which satisfies PlanInv, so the capacity / order / no-leak statements of this file describe what the code in /repo does"),
])

_NF = ("index safety of the code itself (DESIGN.md 4.7): the interpreter of Model/Cxx.v returns a fault for an element access outside its array, a shift by a negative amount or by at least the width, "
       "a signed result outside its type and a division by zero; this theorem says the body of %s, as translated from clang's typed AST of /repo's current source on every run, returns a result - no fault - "
       "for every argument the library's own assertions admit (and computes the model's function)")
SPECS["C18"][1].extend([
   ("C18_source_write_never_faults", "src_write8", _NF % "BitWriteStreamT<>::write<W>(), W <= 8"),
   ("C18_source_write32_never_faults", "src_write32", _NF % "BitWriteStreamT<>::write<W>(), W <= 32 (the item is shifted at unsigned int and may wrap, which is defined)"),
   ("C18_source_read_never_faults", "src_read8", _NF % "BitReadStreamT<>::read<W>(), W <= 8"),
   ("C18_source_read32_never_faults", "src_read32", _NF % "BitReadStreamT<>::read<W>(), W <= 32"),
   ("C18_source_tasklist_emplace_never_faults", "src_TaskList_emplace_FL", _NF % "TaskListT<void, N>::emplace() on every list satisfying the free-list invariant"),
   ("C18_source_tasklist_remove_never_faults", "src_TaskList_remove_FL", _NF % "TaskListT<void, N>::remove() on every list satisfying the free-list invariant"),
   ("C18_source_plan_append_never_faults", "src_Plan_append_inv", _NF % "PlanT<>::append() (TaskListT::emplace and linkTask inlined) on every plan data satisfying the plan invariant"),
   ("C18_source_plan_remove_never_faults", "src_Plan_remove_inv", _NF % "PlanT<>::remove() (TaskListT::remove inlined) on every plan data satisfying the plan invariant"),
])

_EPS = "over whole histories: every update(), react(), immediateChangeTo() and immediateChangeWith() of every in-contract history processes requests exactly once, from a Ready state reached by callbacks that applied no transition - so every statement of this file made for process_request on a Ready state holds for every processing step of every history"
for _pid in ("C02", "C03", "C04", "C11"):
    SPECS[_pid][1].append(("%s_every_processing_step_of_every_history" % _pid, "every_processing_step_of_every_history", _EPS))
SPECS["C07"][1].insert(-1, ("C07_every_processing_step_of_every_history", "every_processing_step_of_every_history", _EPS))

SPECS["C01"][1].extend([
   ("C01_every_instance_of_every_accepted_script_has_the_invariant", "wrun_inv", "several instances (construction, destruction, copy construction, load from another instance's save(), API calls): if the extracted contract test first_violation accepts a script - the model runner evaluates it for every script of the correspondence check - then every live instance satisfies the machine invariant (with well-formed report bits) afterwards, copies and loaded instances included"),
   ("C01_every_call_of_every_accepted_script_is_in_the_domain", "every_call_of_every_script", "... and every API call the script makes is made on an instance with the invariant and is in_contract there: the per-call statements of C01..C12 and C16 apply to every call of every script the check runs"),
])
SPECS["C17"][1].extend([
   ("C17_copies_and_loaded_instances_keep_the_invariant", "wrun_inv", "in every in-contract multi-instance history every live instance - original, copy, copy of a copy, instance loaded from another - satisfies the machine invariant"),
   ("C17_one_operation_on_the_world", "wstep_inv", ""),
])

SPECS["C12"][1].append(("C12_every_load_between_instances_of_every_script", "every_load_between_instances", "several instances: j.save(buffer); i.load(buffer) at any point of any accepted multi-instance script (the instances may be copies, may have been loaded before, may have gone through any calls) leaves instance i with instance j's activity by exactly the lifecycle change needed, enter/exit/reenter callbacks only"))
SPECS["C17"][1].append(("C17_every_copy_equals_its_original", "every_copy_equals_its_original", "copy construction at any point of any accepted multi-instance script: the new instance's core is the original's (so active state, isActive table, outstanding request, previous transition, plan and serialized form are equal: observe), no callback ran on it, and the original is untouched"))

SPECS["C17"][1].extend([
   ("C17_fresh_serial_buffer_ignores_garbage", "fresh_buffer_ignores_garbage", "a default-constructed serial buffer is the all-zero image whatever the memory held (its byte array has an initialiser in the source read on this run)"),
   ("C17_every_member_is_initialised", "every_member_is_initialised", "catch-all over the facts regenerated on this run: no scalar member of any record a machine is made of lacks an initialiser"),
])

if __name__ == "__main__":
    which = sys.argv[1:] or sorted(SPECS)
    ok = True
    for pid in which:
        header, items = SPECS[pid]
        ok = write(pid, header, IMP_PLAN if pid in ("C10", "C18") else IMP, items) and ok
    sys.exit(0 if ok else 1)
