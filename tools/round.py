#!/usr/bin/env python3
"""Development aid: process a round of seeded changes written by sub-agents, several at a time.
  round.py <round> <out-root> <prop>/<mutK> ...
For each: a scratch worktree of /repo (never /repo itself); confirm the demo passes on the clean checkout, the patch applies,
the demo fails with it and the whole test suite still builds and passes; then run the property's own quick check and its
neighbours (NEIGH) against that worktree (VERIF_REPO), evidence redirected; store under /verif/seeded/<prop>-r<round>-<mutK>/
with meta.json. C17 regenerates coq/Generated/InitFacts.v, which every property file imports, so C17 runs are done one at a
time after everything else has finished."""
import sys, os, json, shutil, re, subprocess, tempfile, time, concurrent.futures
os.environ.setdefault("VERIF_EVIDENCE_DIR", "/var/tmp/verif-scratch-evidence"); os.makedirs(os.environ["VERIF_EVIDENCE_DIR"], exist_ok=True)
REPO = "/repo"; VERIF = os.path.dirname(os.path.dirname(os.path.abspath(__file__)))
NEIGH = {}      # only the check of the property the change was written against (neighbours were run in rounds 1-4, see the meta.json files)
def sh(cmd, cwd=None, timeout=3600, env=None):
    try:
        r = subprocess.run(cmd, shell=True, cwd=cwd, capture_output=True, text=True, timeout=timeout, env=env); return r.returncode, r.stdout + r.stderr
    except subprocess.TimeoutExpired: return -9, "timeout"
def run_check(pid, wt):
    env = dict(os.environ, VERIF_REPO=wt, VERIF_JOBS="6")
    rc, out = sh("./check %s --tier quick" % pid, cwd=VERIF, env=env)
    v = [l for l in out.splitlines() if l.startswith("VIOLATION")]; reason = ""
    if v:
        try: r = json.load(open(v[0].split("replay=")[1].split()[0])); reason = (r.get("kind", "") + ": " + r.get("reason", ""))[:300]
        except Exception: pass
    if v: return dict(result="divergence (no-failing-input-found)" if "no-failing-input-found" in v[0] else "failing-input", reason=reason)
    return dict(result="not seen", rc=rc)
def one(rnd, root, item):
    prop, mut = item.split("/"); d = os.path.join(root, prop, mut); name = "%s-r%s-%s" % (prop, rnd, mut)
    wt = tempfile.mkdtemp(prefix="seedwt.", dir="/var/tmp"); os.rmdir(wt); rec = dict(name=name, wt=wt)
    rc, out = sh("git -C %s worktree add -q --detach %s HEAD" % (REPO, wt)); assert rc == 0, out
    demo = os.path.join(d, "demo.cpp")
    rc, out = sh("g++ -std=c++11 -I%s/include %s -o %s/demo_clean && timeout 120 %s/demo_clean" % (wt, demo, wt, wt)); rec["demo_clean"] = rc
    rc, out = sh("git apply %s" % os.path.join(d, "patch.diff"), cwd=wt); rec["applies"] = rc == 0
    if rc != 0: rec["verify_ok"] = False; return rec
    rc, out = sh("g++ -std=c++11 -I%s/include %s -o %s/demo_mut && timeout 120 %s/demo_mut" % (wt, demo, wt, wt)); rec["demo_mut"] = rc
    rc, out = sh("cmake -S . -B _build -G Ninja >/dev/null && cmake --build _build 2>&1 | tail -5", cwd=wt, timeout=2400)
    rec["suite_ok"] = rc == 0 and "Status: SUCCESS" in out
    sh("rm -rf _build demo_clean demo_mut", cwd=wt)
    rec["verify_ok"] = rec["demo_clean"] == 0 and rec["demo_mut"] != 0 and rec["suite_ok"]
    if not rec["verify_ok"]: rec["suite_tail"] = out[-300:]; return rec
    ids = [prop] + NEIGH.get(prop, [])
    rec["caught"] = {pid: run_check(pid, wt) for pid in ids if pid != "C17"}
    rec["pending_c17"] = "C17" in ids
    return rec
def finish(rnd, root, rec):
    name = rec["name"]; prop = name.split("-")[0]; mut = name.split("-")[-1]; d = os.path.join(root, prop, mut); dst = os.path.join(VERIF, "seeded", name)
    if rec.get("verify_ok"):
        if rec.get("pending_c17"):
            rec["caught"]["C17"] = run_check("C17", rec["wt"])
        os.makedirs(dst, exist_ok=True)
        for f in ("patch.diff", "demo.cpp", "README.md"):
            if os.path.exists(os.path.join(d, f)): shutil.copy(os.path.join(d, f), os.path.join(dst, f))
        readme = open(os.path.join(d, "README.md")).read() if os.path.exists(os.path.join(d, "README.md")) else ""
        title = readme.strip().split("\n")[0].lstrip("# ").strip()
        m = re.search(r"(?is)(what (?:it|is) need[^\n]*\n.*?)(?:\n#|\Z)", readme)
        ids = list(rec["caught"])
        meta = dict(property=prop, round=int(rnd), title=title, needs_to_manifest=(m.group(1)[:1200] if m else "see README.md"),
                    confirmed=dict(how="tools/round.py: scratch worktree of /repo; demo on the clean checkout passes; patch applies; demo with the patch fails; cmake build + whole test suite with the patch passes",
                                   observed="demo_clean=%s demo_mut=%s suite_ok=%s" % (rec["demo_clean"], rec["demo_mut"], rec["suite_ok"])),
                    ran=["python3 tools/round.py %s <out> %s/%s  (quick checks %s against the patched worktree via VERIF_REPO)" % (rnd, prop, mut, " ".join(ids))],
                    caught_by=rec["caught"])
        json.dump(meta, open(os.path.join(dst, "meta.json"), "w"), indent=1)
    sh("git -C %s worktree remove --force %s" % (REPO, rec["wt"])); shutil.rmtree(rec["wt"], ignore_errors=True)
    out = dict(name=name, verify_ok=rec.get("verify_ok"), caught={p: c["result"] for p, c in rec.get("caught", {}).items()},
               own=rec.get("caught", {}).get(prop, {}).get("reason", "")[:220])
    if not rec.get("verify_ok"): out["detail"] = {k: rec.get(k) for k in ("demo_clean", "applies", "demo_mut", "suite_ok", "suite_tail")}
    print(json.dumps(out), flush=True)
def main():
    rnd, root, items = sys.argv[1], sys.argv[2], sys.argv[3:]
    with concurrent.futures.ThreadPoolExecutor(max_workers=int(os.environ.get("ROUND_PAR", "4"))) as ex:
        recs = list(ex.map(lambda it: one(rnd, root, it), items))
    for rec in recs: finish(rnd, root, rec)
    sh("python3 %s/tools/initfacts.py" % VERIF)
if __name__ == "__main__": main()
