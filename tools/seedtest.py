#!/usr/bin/env python3
"""Development aid (not a registered check): confirm a seeded breaking change and see which checks catch it.

  seedtest.py verify <dir>            dir has patch.diff + demo.cpp: in a scratch worktree of /repo confirm that with the patch the
                                      suite passes and the demo fails, and that without it the demo passes
  seedtest.py detect <dir> <id>...    apply the patch to /repo, run the quick checks named, undo the patch, report
  seedtest.py adopt  <dir> <name> <property> : copy into /verif/seeded/<name>/ with meta.json
"""
import sys, os, subprocess, json, shutil, tempfile, time
os.environ.setdefault("VERIF_EVIDENCE_DIR", "/var/tmp/verif-scratch-evidence"); os.makedirs(os.environ["VERIF_EVIDENCE_DIR"], exist_ok=True)   # never overwrite /verif/evidence from a run against a modified tree

REPO = "/repo"; VERIF = os.path.dirname(os.path.dirname(os.path.abspath(__file__)))

def sh(cmd, cwd=None, timeout=1800):
    r = subprocess.run(cmd, shell=True, cwd=cwd, capture_output=True, text=True, timeout=timeout)
    return r.returncode, r.stdout + r.stderr

def verify(d):
    patch = os.path.join(d, "patch.diff"); demo = os.path.join(d, "demo.cpp")
    wt = tempfile.mkdtemp(prefix="seedwt.", dir="/var/tmp"); os.rmdir(wt)
    res = dict(dir=d)
    try:
        rc, out = sh("git -C %s worktree add -q --detach %s HEAD" % (REPO, wt)); assert rc == 0, out
        rc, out = sh("g++ -std=c++11 -I%s/include %s -o %s/demo_clean && %s/demo_clean" % (wt, demo, wt, wt)); res["demo_clean"] = (rc, out[-300:])
        rc, out = sh("git apply %s" % patch, cwd=wt); res["applies"] = rc == 0
        if rc != 0: res["apply_error"] = out[-500:]; return res
        rc, out = sh("g++ -std=c++11 -I%s/include %s -o %s/demo_mut && %s/demo_mut" % (wt, demo, wt, wt)); res["demo_mut"] = (rc, out[-300:])
        rc, out = sh("cmake -S . -B _build -G Ninja >/dev/null && cmake --build _build 2>&1 | tail -5", cwd=wt, timeout=1200)
        res["suite_rc"] = rc; res["suite_tail"] = out[-400:]
        res["ok"] = res["demo_clean"][0] == 0 and res["demo_mut"][0] != 0 and rc == 0 and "Status: SUCCESS" in out
    finally:
        sh("git -C %s worktree remove --force %s" % (REPO, wt)); shutil.rmtree(wt, ignore_errors=True)
    return res

def detect(d, pids, tier="quick"):
    patch = os.path.join(d, "patch.diff")
    rc, out = sh("git -C %s status --porcelain --untracked-files=no" % REPO)
    assert out.strip() == "", "/repo has local changes: " + out
    res = {}
    rc, out = sh("git -C %s apply %s" % (REPO, patch)); assert rc == 0, out
    try:
        for pid in pids:
            t0 = time.time()
            rc, out = sh("./check %s --tier %s" % (pid, tier), cwd=VERIF, timeout=3600)
            v = [l for l in out.splitlines() if l.startswith("VIOLATION")]
            reason = ""
            if v:
                try:
                    path = v[0].split("replay=")[1].split()[0]; r = json.load(open(path)); reason = (r.get("kind", "") + ": " + r.get("reason", ""))[:300]
                except Exception: pass
            res[pid] = dict(rc=rc, violation=v[:1], reason=reason, wall=round(time.time() - t0, 1))
    finally:
        sh("git -C %s checkout -- ." % REPO)
        sh("python3 %s/tools/initfacts.py" % VERIF)
    return res

def adopt(d, name, prop, needs="", ran=""):
    dst = os.path.join(VERIF, "seeded", name); os.makedirs(dst, exist_ok=True)
    for f in ("patch.diff", "demo.cpp", "README.md"):
        if os.path.exists(os.path.join(d, f)): shutil.copy(os.path.join(d, f), os.path.join(dst, f))
    meta = dict(property=prop, needs=needs, ran=ran)
    json.dump(meta, open(os.path.join(dst, "meta.json"), "w"), indent=1)

if __name__ == "__main__":
    cmd = sys.argv[1]
    if cmd == "verify": print(json.dumps(verify(sys.argv[2]), indent=1))
    elif cmd == "detect": print(json.dumps(detect(sys.argv[2], sys.argv[3:]), indent=1))
    elif cmd == "adopt": adopt(*sys.argv[2:])
