#!/usr/bin/env python3
"""Development aid: run quick checks against stored seeded changes, each in its own scratch worktree of /repo (never /repo itself).
  wtcheck.py <seeded-name>:<pid>[,<pid>...] ...      e.g.  wtcheck.py C09-r6-mut2:C09,C20 C13-r6-mut1:C13
Evidence goes to a scratch directory; worktrees are removed afterwards."""
import sys, os, json, subprocess, tempfile, concurrent.futures
os.environ.setdefault("VERIF_EVIDENCE_DIR", "/var/tmp/verif-scratch-evidence"); os.makedirs(os.environ["VERIF_EVIDENCE_DIR"], exist_ok=True)
REPO = "/repo"; VERIF = os.path.dirname(os.path.dirname(os.path.abspath(__file__)))
def sh(cmd, cwd=None, env=None, timeout=3600):
    r = subprocess.run(cmd, shell=True, cwd=cwd, capture_output=True, text=True, timeout=timeout, env=env); return r.returncode, r.stdout + r.stderr
def one(item):
    name, pids = item.split(":"); d = os.path.join(VERIF, "seeded", name)
    wt = tempfile.mkdtemp(prefix="seedwt.", dir="/var/tmp"); os.rmdir(wt); out = {}
    try:
        rc, o = sh("git -C %s worktree add -q --detach %s HEAD" % (REPO, wt)); assert rc == 0, o
        rc, o = sh("git apply %s" % os.path.join(d, "patch.diff"), cwd=wt); assert rc == 0, o
        for pid in pids.split(","):
            env = dict(os.environ, VERIF_REPO=wt, VERIF_JOBS=os.environ.get("VERIF_JOBS", "6"))
            rc, o = sh("./check %s --tier %s" % (pid, os.environ.get("VERIF_TIER", "quick")), cwd=VERIF, env=env)
            v = [l for l in o.splitlines() if l.startswith("VIOLATION")]; reason = ""
            if v:
                try: r = json.load(open(v[0].split("replay=")[1].split()[0])); reason = (r.get("reason") or "")[:260]
                except Exception: pass
            out[pid] = ("no-failing-input-found: " if v and "no-failing-input-found" in v[0] else "failing-input: " if v else "NOT SEEN ") + reason.replace("\n", " ")
    finally:
        sh("git -C %s worktree remove --force %s" % (REPO, wt)); sh("git -C %s worktree prune" % REPO)
    return name, out
if __name__ == "__main__":
    with concurrent.futures.ThreadPoolExecutor(int(os.environ.get("WT_PAR", "4"))) as ex:
        for name, out in ex.map(one, sys.argv[1:]):
            for pid, r in out.items(): print("%s %s: %s" % (name, pid, r)); sys.stdout.flush()
