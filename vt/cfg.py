"""Machine configurations: one harness binary per configuration."""
import os
from . import common

DEFAULT = dict(n=3, head=1, manual=0, limit=4, cap=3, payload=0, ctx=0, inj_root=0, inj_state=0,
               plans=0, serial=0, history=0, log="off", defroot=0x3fff, defstate=0x3fff, xf=(), tapi=0, sdata=0, constcb=0, order=0, virt=0)

def make(**kw):
    c = dict(DEFAULT); c.update(kw)
    if c["inj_state"] >= 2: c["defstate"] = 0x3fff       # two or more injected bases: the state must define everything
    if c["inj_root"] >= 2: c["defroot"] = 0x3fff
    return c

def eff_cap(c):
    """cap = 0 means: no TaskCapacityN<> in the machine's configuration; the library then uses the number of states (TaskCapacityN<255> means the
    same thing - 255 is the library's marker for 'not configured' - so 255 is never used as a configured capacity)"""
    return c["cap"] if c["cap"] > 0 else c["n"]

def cfg_line(c):
    return ("cfg n=%d head=%d manual=%d limit=%d cap=%d payload=%d inj_root=%d inj_state=%d plans=%d serial=%d history=%d log=%s defroot=%x defstate=%x payloadkind=%d ctx=%d"
            % (c["n"], c["head"], c["manual"], c["limit"], eff_cap(c), 1 if c["payload"] else 0, c["inj_root"], c["inj_state"],
               c["plans"], c["serial"], c["history"], c["log"], c["defroot"], c["defstate"], c["payload"], c["ctx"]))

def flags(c):
    f = ["-DH_N=%d" % c["n"], "-DH_HEAD=%d" % c["head"], "-DH_MANUAL=%d" % c["manual"], "-DH_LIMIT=%d" % c["limit"],
         "-DH_CAP=%d" % c["cap"], "-DH_PAYLOAD=%d" % c["payload"], "-DH_CTX=%d" % c["ctx"],
         "-DH_INJ_ROOT=%d" % c["inj_root"], "-DH_INJ_STATE=%d" % c["inj_state"],
         "-DH_DEFROOT=0x%x" % c["defroot"], "-DH_DEFSTATE=0x%x" % c["defstate"]]
    if c["plans"]: f.append("-DFFSM2_ENABLE_PLANS")
    if c["serial"]: f.append("-DFFSM2_ENABLE_SERIALIZATION")
    if c["history"]: f.append("-DFFSM2_ENABLE_TRANSITION_HISTORY")
    if c["log"] == "on": f.append("-DFFSM2_ENABLE_LOG_INTERFACE")
    if c["log"] == "verbose": f.append("-DFFSM2_ENABLE_VERBOSE_DEBUG_LOG")
    f += ["-D" + x for x in c.get("xf", ())]
    if c.get("tapi"): f.append("-DH_TAPI=1")
    if c.get("sdata"): f.append("-DH_SDATA=1")
    if c.get("constcb"): f.append("-DH_CONSTCB=1")
    if c.get("order"): f.append("-DH_ORDER=1")
    if c.get("virt"): f.append("-DH_VIRT=1")
    return f

def name(c):
    return "n%d h%d m%d L%d C%s p%d x%d ir%d is%d P%dS%dH%d log=%s dr%x ds%x" % (
        c["n"], c["head"], c["manual"], c["limit"], str(c["cap"]) if c["cap"] > 0 else "default(%d)" % c["n"], c["payload"], c["ctx"], c["inj_root"], c["inj_state"],
        c["plans"], c["serial"], c["history"], c["log"], c["defroot"], c["defstate"]) + ("".join(" +" + x.replace("FFSM2_", "") for x in c.get("xf", ()))) + (" template-api" if c.get("tapi") else "") + (" state-data" if c.get("sdata") else "") + (" const-callbacks" if c.get("constcb") else "") + (" options-reversed" if c.get("order") else "") + (" virtual-injected-callbacks" if c.get("virt") else "")

def build(c, variant, extra_flags=(), cxx="g++", std="c++11", opt="-O0"):
    src = os.path.join(common.HARNESS, "machine_harness.cpp")
    return common.build_binary(src, flags(c) + list(extra_flags), variant, cxx=cxx, std=std, opt=opt)
