"""Paths, build cache, process helpers shared by every check."""
import hashlib, os, subprocess, sys, json, time, shutil, tempfile, concurrent.futures

VERIF = os.path.dirname(os.path.dirname(os.path.abspath(__file__)))
REPO = os.environ.get("VERIF_REPO", "/repo")
CACHE = os.path.join(VERIF, ".cache")
COQ = os.path.join(VERIF, "coq")
DRIVER = os.path.join(VERIF, "driver")
HARNESS = os.path.join(VERIF, "harness")
EVIDENCE = os.environ.get("VERIF_EVIDENCE_DIR") or os.path.join(VERIF, "evidence")   # development aids (seedtest, benign, mutate) redirect it
REPLAYS = os.path.join(VERIF, "replays")
CORPUS = os.path.join(VERIF, "corpus")
JOBS = int(os.environ.get("VERIF_JOBS", "16"))

VARIANTS = {
    "include": ["-I" + os.path.join(REPO, "include"), "-DH_HEADER=<ffsm2/machine.hpp>"],
    "development": ["-I" + os.path.join(REPO, "development"), "-DH_HEADER=<ffsm2/machine_dev.hpp>"],
}

_header_hash = {}
def headers_hash(variant):
    """sha256 over every file the variant's header can include, from the current working tree."""
    if variant in _header_hash:
        return _header_hash[variant]
    root = os.path.join(REPO, "include" if variant == "include" else "development")
    h = hashlib.sha256()
    for d, _, files in sorted(os.walk(root)):
        for f in sorted(files):
            p = os.path.join(d, f)
            h.update(p.encode()); h.update(b"\0")
            with open(p, "rb") as fh:
                h.update(fh.read())
    _header_hash[variant] = h.hexdigest()
    return _header_hash[variant]

def file_hash(path):
    with open(path, "rb") as fh:
        return hashlib.sha256(fh.read()).hexdigest()

def build_binary(source, flags, variant, cxx="g++", std="c++11", extra_key="", opt="-O0"):
    """Compile harness `source` with `flags` against the working tree's `variant` header.
    Returns (path or None, compiler output). Cached by content hash of headers+source+flags."""
    key = hashlib.sha256("\n".join([headers_hash(variant), file_hash(source), cxx, std, opt, " ".join(flags), variant, extra_key]).encode()).hexdigest()[:32]
    d = os.path.join(CACHE, key)
    out = os.path.join(d, "bin")
    log = os.path.join(d, "log")
    if os.path.exists(out):
        return out, ""
    if os.path.exists(log) and not os.path.exists(out):
        return None, open(log).read()
    os.makedirs(d, exist_ok=True)
    tmp = out + ".tmp.%d" % os.getpid()
    cmd = [cxx, "-std=" + std, opt, "-w", "-ftemplate-depth=2000"] + VARIANTS[variant] + flags + [source, "-o", tmp]
    r = subprocess.run(cmd, capture_output=True, text=True)
    if r.returncode != 0:
        with open(log, "w") as fh:
            fh.write(" ".join(cmd) + "\n" + r.stderr[-6000:])
        return None, " ".join(cmd) + "\n" + r.stderr[-6000:]
    os.replace(tmp, out)
    return out, ""

def run_proc(cmd, stdin_text, timeout=20):
    try:
        r = subprocess.run(cmd, input=stdin_text, capture_output=True, text=True, timeout=timeout)
        return r.returncode, r.stdout, r.stderr
    except subprocess.TimeoutExpired:
        return -9, "", "timeout"

def pmap(fn, items, jobs=None):
    jobs = jobs or JOBS
    if len(items) <= 1:
        return [fn(x) for x in items]
    with concurrent.futures.ThreadPoolExecutor(max_workers=jobs) as ex:
        return list(ex.map(fn, items))

def model_runner():
    p = os.path.join(DRIVER, "model_runner")
    if not os.path.exists(p):
        raise RuntimeError("model runner not built: run the setup command (make -C coq && driver/build.sh)")
    return p

def units_runner():
    p = os.path.join(DRIVER, "units_runner")
    if not os.path.exists(p):
        raise RuntimeError("units runner not built: run the setup command")
    return p
