"""Run a script on the implementation (C++ harness built from /repo's working tree) and on the
extracted Coq model, compare the two traces under a projection, shrink disagreements."""
import os, random, re, json, hashlib
from . import common, cfg as cfgmod, gen

def run_impl(binary, script, timeout=20, wrapper=()):
    rc, out, err = common.run_proc(list(wrapper) + [binary], script, timeout=timeout)
    return rc, out, err

def run_model(script, timeout=60):
    rc, out, err = common.run_proc([common.model_runner()], script, timeout=timeout)
    return rc, out, err

# ---- projections: a function from a trace line to a (possibly blanked) line or None ----
FIELD = re.compile(r" (\w+)=(\S*)")

def keep_fields(line, fields):
    head = line.split(" id=")[0] if line.startswith("cb ") else line.split(" active=")[0]
    kept = [" %s=%s" % (k, v) for k, v in FIELD.findall(line) if k in fields]
    return head + "".join(kept)

def project(trace, proj):
    out = []
    for l in trace.splitlines():
        p = proj(l)
        if p is not None:
            out.append(p)
    return out

def proj_all(l):
    return l

def first_diff(a, b):
    for i in range(min(len(a), len(b))):
        if a[i] != b[i]:
            return i
    return None if len(a) == len(b) else min(len(a), len(b))

class Outcome:
    def __init__(self, script, cfgname, variant):
        self.script = script; self.cfg = cfgname; self.variant = variant
        self.impl = None; self.model = None; self.kind = "agree"; self.detail = ""; self.index = None
        self.monitor_reason = None      # set when the property monitor rejects the implementation trace

def compare(binary, script, proj, wrapper=(), timeout=20):
    """Returns (kind, detail, impl_trace, model_trace, index) with kind in agree|diverge|impl-crash|model-error."""
    rc, out, err = run_impl(binary, script, timeout=timeout, wrapper=wrapper)
    mrc, mout, merr = run_model(script)
    if mrc != 0:
        return "model-error", merr[-400:], out, mout, None
    if rc != 0:
        return "impl-crash", "exit status %s: %s" % (rc, err[-1200:]), out, mout, None
    a = project(out, proj); b = project(mout, proj)
    i = first_diff(a, b)
    if i is None:
        return "agree", "", out, mout, None
    ia = a[i] if i < len(a) else "<end of trace>"
    ib = b[i] if i < len(b) else "<end of trace>"
    return "diverge", "projected line %d: implementation [%s] model [%s]" % (i, ia, ib), out, mout, i

def shrink(c, script, still_fails, budget=150):
    """Greedy line removal (operations first, then table entries) while `still_fails(script)` holds
    and the script stays in contract."""
    lines = script.strip().split("\n")
    head = [l for l in lines if l.startswith("cfg ")]
    body = [l for l in lines if not l.startswith("cfg ")]
    tries = 0
    changed = True
    while changed and tries < budget:
        changed = False
        # try dropping the tail first (cheap big win), then single lines from the end
        for chunk in (len(body) // 2, len(body) // 4, 1):
            if chunk < 1: continue
            i = len(body) - chunk
            while i >= 0 and tries < budget:
                cand = body[:i] + body[i + chunk:]
                if cand != body and gen.script_in_contract(c, cand):
                    tries += 1
                    if still_fails("\n".join(head + cand) + "\n"):
                        body = cand; changed = True
                        i = min(i, len(body)) - chunk
                        continue
                i -= chunk
    return "\n".join(head + body) + "\n"

def script_id(script):
    return hashlib.sha256(script.encode()).hexdigest()[:12]
