"""The generic check engine: proofs, correspondence, verdict, replays, evidence (DESIGN.md section 5)."""
import os, sys, json, time, random, collections, hashlib, glob, re, threading
from . import common, cfg as cfgmod, gen, corr, trace as T, monitors, proofs, units

TRUSTED_BASE = [
    "Coq 8.16.1 kernel (coqc, full .vo builds; vm_compute in Examples and finite sweeps; no native_compute)",
    "axioms: none - every property theorem prints 'Closed under the global context'",
    "extraction: Require Extraction + ExtrOcamlBasic only (Extract Inductive bool/option/unit/list/prod/sumbool/sumor; Extract Inlined Constant andb/orb); nat, positive, N stay Coq inductives; OCaml 4.13.1",
    "correspondence machinery: driver/main.ml, driver/units.ml (parsing, printing), harness/*.cpp, vt/*.py, g++ 12 / clang++ 14",
    "hand-written model of the C++ (coq/Model/*.v), tied to /repo's working tree by the correspondence run of this check",
    "leaf layer (bitWidth, contain, BitArrayT, StreamBufferT, write<W>/read<W>, TaskListT, StaticArrayT<uint8_t>, PlanT append/remove/linkTask/operator bool; checks C08, C09, C10, C12, C13, C18, C20): additionally tied by proof - tools/leafcode.py transcribes clang 14's typed AST "
    "of the tree under test into coq/Generated/LeafCode.v, coq/Model/Cxx.v fixes the C++ integer semantics of that language, coq/Proofs/Leaf*.v prove the translated bodies equal to the model; "
    "trusted there: clang's AST, the transcription, Cxx.v's reading of C++, and that a body instantiated at one template argument with the parameter kept symbolic is the body for every argument of the same index/item type; for StaticArrayT / PlanT also the translator's substitution of accessors and inlining of callee bodies (tail-position returns only), "
    "and that PlanDataT's TaskListT and StaticArrayT<TaskLink> share the capacity Args::TASK_CAPACITY (the constants environment pl_consts of the theorems)",
    "generated facts (C17): tools/initfacts.py over clang's JSON AST",
]

class Run:
    def __init__(self, pid, tier, seed):
        self.pid = pid; self.tier = tier; self.seed = seed; self.t0 = time.time()
        self.rng = random.Random((seed * 1000003) ^ int(hashlib.sha256(pid.encode()).hexdigest()[:8], 16))
        self.evaluations = 0; self.distinct = set(); self.samples = []; self.dist = collections.Counter()
        self.violations = []       # concrete: dict(reason, script, cfg, variant, impl, model)
        self.divergences = []      # correspondence / build breaks without a rejected implementation trace
        self.configs = []; self.traces_validated = 0; self.notes = []; self.proof = None; self.extra = {}
        self.lock = threading.Lock()
    def elapsed(self): return time.time() - self.t0

def load_known():
    known = []
    p = os.path.join(common.VERIF, "KNOWN_FINDINGS.txt")
    if os.path.exists(p):
        for l in open(p):
            m = re.match(r"known:\s+property=(\S+)\s+signature=(\S+)\s+(.*)", l.strip())
            if m: known.append((m.group(1), re.compile(m.group(2)), m.group(3)))
    return known

def write_replay(run, kind, body):
    os.makedirs(common.REPLAYS, exist_ok=True)
    h = hashlib.sha256(json.dumps(body, sort_keys=True).encode()).hexdigest()[:10]
    path = os.path.join(common.REPLAYS, "%s-%s.json" % (run.pid, h))
    body = dict(body); body["property"] = run.pid; body["kind"] = kind; body["tier"] = run.tier; body["seed"] = run.seed
    with open(path, "w") as fh: json.dump(body, fh, indent=1)
    return path

def finish(run, level, level_text, rule, explanation=""):
    """Verdict + evidence. Returns the process exit status."""
    known = load_known()
    status = 0; lines = []
    proof = run.proof or dict(ok=True, obligations=0, discharged=0, theorems=[], detail="", checker_cmd="", axioms={})
    concrete = []; known_hits = []
    for v in run.violations:
        k = next((d for (pid, sig, d) in known if pid == run.pid and sig.search(v["reason"])), None)
        if k: known_hits.append((k, v))
        else: concrete.append(v)
    for k, v in known_hits[:1]:
        lines.append("KNOWN-FINDING: property=%s %s" % (run.pid, k))
    if concrete:
        v = concrete[0]
        path = write_replay(run, "failing-input", v)
        lines.append("VIOLATION property=%s replay=%s" % (run.pid, path)); status = 1
    elif not proof["ok"] or run.divergences:
        body = dict(reason="", proof=proof.get("detail", ""), theorems=proof.get("theorems", []))
        if not proof["ok"]:
            body["reason"] = "proof obligation no longer checks: " + proof.get("detail", "")[:3000]
            body["broken"] = "theorems of coq/Properties/Properties_%s.v" % run.pid
        if run.divergences:
            d = run.divergences[0]
            body.update(d); body["broken"] = body.get("broken", "") + " correspondence between coq/Model and the implementation (%s)" % d.get("what", "trace comparison")
            if not body["reason"]: body["reason"] = d.get("reason", "")
        path = write_replay(run, "no-failing-input-found", body)
        lines.append("VIOLATION property=%s replay=%s no-failing-input-found" % (run.pid, path)); status = 1
    ev = dict(property_id=run.pid, tier=run.tier, seed=run.seed, level=level,
              coverage=dict(
                  obligations=proof.get("obligations", 0), discharged=proof.get("discharged", 0),
                  checker_cmd=proof.get("checker_cmd", ""), trusted_base=TRUSTED_BASE,
                  theorems=proof.get("theorems", []), axioms=proof.get("axioms", {}), coqchk=proof.get("coqchk"),
                  evaluations=run.evaluations, distinct_nontrivial=len(run.distinct), rule=rule,
                  samples=run.samples[:3], traces_validated_against_impl=run.traces_validated,
                  configurations=run.configs[:40], configurations_count=len(run.configs),
                  input_distribution=dict(run.dist.most_common(60)), header_variants=["include", "development"],
                  explanation=explanation or level_text, notes=run.notes[:20], **run.extra),
              assumptions=["the hand-written model is the code: checked on this run's scripts only, not proved",
                           "callbacks do not re-enter the machine's API; ids in range (in-contract histories)"],
              wall_s=round(run.elapsed(), 2), violations=len(concrete) + (1 if status and not concrete else 0))
    os.makedirs(common.EVIDENCE, exist_ok=True)
    with open(os.path.join(common.EVIDENCE, "%s.json" % run.pid), "w") as fh: json.dump(ev, fh, indent=1)
    for l in lines: print(l)
    print("%s %s: %s  proofs %d/%d  scripts %d (distinct non-trivial %d)  %.1fs" % (
        run.pid, run.tier, "OK" if status == 0 else "FAILED", proof.get("discharged", 0), proof.get("obligations", 0),
        run.evaluations, len(run.distinct), run.elapsed()))
    return status

# ------------------------------------------------------------------------------------------------
class MachineSpec:
    def __init__(self, pid, proj, profile, cfgs, count, interesting, variants=("include", "development"),
                 monitor_ids=None, wrapper=(), extra_flags=(), cxx="g++", opt="-O0", extra=None, odd=True):
        self.pid = pid; self.proj = proj; self.profile = profile; self.cfgs = cfgs; self.count = count
        self.interesting = interesting; self.variants = variants; self.monitor_ids = monitor_ids or [pid]
        self.wrapper = wrapper; self.extra_flags = extra_flags; self.cxx = cxx; self.opt = opt
        self.extra = extra          # optional: tier -> [(cfg, script, source)]: enumerated scripts on top of the generated ones
        self.odd = odd              # also run the profile on the pool of out-of-the-way configurations (cfgs_odd)

def cfgs_odd(tier):
    FULL = 0x3fff
    out = [cfgmod.make(n=1, head=0, manual=1, limit=1, cap=1, payload=1, ctx=2, plans=1, serial=1, history=1, log="on"),
           cfgmod.make(n=2, head=1, manual=0, limit=8, cap=0, payload=0, ctx=0, plans=1, serial=0, history=0, log="off", inj_state=3, order=1, virt=1),
           cfgmod.make(n=65, head=0, manual=1, limit=2, cap=2, payload=5, ctx=0, plans=1, serial=1, history=1, log="verbose"),
           cfgmod.make(n=129, head=1, manual=0, limit=2, cap=3, payload=0, ctx=1, plans=0, serial=1, history=1, log="off"),
           cfgmod.make(n=3, head=1, manual=0, limit=2, cap=2, payload=0, ctx=3, plans=1, serial=0, history=0, log="on", constcb=1, defroot=0x3555, defstate=0x0aaa),
           cfgmod.make(n=4, head=1, manual=1, limit=3, cap=6, payload=0, ctx=0, plans=1, serial=0, history=1, log="off", inj_root=2, order=1),
           cfgmod.make(n=9, head=0, manual=0, limit=1, cap=1, payload=3, ctx=0, plans=1, serial=1, history=0, log="on", tapi=1),
           cfgmod.make(n=2, head=1, manual=1, limit=4, cap=2, payload=4, ctx=0, plans=0, serial=1, history=1, log="verbose", inj_state=1, inj_root=1, defstate=0)]
    if tier != "quick":
        out += [cfgmod.make(n=255, head=1, manual=1, limit=2, cap=0, payload=2, ctx=0, plans=1, serial=1, history=1, log="off"),
                cfgmod.make(n=17, head=0, manual=0, limit=255, cap=254, payload=0, ctx=0, plans=1, serial=0, history=1, log="off")]
    return out

def cfg_from_line(line):
    kv = dict(t.split("=") for t in line.split()[1:])
    return cfgmod.make(n=int(kv["n"]), head=int(kv["head"]), manual=int(kv["manual"]), limit=int(kv["limit"]), cap=int(kv["cap"]),
                       payload=int(kv.get("payloadkind", 2 if kv["payload"] != "0" else 0)), ctx=int(kv.get("ctx", 0)),
                       inj_root=int(kv["inj_root"]), inj_state=int(kv["inj_state"]), plans=int(kv["plans"]), serial=int(kv["serial"]),
                       history=int(kv["history"]), log=kv["log"], defroot=int(kv["defroot"], 16), defstate=int(kv["defstate"], 16))

def corpus_scripts(pid):
    out = []
    for p in sorted(glob.glob(os.path.join(common.CORPUS, pid, "*.script"))) + sorted(glob.glob(os.path.join(common.CORPUS, "all", "*.script"))):
        out.append((p, open(p).read()))
    return out

def analyse(run, spec, c, bins, script, source):
    """Runs one script on the model and on every header variant; records what it finds."""
    mrc, mout, merr = corr.run_model(script)
    res = []
    if mrc != 0:
        run.divergences.append(dict(what="model runner failed", reason=merr[-500:], script=script, cfg=cfgmod.name(c)))
        return
    if "contract:" in merr:
        # the extracted contract check (Proofs/Contract.v) says this script is outside the domain the theorems quantify over: a generator bug, not a finding
        with run.lock:
            run.dist["skipped:out-of-contract"] += 1
            if len(run.notes) < 5: run.notes.append("script skipped, %s: %s" % (merr.strip()[:120], script.strip().split("\n")[-3:]))
        return
    mproj = T.project(mout, spec.proj)
    found_v = []; found_d = []; validated = 0
    for variant, b in bins.items():
        rc, out, err = corr.run_impl(b, script, wrapper=spec.wrapper, timeout=10 if run.tier == "quick" else 30)
        validated += 1
        if rc != 0:
            what = "the call does not return: callbacks keep coming (runaway guard of the harness)" if rc == 97 else "memcheck: the run depends on a value that was never written" if rc == 96 else "timeout" if rc == -9 else "exit status %s" % rc
            found_v.append(dict(reason="implementation run failed (%s): %s" % (what, err[-1500:]), script=script,
                                cfg=cfgmod.name(c), variant=variant, source=source, impl=out[-3000:], model=mout[-3000:]))
            continue
        rej = None
        for mid in spec.monitor_ids:
            rej = monitors.run_monitors(mid, out, c)
            if rej: break
        if rej and re.sub(r" cnts=\S*", "", out) == mout:
            # the implementation's trace is, event for event, the model's trace, and the model is proved to satisfy the property: the monitor
            # (unverified Python) is what is wrong here, not the code. Recorded, not reported.
            with run.lock:
                run.dist["monitor-overruled-by-theorem"] += 1
                if len(run.notes) < 8: run.notes.append("monitor %s rejected a trace identical to the model's (monitor defect): %s" % (spec.monitor_ids, rej[1][:200]))
            rej = None
        if rej:
            found_v.append(dict(reason="property monitor rejects the implementation's trace: " + rej[1], script=script,
                                cfg=cfgmod.name(c), variant=variant, source=source, index=rej[0], monitor=True))
            continue
        iproj = T.project(out, spec.proj)
        i = corr.first_diff(iproj, mproj)
        if i is not None:
            a = iproj[i] if i < len(iproj) else "<end of trace>"; b_ = mproj[i] if i < len(mproj) else "<end of trace>"
            found_d.append(dict(what="trace comparison under the %s projection" % spec.pid,
                                reason="projected line %d: implementation [%s] model [%s]" % (i, a, b_),
                                script=script, cfg=cfgmod.name(c), variant=variant, source=source))
    key = hashlib.sha256("\n".join(mproj).encode()).hexdigest()
    lines = T.parse(mout)
    local = collections.Counter()
    for l in lines:
        if l.kind == "api" and l.phase == "begin": local["op:" + l.op] += 1
        elif l.kind == "did": local["did:" + l.act[0] + ":" + l.res.split("[")[0]] += 1
        elif l.kind == "cb": local["cb:" + l.meth] += 1
    inter = spec.interesting(lines, c)
    with run.lock:
        run.violations += found_v; run.divergences += found_d; run.traces_validated += validated
        run.dist.update(local)
        if inter:
            run.distinct.add(key)
            if len(run.samples) < 3: run.samples.append(dict(cfg=cfgmod.name(c), script=script.strip().split("\n")[:40]))

def shrink_violation(run, spec, v, cfgs_by_name, bins_by_name):
    c = cfgs_by_name.get(v["cfg"]); bins = bins_by_name.get(v["cfg"])
    if not c or not bins or v.get("variant") not in bins: return v
    b = bins[v["variant"]]
    def fails(script):
        rc, out, err = corr.run_impl(b, script, wrapper=spec.wrapper, timeout=10 if run.tier == "quick" else 30)
        if v.get("monitor"):
            return rc == 0 and any(monitors.run_monitors(mid, out, c) for mid in spec.monitor_ids)
        if rc != 0: return "implementation run failed" in v["reason"]
        mrc, mout, _ = corr.run_model(script)
        return mrc == 0 and corr.first_diff(T.project(out, spec.proj), T.project(mout, spec.proj)) is not None
    try:
        small = corr.shrink(c, v["script"], fails, budget=120)
    except Exception:
        return v
    v = dict(v); v["script"] = small
    rc, out, err = corr.run_impl(b, small, wrapper=spec.wrapper, timeout=30)
    mrc, mout, _ = corr.run_model(small)
    v["impl"] = out[-6000:]; v["model"] = mout[-6000:]
    if v.get("monitor"):
        for mid in spec.monitor_ids:
            r = monitors.run_monitors(mid, out, c)
            if r: v["reason"] = "property monitor rejects the implementation's trace: " + r[1]; break
    v["replay_hint"] = "feed 'script' to the harness built for 'cfg' (vt/cfg.py flags) and to driver/model_runner"
    return v

def run_machine(run, spec):
    tier = run.tier; rng = run.rng
    # configurations depend on (property, tier) only, so that the set-up command can pre-build them; scripts depend on the seed
    cfgs = spec.cfgs(tier, random.Random(int(hashlib.sha256((spec.pid + tier).encode()).hexdigest()[:8], 16)))
    # every other small configuration is also built against the template overloads of the API (changeTo<T>(), isActive<T>(), plan.change<A, B>(), ...)
    cfgs = cfgs + [dict(c, tapi=1) for k, c in enumerate(cfgs) if c["n"] <= 5 and (k % 2 == 0 or (c["plans"] and c["payload"]))]
    # ... and every check also runs its profile, with fewer scripts, on a fixed pool of out-of-the-way configurations (smallest and large machines, default
    # and above-state-count capacities, every context kind, three injected bases, const and partly defined callbacks, reversed option order, every payload kind):
    # a change that matters only in such a corner is then seen by the check of whichever property it breaks
    odd = cfgs_odd(tier) if (spec.odd and not spec.extra_flags and spec.cxx == "g++") else []
    odd = [c for c in odd if cfgmod.name(c) not in [cfgmod.name(x) for x in cfgs]]
    extra = spec.extra(tier) if spec.extra else []
    cfgs = cfgs + [c for c in {cfgmod.name(e[0]): e[0] for e in extra}.values() if cfgmod.name(c) not in [cfgmod.name(x) for x in cfgs]]
    corpus = corpus_scripts(spec.pid)
    corpus_cfgs = []
    for path, s in corpus:
        try: corpus_cfgs.append(cfg_from_line(s.split("\n")[0]))
        except Exception as e: run.notes.append("corpus script %s unreadable: %r" % (path, e))
    all_cfgs = []
    for c in cfgs + odd + corpus_cfgs:
        if cfgmod.name(c) not in [cfgmod.name(x) for x in all_cfgs]: all_cfgs.append(c)
    jobs = [(c, v) for c in all_cfgs for v in spec.variants]
    built = common.pmap(lambda cv: cfgmod.build(cv[0], cv[1], extra_flags=spec.extra_flags, cxx=spec.cxx, opt=spec.opt), jobs)
    bins_by_name = {}; cfgs_by_name = {}
    for (c, v), (b, log) in zip(jobs, built):
        cfgs_by_name[cfgmod.name(c)] = c
        if b is None:
            run.divergences.append(dict(what="the harness does not compile against the working tree (%s header)" % v,
                                        reason=log[-3000:], cfg=cfgmod.name(c), variant=v))
        else:
            bins_by_name.setdefault(cfgmod.name(c), {})[v] = b
    run.configs = [cfgmod.name(c) for c in all_cfgs]
    if os.environ.get("VERIF_WARM"): return          # set-up: building the binaries (cached by content hash) is all that is wanted
    work = []
    for (path, s), c in zip(corpus, corpus_cfgs):
        work.append((c, s, "corpus:" + os.path.basename(path)))
    for (c, sc, src) in extra: work.append((c, sc, src))
    per = spec.count(tier)
    extra_names = set(cfgmod.name(e[0]) for e in extra)
    for c in cfgs:
        if cfgmod.name(c) in extra_names and cfgmod.name(c) not in [cfgmod.name(x) for x in spec.cfgs(tier, random.Random(1))]: continue
        for k in range(per):
            work.append((c, gen.gen_script(rng, c, spec.profile(c) if callable(spec.profile) else spec.profile), "generated"))
    for c in odd:
        for k in range(max(6, per // 6)):
            work.append((c, gen.gen_script(rng, c, spec.profile(c) if callable(spec.profile) else spec.profile), "generated:odd-configuration"))
    run.evaluations += len(work)
    def one(w):
        c, s, src = w
        bins = bins_by_name.get(cfgmod.name(c))
        if not bins: return
        if len(run.violations) > 40: return          # enough failing histories to report; do not spend the budget on a broken build
        analyse(run, spec, c, bins, s, src)
    common.pmap(one, work)
    if run.violations:
        run.violations.sort(key=lambda v: (0 if v.get("source", "").startswith("corpus") else 1, len(v["script"])))
        run.violations[0] = shrink_violation(run, spec, run.violations[0], cfgs_by_name, bins_by_name)
    elif run.divergences:
        run.divergences.sort(key=lambda v: len(v.get("script", "")) or 10**9)
        d = run.divergences[0]
        if d.get("script"):
            run.divergences[0] = shrink_violation(run, spec, d, cfgs_by_name, bins_by_name)
