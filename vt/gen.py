"""Script generation for the machine-level correspondence check.

A script is a cfg line, a callback table and a list of operations (DESIGN.md appendix A). Everything
random comes from one random.Random seeded by the caller, so a (profile, seed, index) triple
reproduces a script exactly; the script text itself is the replay.

Scripts are in contract by construction: operations are generated against a tracker of which
instances exist and are active, ids are below the state count, features are used only where the
configuration has them."""
import random
from . import cfg as cfgmod

GUARDS = ["entryGuard", "exitGuard"]
PHASES = ["preUpdate", "update", "postUpdate", "preReact", "react", "postReact"]
LIFE = ["enter", "reenter", "exit"]
PLANCB = ["planSucceeded", "planFailed"]

class Profile:
    """Weights for what the generator emits; one instance per property profile."""
    def __init__(self, **kw):
        self.n_ops = (8, 30)
        self.n_tab = (0, 8)
        self.w_ops = dict(update=10, react=4, query=2, change=5, immChange=5, changeWith=0, immChangeWith=0,
                          succeed=0, fail=0, plan_append=0, plan_appendWith=0, plan_clear=0, plan_removeAt=0,
                          loadfrom=0, replayTransition=0, replayEnter=0, attachLogger=0,
                          exit_enter=2, copy=0, destroy_construct=1, second_instance=0)
        self.w_meth = dict(guard=4, phase=3, life=1, plancb=0, query=0)
        self.w_act = dict(change=6, changeWith=0, cancel=4, succeed=0, fail=0, plan_append=0, plan_appendWith=0,
                          plan_clear=0, plan_removeAt=0)
        self.p_cond = 0.6
        self.p_same_dest = 0.15          # request the state that is (probably) active
        self.fills = ["00", "ff", "a5", "5a"]
        self.p_logger_at_construct = 0.5
        self.p_pair = 0.3                # correlated table entries: two recipients of the same phase of the same call both act
        self.__dict__.update(kw)
    def with_(self, **kw):
        p = Profile(**self.__dict__)
        for k, v in kw.items():
            if isinstance(v, dict) and isinstance(getattr(p, k, None), dict):
                d = dict(getattr(p, k)); d.update(v); setattr(p, k, d)
            else:
                setattr(p, k, v)
        return p

def wchoice(rng, weights):
    items = [(k, w) for k, w in weights.items() if w > 0]
    tot = sum(w for _, w in items)
    x = rng.uniform(0, tot)
    for k, w in items:
        x -= w
        if x <= 0:
            return k
    return items[-1][0]

def gen_action(rng, c, prof, kind):
    """kind: guard | full | plan | const"""
    n = c["n"]
    w = dict(prof.w_act)
    if not c["payload"]:
        w["changeWith"] = 0; w["plan_appendWith"] = 0
    if not c["plans"]:
        for k in ("succeed", "fail", "plan_append", "plan_appendWith", "plan_clear", "plan_removeAt"): w[k] = 0
    if kind == "plan":
        for k in ("change", "changeWith", "cancel", "succeed", "fail"): w[k] = w[k] * 0.1   # mostly ignored there: keep a few
    if kind != "guard":
        w["cancel"] = w["cancel"] * (0.05 if kind != "const" else 0.2)
    if sum(w.values()) <= 0:
        w["change"] = 1
    a = wchoice(rng, w)
    d = rng.randrange(n)
    if a == "change": return "change %d" % d
    if a == "changeWith": return "changeWith %d %d" % (d, rng.choice([0, 1, 127, 128, 255, rng.randrange(256)]))
    if a == "cancel": return "cancel"
    if a in ("succeed", "fail"):
        return "%s %s" % (a, "self" if rng.random() < 0.7 else str(rng.randrange(n)))
    if a == "plan_append": return "plan.append %d %d" % (rng.randrange(n), d)
    if a == "plan_appendWith": return "plan.appendWith %d %d %d" % (rng.randrange(n), d, rng.randrange(256))
    if a == "plan_clear": return "plan.clear"
    if a == "plan_removeAt": return "plan.removeAt %d" % rng.randrange(max(1, cfgmod.eff_cap(c) + 1))
    raise AssertionError(a)

def gen_tab(rng, c, prof, insts=("*",)):
    n = c["n"]
    wm = dict(prof.w_meth)
    if not c["plans"]: wm["plancb"] = 0
    mk = wchoice(rng, wm)
    if mk == "guard": meth = rng.choice(GUARDS); kind = "guard"
    elif mk == "phase": meth = rng.choice(PHASES); kind = "full"
    elif mk == "life": meth = rng.choice(LIFE); kind = "plan"
    elif mk == "plancb": meth = rng.choice(PLANCB); kind = "full"
    else: meth = "query"; kind = "const"
    if meth in PLANCB:
        who = "R"
    else:
        r = rng.random()
        if r < 0.55: who = "S%d" % rng.randrange(n)
        elif r < 0.7: who = "S*"
        elif r < 0.85 and c["head"]: who = "R"
        else: who = "*"
    rec = "own"
    k_inj = c["inj_root"] if who == "R" else c["inj_state"]
    if k_inj and meth not in PLANCB and rng.random() < 0.5:
        rec = rng.choice(["*"] + ["I%d" % i for i in range(k_inj)])
    conds = []
    if rng.random() < prof.p_cond:
        r = rng.random()
        if r < 0.35: conds.append("occ=%d" % rng.randrange(4))
        elif r < 0.55:
            m = rng.choice([2, 3]); conds.append("mod=%d,%d" % (m, rng.randrange(m)))
        elif r < 0.75 and kind == "guard": conds.append("pend=%d" % rng.randrange(n))
        elif r < 0.85 and kind != "const": conds.append("cur=%d" % rng.randrange(n))
        else: conds.append("active=%d" % rng.randrange(n))
    nacts = 1 if rng.random() < 0.7 else 2
    acts = [gen_action(rng, c, prof, kind) for _ in range(nacts)]
    return "tab %s %s %s %s %s : %s" % (rng.choice(list(insts)), who, rec, meth, " ".join(conds), " ; ".join(acts))

class Tracker:
    """Which instances exist / are active, to keep generated and shrunk scripts in contract."""
    def __init__(self, c):
        self.c = c; self.exists = [False] * 4; self.on = [False] * 4
    def ok(self, toks):
        c = self.c; op = toks[0]; i = int(toks[1])
        if c["ctx"] == 3 and (i != 0 or op in ("copy", "loadfrom")): return False      # no context object: the harness cannot tell instances apart, so there is only instance 0
        if op == "construct": return not self.exists[i]
        if op == "copy":
            # a reference/pointer context is shared with the original, so the harness could not tell the two apart
            j = int(toks[2]); return c["ctx"] == 0 and (not self.exists[i]) and self.exists[j] and i != j
        if not self.exists[i]: return False
        if op == "destroy": return True
        if op == "enter": return c["manual"] and not self.on[i]
        if op == "replayEnter": return c["manual"] and c["history"] and not self.on[i]
        if op == "exit": return c["manual"] and self.on[i]
        if op == "loadfrom":
            j = int(toks[2])
            return c["serial"] and self.exists[j] and (c["manual"] or (self.on[i] and self.on[j]))
        if op == "attachLogger": return c["log"] != "off"
        if op in ("changeWith", "immChangeWith") and not c["payload"]: return False
        if op in ("succeed", "fail") and not c["plans"]: return False
        if op.startswith("plan.") and not c["plans"]: return False
        if op == "plan.appendWith" and not c["payload"]: return False
        if op == "replayTransition" and not c["history"]: return False
        return self.on[i]
    def apply(self, toks):
        c = self.c; op = toks[0]; i = int(toks[1])
        if op == "construct": self.exists[i] = True; self.on[i] = not c["manual"]
        elif op == "copy": j = int(toks[2]); self.exists[i] = True; self.on[i] = self.on[j]
        elif op == "destroy": self.exists[i] = False; self.on[i] = False
        elif op in ("enter", "replayEnter"): self.on[i] = True
        elif op == "exit": self.on[i] = False
        elif op == "loadfrom":
            j = int(toks[2])
            if c["manual"]: self.on[i] = self.on[j]

def script_in_contract(c, lines):
    t = Tracker(c)
    for l in lines:
        if l.startswith("op "):
            toks = l.split()[1:]
            if not t.ok(toks): return False
            t.apply(toks)
    return True

def gen_ops(rng, c, prof):
    n = c["n"]; t = Tracker(c); ops = []
    def emit(s):
        toks = s.split()
        if t.ok(toks):
            t.apply(toks); ops.append("op " + s); return True
        return False
    def construct(i):
        lg = 1 if (c["log"] != "off" and rng.random() < prof.p_logger_at_construct) else 0
        emit("construct %d %d %s" % (i, lg, rng.choice(prof.fills)))
        if c["manual"] and rng.random() < 0.9:
            emit("enter %d" % i)
    construct(0)
    w = dict(prof.w_ops)
    nops = rng.randint(*prof.n_ops)
    guard = 0
    while len(ops) < nops and guard < nops * 6:
        guard += 1
        live = [i for i in range(4) if t.exists[i]]
        if not live:
            construct(0); continue
        i = rng.choice(live)
        k = wchoice(rng, w)
        d = rng.randrange(n)
        if k in ("update", "react", "query"): emit("%s %d" % (k, i))
        elif k in ("change", "immChange"): emit("%s %d %d" % (k, i, d))
        elif k in ("changeWith", "immChangeWith"): emit("%s %d %d %d" % (k, i, d, rng.choice([0, 255, rng.randrange(256)])))
        elif k in ("succeed", "fail"): emit("%s %d %d" % (k, i, rng.randrange(n)))
        elif k == "plan_append": emit("plan.append %d %d %d" % (i, rng.randrange(n), d))
        elif k == "plan_appendWith": emit("plan.appendWith %d %d %d %d" % (i, rng.randrange(n), d, rng.randrange(256)))
        elif k == "plan_clear": emit("plan.clear %d" % i)
        elif k == "plan_removeAt": emit("plan.removeAt %d %d" % (i, rng.randrange(cfgmod.eff_cap(c) + 1)))
        elif k == "loadfrom":
            others = [j for j in live if j != i]
            if others: emit("loadfrom %d %d" % (i, rng.choice(others)))
        elif k == "replayTransition": emit("replayTransition %d %d" % (i, 255 if rng.random() < 0.15 else d))
        elif k == "replayEnter": emit("replayEnter %d %d" % (i, d))
        elif k == "attachLogger": emit("attachLogger %d %d" % (i, rng.randrange(2)))
        elif k == "exit_enter":
            if c["manual"]:
                if t.on[i]: emit("exit %d" % i)
                else: emit("enter %d" % i)
        elif k == "copy":
            free = [j for j in range(4) if not t.exists[j]]
            if free: emit("copy %d %d %s" % (rng.choice(free), i, rng.choice(prof.fills)))
        elif k == "second_instance":
            free = [j for j in range(4) if not t.exists[j]]
            if free: construct(rng.choice(free))
        elif k == "destroy_construct":
            if rng.random() < 0.5 or len(live) > 1: emit("destroy %d" % i)
            else: emit("destroy %d" % i); construct(i)
    return ops

def gen_pair(rng, c, prof):
    """Two entries for the same method of the same call: the root (or an injected base) does one thing and the state itself another, so
    that what one recipient does (report a task status, make a request, edit the plan) meets what the next recipient does in that very phase."""
    n = c["n"]
    meth = rng.choice(PHASES + PHASES + GUARDS)
    kind = "guard" if meth in GUARDS else "full"
    def act(for_root):
        r = rng.random()
        if c["plans"] and r < (0.55 if for_root else 0.3): return "%s %s" % (rng.choice(["succeed", "fail"]), rng.randrange(n) if (for_root or rng.random() < 0.4) else "self")
        if c["plans"] and r < 0.65: return "plan.append %d %d" % (rng.randrange(n), rng.randrange(n))
        if kind == "guard" and r < 0.8: return "cancel"
        if c["payload"] and r < 0.9: return "changeWith %d %d" % (rng.randrange(n), rng.randrange(256))
        return "change %d" % rng.randrange(n)
    first = None
    if c["head"] and rng.random() < 0.7 and not (kind == "guard" and meth == "exitGuard"):      # (the root's exit guard is never consulted)
        first = "tab * R own %s  : %s" % (meth, act(True))
    elif c["inj_state"]:
        first = "tab * S* I%d %s  : %s" % (rng.randrange(c["inj_state"]), meth, act(True))
    if first is None: return []
    who = "S*" if rng.random() < 0.6 else "S%d" % rng.randrange(n)
    return [first, "tab * %s own %s  : %s" % (who, meth, act(False))]

def gen_script(rng, c, prof):
    lines = [cfgmod.cfg_line(c)]
    if rng.random() < prof.p_pair:
        lines += gen_pair(rng, c, prof)
    for _ in range(rng.randint(*prof.n_tab)):
        lines.append(gen_tab(rng, c, prof))
    lines += gen_ops(rng, c, prof)
    return "\n".join(lines) + "\n"
