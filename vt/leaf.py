"""The source tie of the leaf layer (DESIGN.md section 4.7): tools/leafcode.py translates the bodies of utility.hpp / bit_array.inl /
bit_stream.inl from clang's typed AST of the tree under test into coq/Generated/LeafCode.v; coq/Proofs/LeafCodeProofs.v proves that
those terms compute the hand-written model's functions for every input.

On every run the translation is regenerated (both header variants).  If it is textually the committed file, the theorems of the
main build are theorems about this tree.  If it differs, the proofs are re-checked against the new translation in a scratch copy
of the development (symbolic links to the compiled files, so nothing under coq/ is touched and runs against different trees can
proceed in parallel); a failure there is a broken proof obligation of the calling property."""
import concurrent.futures, time, os, sys, json, hashlib, subprocess, shutil, difflib, glob
from . import common

LEAF_PIDS = ("C08", "C09", "C10", "C12", "C13", "C18", "C20")
GEN = os.path.join(common.COQ, "Generated", "LeafCode.v")
# C13 and C20 are about the translated functions themselves; the machine-level properties only rest on the constants (contain(), UNIT_COUNT)
DEPENDENTS = {"C13": [("Proofs/LeafCodeBits.v", "Proofs/LeafCodeStream.v", "Proofs/LeafCodeBuffer.v"), "Proofs/LeafCodeWide.v", "Proofs/LeafCodeFields.v"],
              "C20": ["Proofs/LeafConsts.v", "Proofs/LeafCodeProofs.v", "Proofs/LeafCodeArrays.v", "Proofs/LeafCodeStatic.v"],
              "C10": ["Proofs/LeafCodeTaskList.v", "Proofs/LeafCodePlan.v", ("Proofs/LeafCodePlanRemove.v", "Proofs/LeafCodePlanAppend.v", "Proofs/LeafCodePlanChange.v"), "Proofs/LeafCodePlanInv.v"],
              # "never an index outside an array, never an undefined shift or signed overflow" is what every src_ theorem establishes on the way: the byte-level
              # stream code and the slot allocator are the places where the library computes indices into storage
              "C18": [("Proofs/LeafCodeStream.v", "Proofs/LeafCodeTaskList.v"), ("Proofs/LeafCodeWide.v", "Proofs/LeafCodePlan.v"), ("Proofs/LeafCodePlanRemove.v", "Proofs/LeafCodePlanAppend.v", "Proofs/LeafCodePlanChange.v"), "Proofs/LeafCodePlanInv.v"],
              "C08": ["Proofs/LeafConsts.v"], "C09": ["Proofs/LeafConsts.v"], "C12": ["Proofs/LeafConsts.v"]}

def _generate(variant, out):
    r = subprocess.run([sys.executable, os.path.join(common.VERIF, "tools", "leafcode.py"), "--variant", variant, "--out", out], capture_output=True, text=True)
    return r.returncode, (r.stdout + r.stderr)[-2000:]

def _body(text):
    """the translation without its first comment (which names the header it was read from)"""
    i = text.find("*)")
    return text[i + 2:] if i >= 0 else text

def recheck_generated(gen_rel, text, dependents, what):
    """Re-check `dependents` (paths relative to coq/, in build order) against a regenerated coq/<gen_rel> without touching coq/:
    a scratch copy of the development made of symbolic links to the sources and compiled files, in which the generated file
    and its dependents are real files compiled afresh.  Cached by content.  -> dict(ok, detail, dir, output)"""
    # keyed by the regenerated text and by every source of the development (the linked .vo files must be the ones the fresh files are compiled against)
    srcs = sorted(glob.glob(os.path.join(common.COQ, "*", "*.v")))
    groups = [g if isinstance(g, (tuple, list)) else (g,) for g in dependents]      # a tuple: files independent of each other, compiled side by side
    dependents = [f for g in groups for f in g]
    key = hashlib.sha256((gen_rel + text + "|".join(dependents) + "".join(open(f).read() for f in srcs if not f.endswith(gen_rel))).encode()).hexdigest()[:16]
    d = os.path.join(common.CACHE, "regen", key); res = os.path.join(d, "result.json")
    if os.path.exists(res): return json.load(open(res))
    if os.path.isdir(d): shutil.rmtree(d, ignore_errors=True)
    os.makedirs(d)
    fresh = {gen_rel[:-2]} | {f[:-2] for f in dependents}
    for sub in ("Model", "Proofs", "Generated", "Properties"):
        os.makedirs(os.path.join(d, sub), exist_ok=True)
        for f in os.listdir(os.path.join(common.COQ, sub)):
            stem = sub + "/" + f.split(".")[0]
            src = os.path.join(common.COQ, sub, f); dst = os.path.join(d, sub, f)
            if stem in fresh:
                if f.endswith(".v") and stem != gen_rel[:-2]: shutil.copy(src, dst)
            else: os.symlink(src, dst)
    open(os.path.join(d, gen_rel), "w").write(text)
    out = dict(ok=True, detail="", dir=d, output="")
    def compile_group(g):
        """the files of g side by side; the first one that fails stops the others -> [(file, returncode, stdout, stderr)] of those that ran to an end"""
        logs = {f: (open(os.path.join(d, "log.%d.out" % k), "w+"), open(os.path.join(d, "log.%d.err" % k), "w+")) for k, f in enumerate(g)}
        procs = {f: subprocess.Popen(["timeout", "2700", "coqc", "-Q", ".", "FFSM2", "-w", "-notation-overridden,-deprecated-hint-without-locality,-deprecated-instance-without-locality", f],
                                     cwd=d, stdout=logs[f][0], stderr=logs[f][1], text=True) for f in g}
        done = []; failed = False
        while procs:
            for f in list(procs):
                rc = procs[f].poll()
                if rc is None: continue
                del procs[f]
                o, e = logs[f]; o.seek(0); e.seek(0); done.append((f, rc, o.read(), e.read())); o.close(); e.close()
                if rc != 0: failed = True
            if failed:
                for f in list(procs):
                    procs[f].kill(); procs[f].wait(); logs[f][0].close(); logs[f][1].close(); del procs[f]
            elif procs: time.sleep(0.2)
        return done
    for g in [(gen_rel,)] + groups:
        for f, rc, so, se in compile_group(g):
            out["output"] = so[-20000:]
            if rc != 0:
                out = dict(ok=False, detail="%s does not check against %s:\n%s" % (f, what, (so + se)[-1800:]), dir=d, output=""); break
        if not out["ok"]: break
    json.dump(out, open(res, "w"))
    return out

def _recheck(text, pid):
    return recheck_generated("Generated/LeafCode.v", text, DEPENDENTS[pid], "the translation of this tree")

def check(run):
    """adds the source-tie obligations to run.proof (which must have been computed already)"""
    if run.pid not in LEAF_PIDS: return
    committed = open(GEN).read() if os.path.exists(GEN) else ""
    tie = dict(translator="tools/leafcode.py (clang -ast-dump=json of explicit instantiations)", variants={})
    tmpd = os.path.join(common.CACHE, "leaf", "tmp.%d" % os.getpid()); os.makedirs(tmpd, exist_ok=True)
    problems = []
    try:
        for variant in ("development", "include"):
            out = os.path.join(tmpd, variant + ".v")
            rc, log = _generate(variant, out)
            if rc != 0 or not os.path.exists(out):
                problems.append("the translator cannot read the %s headers of this tree: %s" % (variant, log[-1200:]))
                tie["variants"][variant] = "not translated"; continue
            text = open(out).read()
            tie["functions"] = text.count("\nDefinition ")
            if _body(text) == _body(committed):
                tie["variants"][variant] = "identical to the committed translation (the theorems of the main build apply)"; continue
            r = _recheck(text, run.pid)
            if r["ok"]:
                tie["variants"][variant] = "differs from the committed translation; the proofs that depend on it were re-checked against it: accepted"
            else:
                a = _body(committed).splitlines(); b = _body(text).splitlines()
                diff = [l for l in difflib.unified_diff(a, b, "committed", "this tree", n=0, lineterm="")][:12]
                tie["variants"][variant] = "differs from the committed translation; the proofs do not check"
                problems.append("source tie (%s headers): %s\nchanged in the translation:\n%s" % (variant, r["detail"], "\n".join(x[:300] for x in diff)))
    finally:
        shutil.rmtree(tmpd, ignore_errors=True)
    run.extra["source_tie"] = tie
    if problems and run.proof is not None:
        run.proof["ok"] = False
        run.proof["detail"] = (run.proof.get("detail", "") + "\n" + "\n".join(problems)).strip()
        run.proof["discharged"] = 0
