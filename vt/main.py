"""Entry point: ./check <id> [--tier quick|thorough] ; ./check --replay <path>"""
import sys, os, json, argparse

def main():
    ap = argparse.ArgumentParser()
    ap.add_argument("pid", nargs="?")
    ap.add_argument("--tier", default=os.environ.get("VERIF_TIER", "quick"), choices=["quick", "thorough"])
    ap.add_argument("--replay")
    a = ap.parse_args()
    seed = int(os.environ.get("VERIF_SEED", "1") or 1)
    from . import props, replay
    if a.replay:
        sys.exit(replay.replay(a.replay))
    if a.pid not in props.CHECKS:
        print("unknown property %s (known: %s)" % (a.pid, " ".join(sorted(props.CHECKS)))); sys.exit(2)
    sys.exit(props.run_check(a.pid, a.tier, seed))

if __name__ == "__main__":
    main()
