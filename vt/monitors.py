"""Property monitors over a parsed trace (DESIGN.md appendix B). They are the search oracle: when a proof
obligation or the correspondence breaks, the check runs them over *implementation* traces to find a
concrete history on which the property itself fails. They return None (accepted) or
(line index, reason). Each monitor states the configurations it understands (`applies`)."""
from . import trace as T

FULL = 0x3fff

def onehot(n, a):
    return "".join("1" if k == a else "0" for k in range(n))

def defined(mask, meth):
    names = ["entryGuard", "enter", "reenter", "preUpdate", "update", "postUpdate", "preReact", "react", "postReact",
             "query", "exitGuard", "exit", "planSucceeded", "planFailed"]
    return (mask >> names.index(meth)) & 1 == 1

class Tracker:
    """Shared bookkeeping: the lifecycle automaton per instance (this is the C01 automaton)."""
    def __init__(self, c):
        self.c = c; self.A = {}; self.root = {}; self.alive = {}
    def new(self, i):
        self.A[i] = None; self.root[i] = False; self.alive[i] = True
    def copy(self, i, j):
        self.A[i] = self.A.get(j); self.root[i] = self.root.get(j, False); self.alive[i] = True

def who_id(w):
    return 255 if w == "R" else int(w[1:])

# ------------------------------------------------------------------------------------------------
def mon_C01(lines, c):
    n = c["n"]; tk = Tracker(c)
    head_enter = c["head"] and defined(c["defroot"], "enter"); head_exit = c["head"] and defined(c["defroot"], "exit")
    cur_api = {}
    for idx, l in enumerate(lines):
        i = l.inst
        if l.kind == "api" and l.phase == "begin":
            cur_api[i] = l.op
            if l.op == "construct": tk.new(i)
            elif l.op == "copy" and int(l.args[0]) in tk.alive: tk.copy(i, int(l.args[0]))
        elif l.kind == "cb" and l.rec == "own" and l.meth in T.LIFE:
            if i not in tk.A: continue
            A = tk.A[i]
            if l.who == "R":
                if l.meth == "enter":
                    if tk.root[i] or A is not None: return idx, "root enter() while the machine is already entered"
                    tk.root[i] = True
                elif l.meth == "exit":
                    if A is not None: return idx, "root exit() while state %d has not been exited" % A
                    if head_enter and not tk.root[i]: return idx, "root exit() without a matching root enter()"
                    tk.root[i] = False
                else: return idx, "reenter() delivered to the root"
            else:
                k = who_id(l.who)
                if l.meth == "enter":
                    if A is not None: return idx, "enter(%d) while state %d is still entered (no exit in between)" % (k, A)
                    if head_enter and not tk.root[i]: return idx, "enter(%d) before the root's enter()" % k
                    tk.A[i] = k
                    if l.f.get("act") != onehot(n, k): return idx, "inside enter(%d) control.isActive() reports %s" % (k, l.f.get("act"))
                elif l.meth == "exit":
                    if A != k: return idx, "exit(%d) but the entered state is %s" % (k, A)
                    if l.f.get("act") != onehot(n, k): return idx, "inside exit(%d) control.isActive() reports %s" % (k, l.f.get("act"))
                    tk.A[i] = None
                else:
                    if A != k: return idx, "reenter(%d) but the active state is %s" % (k, A)
                    if l.f.get("act") != onehot(n, k): return idx, "inside reenter(%d) control.isActive() reports %s" % (k, l.f.get("act"))
        elif l.kind == "obs":
            if i not in tk.A: continue
            A = tk.A[i]
            if not (defined(c["defstate"], "enter") and defined(c["defstate"], "exit")): continue
            exp = 255 if A is None else A
            if int(l.f["active"]) != exp: return idx, "activeStateId() = %s but the state entered and not exited is %s" % (l.f["active"], A)
            if l.f["act"] != onehot(n, A): return idx, "isActive(k) = %s but the entered state is %s" % (l.f["act"], A)
            if l.f["on"] != ("0" if A is None else "1"): return idx, "isActive() = %s but the entered state is %s" % (l.f["on"], A)
            if A is None and tk.root[i] and head_exit: return idx, "machine inactive but the root's enter() has no matching exit()"
        elif l.kind == "api" and l.phase == "end" and l.op == "destroy":
            if i in tk.A and not c["manual"]:
                if defined(c["defstate"], "exit") and tk.A[i] is not None: return idx, "destroyed with state %s entered and never exited" % tk.A[i]
                if head_exit and head_enter and tk.root[i]: return idx, "destroyed with the root entered and never exited"
            tk.A.pop(i, None)
    return None
mon_C01.applies = lambda c: defined(c["defstate"], "enter") and defined(c["defstate"], "exit") and defined(c["defstate"], "reenter")


def mon_C01_coq(lines, c):
    """The lifecycle automaton of coq/Proofs/LifeMonitor.v, extracted: the one the theorem run_accepted proves to accept the
    trace of every in-contract history of the model, applied here to the implementation's trace."""
    import subprocess
    from . import common
    text = "\n".join(l.raw for l in lines) + "\n"
    try:
        r = subprocess.run([common.model_runner(), "c01mon", str(c["n"])], input=text, capture_output=True, text=True, timeout=60)
    except Exception as e:
        return 0, "the extracted lifecycle monitor could not be run: %r" % (e,)
    out = r.stdout.strip()
    if out.startswith("reject"):
        t = out.split(" ", 2)
        return max(0, int(t[1]) - 1), "the extracted Coq lifecycle monitor (Proofs/LifeMonitor.v, proved to accept every model trace) rejects this callback"
    if out != "accept": return 0, "the extracted lifecycle monitor failed: %s %s" % (out[:100], r.stderr[:200])
    return None
mon_C01_coq.applies = lambda c: mon_C01.applies(c) and c["n"] <= 255

def mon_C05_coq(lines, c):
    """The callbacks an update() / react() / query() must begin with, computed from the configuration by the extracted expected_cbs of
    coq/Proofs/CycleProofs.v (update_cycle_order, react_cycle_order and query_shape prove that every model run delivers exactly these, each
    recipient once, in this order, before anything else of the call), compared with what the implementation delivered."""
    import subprocess
    from . import common, cfg as cfgmod
    active = {}; items = []
    for call in calls(lines):
        a = active.get(call.inst)
        if call.op in ("update", "react", "query") and a is not None and a != 255: items.append((call, a))
        if call.op == "destroy": active.pop(call.inst, None)
        elif call.obs is not None: active[call.inst] = int(call.obs.f["active"])
    if not items: return None
    text = cfgmod.cfg_line(c) + "\n" + "".join("%s %d\n" % (call.op, a) for call, a in items)
    try:
        r = subprocess.run([common.model_runner(), "c05"], input=text, capture_output=True, text=True, timeout=60)
    except Exception as e:
        return 0, "the extracted expected_cbs could not be run: %r" % (e,)
    exp = r.stdout.splitlines()
    if r.returncode != 0 or len(exp) != len(items): return 0, "the extracted expected_cbs failed: %s" % r.stderr[:200]
    for (call, a), e in zip(items, exp):
        want = [tuple(x.split(" ")) for x in e.split(";") if x]
        got = [(l.who, l.rec, l.meth) for _, l in call.ev if l.kind == "cb"][:len(want)]
        if got != want:
            k = next((i for i in range(min(len(got), len(want))) if got[i] != want[i]), min(len(got), len(want)))
            idx = [i for i, l in call.ev if l.kind == "cb"][k] if k < len(got) else call.end
            return idx, "%s() with state %d active must begin with the callbacks %s (expected_cbs of Proofs/CycleProofs.v); the implementation delivered %s" % (
                call.op, a, " ".join("%s.%s.%s" % w for w in want), " ".join("%s.%s.%s" % g for g in got))
    return None
mon_C05_coq.applies = lambda c: True

# ------------------------------------------------------------------------------------------------
class Call:
    """The events of one API call on one instance."""
    def __init__(self, op, inst, args, start):
        self.op = op; self.inst = inst; self.args = args; self.start = start; self.ev = []   # (idx, Line)

def calls(lines):
    """Yields the API calls in order; call.obs is the observation line printed after the call (or None)."""
    cur = None; done = None
    for idx, l in enumerate(lines):
        if l.kind == "api" and l.phase == "begin":
            if done is not None: yield done; done = None
            cur = Call(l.op, l.inst, l.args, idx); cur.obs = None; cur.obs_idx = None; cur.ret = None; cur.end = idx
        elif l.kind == "api" and l.phase == "end":
            if cur: cur.ret = l.ret; cur.end = idx; done = cur
            cur = None
        elif cur is not None:
            cur.ev.append((idx, l))
        elif done is not None and l.kind == "obs" and l.inst == done.inst:
            done.obs = l; done.obs_idx = idx
    if done is not None: yield done

def parse_t(s):
    """'-' -> None ; 'o>d:p' -> (o, d, p)"""
    if s is None or s.startswith("-"): return None
    od, p = s.split(":"); o, d = od.split(">")
    return (int(o), int(d), p)

PROCESSING = ("update", "react", "immChange", "immChangeWith")
ACTIVATION = ("construct", "enter")

def mon_guards(lines, c, want):
    """C02, C03, C04 and the request part of C07/C11 share the analysis of guard rounds.
    `want` selects which rules report: a set of property ids."""
    n = c["n"]; limit = c["limit"]
    A = {}; Q = {}; alive = set(); S_prev = {}
    plans_may_request = bool(c["plans"])
    for call in calls(lines):
        i = call.inst
        if call.op == "construct": A[i] = None; Q[i] = None; alive.add(i)
        if call.op == "copy":
            j = int(call.args[0])
            if j in alive: A[i] = A.get(j); Q[i] = Q.get(j); alive.add(i)
        if i not in alive: continue
        if call.op in ("change", "changeWith"):
            Q[i] = (255, int(call.args[0]), call.args[1] if call.op == "changeWith" else "-")
        if call.op in ("immChange", "immChangeWith"):
            Q[i] = (255, int(call.args[0]), call.args[1] if call.op == "immChangeWith" else "-")
        a0 = A.get(i)
        rounds = []        # dicts: kind exit/entry cbs, pend, cur, cancelled, idx
        cur_round = None; last_cb = None; first_guard = None; last_guard = None; life = []
        activation = call.op in ACTIVATION or call.op == "replayEnter"
        for idx, l in call.ev:
            if l.kind == "cb" and l.rec == "own":
                last_cb = l
                if l.meth in T.GUARD:
                    if first_guard is None: first_guard = idx
                    last_guard = idx
                    if life and "C03" in want: return idx, "a guard runs after enter/exit/reenter already ran in the same processing step"
                    pend = parse_t(l.f.get("pend")); cur = parse_t(l.f.get("cur"))
                    if call.op in ("loadfrom", "replayTransition", "replayEnter") and ("C03" in want or "C11" in want or "C12" in want):
                        return idx, "a guard is consulted during %s" % call.op
                    starts = (l.meth == "exitGuard") if not activation else (l.who == "R" or not c["head"] or not defined(c["defroot"], "entryGuard"))
                    if activation and cur_round is not None and not starts and cur_round["cancelled"]: starts = False
                    if starts or cur_round is None:
                        cur_round = dict(pend=pend, cur=cur, cancelled=False, idx=idx, guards=[l], requests=[])
                        rounds.append(cur_round)
                    else:
                        if cur_round["cancelled"] and "C03" in want:
                            return idx, "%s of %s consulted although the round was already cancelled" % (l.meth, l.who)
                        cur_round["guards"].append(l)
                        if (pend != cur_round["pend"] or cur != cur_round["cur"]) and ("C03" in want or "C06" in want):
                            return idx, "guards of one round see different pending/current transitions"
                    if not activation and "C03" in want:
                        if l.meth == "exitGuard" and a0 is not None and who_id(l.who) != a0:
                            return idx, "exitGuard delivered to %s but the active state is %s" % (l.who, a0)
                        if l.meth == "entryGuard" and pend and who_id(l.who) != pend[1]:
                            return idx, "entryGuard delivered to %s but the pending destination is %d" % (l.who, pend[1])
                elif l.meth in T.LIFE:
                    life.append((idx, l))
                    if l.who != "R":
                        k = who_id(l.who)
                        if l.meth == "enter": A[i] = k
                        elif l.meth == "exit": A[i] = None
            elif l.kind == "did" and l.res == "ok" and last_cb is not None:
                if l.act[0] == "cancel" and cur_round is not None and last_cb.meth in T.GUARD:
                    cur_round["cancelled"] = True
                if l.act[0] in ("change", "changeWith"):
                    q = (who_id(last_cb.who), int(l.act[1]), l.act[2] if l.act[0] == "changeWith" else "-")
                    Q[i] = q
                    if cur_round is not None and last_cb.meth in T.GUARD: cur_round["requests"].append(q)
        # ---- verdicts on this call ----
        if not rounds and not life: continue
        trounds = rounds[1:] if (activation and rounds) else rounds        # activation: the first evaluation is not a redirection round
        if "C04" in want and len(trounds) > limit:
            return rounds[-1]["idx"], "%d guard rounds in one %s call, the substitution limit is %d" % (len(trounds), call.op, limit)
        survivor = None
        for r in trounds:
            if ("C03" in want or "C06" in want) and r["cur"] != survivor and not (activation and r is rounds[0]):
                # the transition accepted so far, as the guards see it
                if (r["cur"] and survivor and r["cur"][:2] != survivor[:2]) or (bool(r["cur"]) != bool(survivor)):
                    return r["idx"], "guards see current transition %s but the last surviving request is %s" % (r["cur"], survivor)
            if not r["cancelled"]: survivor = r["pend"]
        if call.op in PROCESSING or (activation and call.op != "replayEnter"):
            # which state ends up active, and how it got there
            ends = [(idx, l) for idx, l in life if l.who != "R"]
            seq = [(l.meth, who_id(l.who)) for _, l in ends]
            if activation:
                exp_dest = survivor[1] if survivor else 0
                if ("C03" in want or "C02" in want or "C04" in want) and defined(c["defstate"], "enter"):
                    if seq != [("enter", exp_dest)]:
                        return (ends[0][0] if ends else call.end), "activation entered %s but the surviving request names %d" % (seq, exp_dest)
                if "C11" in want and c["history"] and call.obs is not None and call.op != "replayEnter" and parse_t(call.obs.f.get("prev")) != survivor:
                    return call.obs_idx, "after activation previousTransition() reports %s, the redirect of the initial entry was %s" % (call.obs.f.get("prev"), survivor)
            elif call.op in PROCESSING:
                if survivor is None:
                    if seq and ("C02" in want or "C03" in want):
                        return ends[0][0], "no request survived its guards, yet %s ran" % seq
                    if "C11" in want and c["history"] and call.obs is not None and parse_t(call.obs.f.get("prev")) is not None and (rounds or call.op in ("update", "react")):
                        return call.obs_idx, "no transition was applied, yet previousTransition() reports %s" % call.obs.f.get("prev")
                elif defined(c["defstate"], "enter") and defined(c["defstate"], "exit") and defined(c["defstate"], "reenter"):
                    exp = [("reenter", a0)] if survivor[1] == a0 else [("exit", a0), ("enter", survivor[1])]
                    if seq != exp and ("C02" in want or "C03" in want or "C04" in want):
                        return (ends[0][0] if ends else call.end), "surviving request %s should give %s, the machine did %s" % (survivor, exp, seq)
                    if "C11" in want and c["history"] and call.obs is not None and parse_t(call.obs.f.get("prev")) != survivor:
                        return call.obs_idx, "previousTransition() reports %s, the transition applied was %s" % (call.obs.f.get("prev"), survivor)
                    if "C07" in want or "C11" in want:
                        for idx, l in ends:
                            if l.meth in ("enter", "reenter") and parse_t(l.f.get("cur")) != survivor:
                                return idx, "%s sees current transition %s, the surviving request is %s" % (l.meth, l.f.get("cur"), survivor)
            # the first round evaluates the most recent request (visible only when no plan can issue one)
            if "C02" in want and trounds and not plans_may_request and not activation:
                pass
        if "C03" in want and call.op in PROCESSING and first_guard is not None:
            for idx, l in life:
                if first_guard < idx < last_guard: return idx, "%s ran between guard evaluations" % l.meth
    return None

def mon_C02(lines, c): return mon_guards(lines, c, {"C02"})
def mon_C03(lines, c): return mon_guards(lines, c, {"C03"})
def mon_C04(lines, c): return mon_guards(lines, c, {"C04"})
for m in (mon_C02, mon_C03, mon_C04):
    m.applies = lambda c: c["inj_state"] == 0 and c["inj_root"] == 0 and c["defstate"] == FULL and (c["defroot"] == FULL or not c["head"]) and not c["plans"]

# ------------------------------------------------------------------------------------------------
def mon_C05(lines, c):
    A = {}
    for call in calls(lines):
        i = call.inst
        if call.op == "construct": A[i] = None
        if call.op == "copy" and int(call.args[0]) in A: A[i] = A[int(call.args[0])]
        a0 = A.get(i)
        own = [(idx, l) for idx, l in call.ev if l.kind == "cb" and l.rec == "own"]
        if call.op in ("update", "react") and a0 is not None:
            pre, mid, post = ("preUpdate", "update", "postUpdate") if call.op == "update" else ("preReact", "react", "postReact")
            exp = []
            for m, order in ((pre, "rs"), (mid, "rs"), (post, "sr")):
                for w in order:
                    if w == "r" and c["head"] and defined(c["defroot"], m): exp.append(("R", m))
                    if w == "s" and defined(c["defstate"], m): exp.append(("S%d" % a0, m))
            got = [(l.who, l.meth) for _, l in own if l.meth in T.PHASE]
            if got != exp:
                return call.start, "%s() with state %d active delivered %s, expected %s" % (call.op, a0, got, exp)
            # all phase callbacks before any guard / lifecycle callback of the call
            seen_other = False
            for idx, l in own:
                if l.meth in T.PHASE:
                    if seen_other: return idx, "%s delivered after a guard/enter/exit of the same call" % l.meth
                    if call.op == "react" and l.f.get("ev") != "1": return idx, "%s did not receive the caller's own event object" % l.meth
                elif l.meth in T.GUARD or l.meth in T.LIFE: seen_other = True
        if call.op == "query" and a0 is not None:
            exp = []
            if c["head"] and defined(c["defroot"], "query"): exp.append(("R", "query"))
            if defined(c["defstate"], "query"): exp.append(("S%d" % a0, "query"))
            got = [(l.who, l.meth) for _, l in own]
            if got != exp: return call.start, "query() delivered %s, expected %s" % (got, exp)
            for idx, l in own:
                if l.f.get("ev") != "1": return idx, "query did not receive the caller's own event object"
        for idx, l in own:
            if l.meth in T.LIFE and l.who != "R":
                if l.meth == "enter": A[i] = who_id(l.who)
                elif l.meth == "exit": A[i] = None
    # query leaves the machine unchanged: the obs after equals the obs before
    last_obs = {}
    pending_query = {}
    for idx, l in enumerate(lines):
        if l.kind == "api" and l.phase == "begin" and l.op == "query": pending_query[l.inst] = last_obs.get(l.inst)
        if l.kind == "obs":
            if l.inst in pending_query:
                before = pending_query.pop(l.inst)
                if before is not None and before != l.raw: return idx, "query() changed the machine: %s -> %s" % (before, l.raw)
            last_obs[l.inst] = l.raw
    return None
mon_C05.applies = lambda c: c["inj_state"] == 0 and c["inj_root"] == 0 and defined(c["defstate"], "enter") and defined(c["defstate"], "exit")

# ------------------------------------------------------------------------------------------------
def mon_C06(lines, c):
    n = c["n"]; A = {}; in_root_window = {}
    for idx, l in enumerate(lines):
        i = l.inst
        if l.kind == "api" and l.phase == "begin":
            if l.op == "construct": A[i] = None
            if l.op == "copy" and int(l.args[0]) in A: A[i] = A[int(l.args[0])]
        elif l.kind == "ctxfail":
            return idx, "callbacks did not receive the machine's own context object"
        elif l.kind == "cb":
            if i not in A: continue
            if int(l.f["id"]) != who_id(l.who): return idx, "control.stateId() = %s inside a callback of %s" % (l.f["id"], l.who)
            if l.f.get("ctx") != "1": return idx, "control.context() is not the machine's own context object"
            if l.rec == "own" and l.meth in T.LIFE and l.who != "R":
                if l.meth == "enter": A[i] = who_id(l.who)
            root_window = l.who == "R" and l.meth in ("enter", "exit")
            if not root_window and defined(c["defstate"], "enter") and defined(c["defstate"], "exit") and c["inj_state"] == 0:
                if l.f["act"] != onehot(n, A[i]) and not (l.meth == "entryGuard" and A[i] is None):
                    return idx, "control.isActive(k) = %s inside %s of %s while the machine's active state is %s" % (l.f["act"], l.meth, l.who, A[i])
            if l.rec == "own" and l.meth == "exit" and l.who != "R": A[i] = None
        elif l.kind == "did" and l.res == "ok" and l.act[0] in ("change", "changeWith"):
            pass
    # a request made through a control records the calling state as its origin: the next view shows it
    last_cb = None
    for idx, l in enumerate(lines):
        if l.kind == "cb":
            if last_cb is not None and last_cb[2] is not None and l.inst == last_cb[0]:
                req = parse_t(l.f.get("req")); exp = last_cb[2]
                if l.meth not in T.GUARD and l.meth not in T.LIFE and l.meth not in T.PLANCB:
                    if req is None or req[0] != exp[0] or req[1] != exp[1]:
                        return idx, "request made by state %d for %d is reported as %s" % (exp[0], exp[1], l.f.get("req"))
            last_cb = [l.inst, l, None]
        elif l.kind == "did" and last_cb is not None and l.res == "ok" and l.act[0] in ("change", "changeWith"):
            last_cb[2] = (who_id(last_cb[1].who), int(l.act[1]))
        elif l.kind == "did" and last_cb is not None and l.res == "ok" and l.act[0] in ("plan.clear",):
            pass
        elif l.kind == "api":
            last_cb = None
    return None
mon_C06.applies = lambda c: True
def mon_C06_guards(lines, c): return mon_guards(lines, c, {"C06"})
mon_C06_guards.applies = lambda c: c["inj_state"] == 0 and c["inj_root"] == 0 and c["defstate"] == FULL and (c["defroot"] == FULL or not c["head"]) and not c["plans"]

# ------------------------------------------------------------------------------------------------
def mon_C07(lines, c): return mon_guards(lines, c, {"C07"})
mon_C07.applies = lambda c: c["inj_state"] == 0 and c["inj_root"] == 0 and c["defstate"] == FULL and (c["defroot"] == FULL or not c["head"]) and not c["plans"]

def mon_C07_payload(lines, c):
    """A payload-free request exposes no payload; a payload is shown only for the request it came with.
    Tracks the outstanding request (needs plans off or logging on to see every source)."""
    Q = {}
    last_cb = None
    for idx, l in enumerate(lines):
        i = l.inst
        if l.kind == "api" and l.phase == "begin":
            last_cb = None
            if l.op in ("change", "immChange"): Q[i] = (255, int(l.args[0]), "-")
            if l.op in ("changeWith", "immChangeWith"): Q[i] = (255, int(l.args[0]), l.args[1])
            if l.op == "construct": Q[i] = None
            if l.op == "copy": Q[i] = Q.get(int(l.args[0]))
        elif l.kind == "cb":
            last_cb = l
            if l.meth in T.GUARD:
                pend = parse_t(l.f.get("pend"))
                if pend is not None and Q.get(i) is not None and l.f.get("req", "-").startswith("-") and pend != Q[i]:
                    return idx, "guard sees pending %s, the request evaluated was made as %s" % (l.f.get("pend"), Q[i])
                for fld in ("pend", "cur"):
                    t = parse_t(l.f.get(fld))
                    if t and t[2] in ("CORRUPT", "MISALIGNED"): return idx, "payload of %s transition is %s" % (fld, t[2])
            if l.meth in ("enter", "reenter"):
                t = parse_t(l.f.get("cur"))
                if t and t[2] in ("CORRUPT", "MISALIGNED"): return idx, "payload of current transition is %s" % t[2]
        elif l.kind == "did" and l.res == "ok" and last_cb is not None and l.act[0] in ("change", "changeWith"):
            Q[i] = (who_id(last_cb.who), int(l.act[1]), l.act[2] if l.act[0] == "changeWith" else "-")
        elif l.kind == "obs":
            t = parse_t(l.f.get("prev"))
            if t and t[2] in ("CORRUPT", "MISALIGNED"): return idx, "payload of previousTransition() is %s" % t[2]
    return None
mon_C07_payload.applies = lambda c: not c["plans"]

# ------------------------------------------------------------------------------------------------
def mon_plans(lines, c, want):
    """C08 / C09 / C10: tracks the plan as a list, the latched reports and planExists from the trace.
    Needs logging on (plan-issued requests are visible as transition records not followed by a 'did change')."""
    cap = c["cap"] if c["cap"] > 0 else c["n"]          # cap = 0: no TaskCapacityN<>, the library uses the number of states
    # plan-issued requests are visible only through the logger: it must be attached from construction on
    for l in lines:
        if l.kind == "api" and l.phase == "begin" and ((l.op == "construct" and l.args[0] != "1") or (l.op == "attachLogger" and l.args[0] != "1")):
            return None
    PL = {}; SU = {}; FA = {}; PE = {}; A = {}; obs_of = {}
    def pstr(pl): return "[" + ",".join("%d>%d:%s" % t for t in pl) + "]"
    for call in calls(lines):
        i = call.inst
        if call.op == "construct": PL[i] = []; SU[i] = set(); FA[i] = set(); PE[i] = False; A[i] = None
        if call.op == "copy":
            j = int(call.args[0])
            if j in PL: PL[i] = list(PL[j]); SU[i] = set(SU[j]); FA[i] = set(FA[j]); PE[i] = PE[j]; A[i] = A[j]
        if i not in PL: continue
        cleared_this_call = [False]
        def plan_op(act, res, idx):
            if act[0] in ("plan.append", "plan.appendWith"):
                t = (int(act[1]), int(act[2]), act[3] if act[0] == "plan.appendWith" else "-")
                full = len(PL[i]) >= cap
                if "C10" in want:
                    if full and res not in ("full", "0"): return idx, "append on a full plan (%d tasks, capacity %d) reported %s" % (len(PL[i]), cap, res)
                    if not full and res not in ("ok", "1"): return idx, "append with %d of %d tasks present reported %s" % (len(PL[i]), cap, res)
                if res in ("ok", "1"): PL[i].append(t); PE[i] = True
                elif act[0] == "plan.appendWith": PE[i] = True
            elif act[0] == "plan.clear":
                PL[i] = []; SU[i] = set(); FA[i] = set(); cleared_this_call[0] = True
            elif act[0] == "plan.removeAt":
                k = int(act[1]); seen = "seen" + pstr(PL[i])
                if "C10" in want and res != seen: return idx, "iterating while removing task %d visited %s, the plan was %s" % (k, res, seen)
                if k < len(PL[i]): del PL[i][k]
            return None
        if call.op.startswith("plan."):
            r = plan_op([call.op] + call.args, call.ret, call.start)
            if r: return r
        if call.op == "succeed": SU[i].add(int(call.args[0]))
        if call.op == "fail": FA[i].add(int(call.args[0]))
        if call.op == "loadfrom":
            # load() of an active saver into an active loader discards the plan before it runs any callback; into an inactive loader there is
            # nothing to discard; load() of an inactive saver runs the final exit first and discards afterwards (handled at the end of the call)
            src = obs_of.get(int(call.args[0])); dst = obs_of.get(i)
            if src is not None and dst is not None and src.f.get("on") == "1" and dst.f.get("on") == "1":
                PL[i] = []; SU[i] = set(); FA[i] = set(); PE[i] = False
        a0 = A.get(i)
        snap = None      # (failure outstanding for the active state, plan exists) at the moment of the plan step
        last_cb = None; fired = []; plan_cb = []; to_clear = set(); pending_outcome_clear = False
        fail_by_active = False; any_fail = False; any_succeed = False; in_phase = False
        evs = call.ev
        for k, (idx, l) in enumerate(evs):
            if snap is None and ((l.kind == "cb" and l.meth not in T.PHASE) or (l.kind == "log" and l.what == "transition" and l.args[0] != "255"
                                 and not (k + 1 < len(evs) and evs[k + 1][1].kind == "did"))):
                snap = (a0 in FA[i], PE[i], a0 in SU[i], list(PL[i]), any_fail)
            if l.kind == "cb":
                if pending_outcome_clear:
                    PL[i] = []; SU[i] = set(); FA[i] = set(); pending_outcome_clear = False
                last_cb = l
                if l.rec == "own" and l.who != "R" and l.meth == "enter": A[i] = who_id(l.who)
                if l.meth in T.GUARD and to_clear:
                    SU[i] -= to_clear; to_clear = set()
                # (inside load() the plan is discarded before or after the callbacks depending on the saved activity: not checked there)
                if l.meth != "query" and "plan" in l.f and ("C10" in want or "C08" in want) and call.op != "loadfrom":
                    if l.f["plan"] != pstr(PL[i]):
                        return idx, "control.plan() shows %s, the tasks appended and not yet removed are %s" % (l.f["plan"], pstr(PL[i]))
                if l.meth in T.PLANCB and l.rec == "own":
                    plan_cb.append((idx, l))
                    if "C09" in want:
                        if not PE[i]: return idx, "%s delivered although no task was added since activation" % l.meth
                        if l.meth == "planSucceeded" and PL[i]: return idx, "planSucceeded delivered while tasks remain: %s" % pstr(PL[i])
                        if l.meth == "planSucceeded" and not (any_succeed or a0 in SU[i]): return idx, "planSucceeded delivered with no success outstanding"
                        if l.meth == "planFailed" and not (any_fail or a0 in FA[i]): return idx, "planFailed delivered with no failure outstanding"
                        if l.meth == "planFailed" and fired: return fired[0][0], "a task fired in a cycle that delivers planFailed()"
                    pending_outcome_clear = True
            elif l.kind == "did" and last_cb is not None:
                if l.act[0].startswith("plan.") and l.res != "ignored":
                    r = plan_op(l.act, l.res, idx)
                    if r: return r
                if l.res == "ok" and l.act[0] in ("succeed", "fail"):
                    sid = who_id(last_cb.who) if l.act[1] == "self" else int(l.act[1])
                    (SU if l.act[0] == "succeed" else FA)[i].add(sid)
                    if last_cb.meth in T.PHASE:
                        if l.act[0] == "fail": any_fail = True
                        else: any_succeed = True
                        if l.act[0] == "fail" and sid == a0: fail_by_active = True
                if l.res == "ok" and l.act[0] == "exit_marker": pass
            elif l.kind == "log" and l.what == "transition" and int(l.args[0]) != 255:
                nxt = evs[k + 1][1] if k + 1 < len(evs) else None
                if nxt is not None and nxt.kind == "did" and nxt.act[0] in ("change", "changeWith"): continue
                o, d = int(l.args[0]), int(l.args[1])
                fired.append((idx, o, d))
                if "C08" in want:
                    if call.op not in ("update", "react"): return idx, "a plan task fired outside update()/react()"
                    if o != a0: return idx, "task %d>%d fired but the active state is %s" % (o, d, a0)
                    if o not in SU[i]: return idx, "task %d>%d fired without an outstanding success report of state %d" % (o, d, o)
                pos = next((q for q, t in enumerate(PL[i]) if t[0] == o and t[1] == d), None)
                if pos is None:
                    if "C08" in want: return idx, "a request %d>%d was issued by the plan step but no such task is in the plan %s" % (o, d, pstr(PL[i]))
                    continue
                if "C08" in want and any(t[0] != o for t in PL[i][:pos]):
                    return idx, "task %d>%d fired past an earlier task of another origin: %s" % (o, d, pstr(PL[i]))
                del PL[i][pos]
                if o == d: SU[i].discard(o)
                else: to_clear.add(o)
            if l.kind == "cb" and l.rec == "own" and l.who != "R" and l.meth == "exit":
                SU[i].discard(who_id(l.who)); FA[i].discard(who_id(l.who)); A[i] = None
        if pending_outcome_clear: PL[i] = []; SU[i] = set(); FA[i] = set()
        SU[i] -= to_clear
        if call.op in ("update", "react") and "C08" in want and a0 is not None:
            # converse: the first task's origin is active and has an outstanding success, no failure around, a plan exists => it fires in this cycle
            sn = snap if snap is not None else (a0 in FA[i], PE[i], a0 in SU[i], list(PL[i]), any_fail)
            if sn[1] and sn[2] and not sn[0] and not sn[4] and sn[3] and sn[3][0][0] == a0 and not any(o == a0 and d == sn[3][0][1] for (_, o, d) in fired) and not plan_cb:
                return call.start, "the first task %d>%d has an active origin with an outstanding success report and no failure is outstanding, yet it did not fire in this %s()" % (sn[3][0][0], sn[3][0][1], call.op)
        if call.op in ("update", "react") and "C09" in want:
            kinds = [l.meth for _, l in plan_cb]
            if len(kinds) > 1: return plan_cb[1][0], "two plan outcome callbacks in one cycle: %s" % kinds
            # converse: a failure outstanding for the active state (reported in this cycle or latched) on a machine that has a plan
            # must be answered by planFailed() in this very cycle
            if snap is None: snap = (a0 in FA[i], PE[i], a0 in SU[i], list(PL[i]), any_fail)
            if snap[0] and snap[1] and "planFailed" not in kinds:
                return call.start, "state %s has a failure outstanding and a plan exists, yet %s() delivered %s instead of planFailed" % (a0, call.op, kinds or "no plan outcome")
        # (load() discards the plan before it runs callbacks when the loader stays or becomes active, after them when it ends inactive)
        if call.op in ("exit", "destroy") or (call.op == "loadfrom" and call.obs is not None and call.obs.f.get("on") == "0"):
            PL[i] = []; SU[i] = set(); FA[i] = set(); PE[i] = False
            if call.op == "loadfrom" and call.obs is not None: A[i] = None if call.obs.f["active"] == "255" else int(call.obs.f["active"])
        if call.op in ("enter", "replayEnter", "replayTransition", "loadfrom") and call.obs is not None:
            A[i] = None if call.obs.f["active"] == "255" else int(call.obs.f["active"])
        if call.obs is not None and ("C10" in want or "C08" in want or "C09" in want):
            o = call.obs
            if o.f.get("plan") != pstr(PL[i]):
                return call.obs_idx, "plan() reports %s, the tasks appended and not yet removed or fired are %s" % (o.f.get("plan"), pstr(PL[i]))
            if "C10" in want:
                expf = "%d>%d:%s" % PL[i][0] if PL[i] else "-"; expl = "%d>%d:%s" % PL[i][-1] if PL[i] else "-"
                if o.f.get("first") != expf or o.f.get("last") != expl:
                    return call.obs_idx, "first()/last() report %s/%s, the sequence is %s" % (o.f.get("first"), o.f.get("last"), pstr(PL[i]))
        if call.obs is not None: obs_of[i] = call.obs
    return None

def mon_C08(lines, c): return mon_plans(lines, c, {"C08"})
def mon_C09(lines, c): return mon_plans(lines, c, {"C09"})
def mon_C10(lines, c): return mon_plans(lines, c, {"C10"})
for m in (mon_C08, mon_C09, mon_C10):
    # (without a root head the plan outcome callbacks, after which the plan is cleared, are not observable)
    m.applies = lambda c: c["plans"] and c["log"] != "off" and c["inj_state"] == 0 and c["inj_root"] == 0 and c["defstate"] == FULL and c["head"] and c["defroot"] == FULL

# ------------------------------------------------------------------------------------------------
def mon_C11(lines, c):
    r = mon_guards(lines, c, {"C11"})
    if r: return r
    A = {}
    for call in calls(lines):
        i = call.inst
        if call.op == "replayTransition" and call.args and call.args[0] == "255":
            if call.ret != "0": return call.start, "replayTransition(invalid) returned %s" % call.ret
    # previousTransition().destination names the active state whenever it is set
    last = {}
    for idx, l in enumerate(lines):
        if l.kind == "obs":
            t = parse_t(l.f.get("prev"))
            if t is not None and int(l.f["active"]) != 255 and t[1] != int(l.f["active"]):
                return idx, "previousTransition() names %d but the active state is %s" % (t[1], l.f["active"])
        if l.kind == "api" and l.phase == "begin" and l.op == "replayTransition" and l.args[0] == "255":
            last[l.inst] = "pending"
    # replayTransition(255) changes nothing
    prev_obs = {}; watch = {}
    for idx, l in enumerate(lines):
        if l.kind == "api" and l.phase == "begin" and l.op == "replayTransition" and l.args[0] == "255": watch[l.inst] = prev_obs.get(l.inst)
        if l.kind == "obs":
            if l.inst in watch:
                b = watch.pop(l.inst)
                if b is not None and b != l.raw: return idx, "replayTransition(invalid) changed the machine: %s -> %s" % (b, l.raw)
            prev_obs[l.inst] = l.raw
    return None
mon_C11.applies = lambda c: c["history"] and c["inj_state"] == 0 and c["inj_root"] == 0 and c["defstate"] == FULL and (c["defroot"] == FULL or not c["head"]) and not c["plans"]

# ------------------------------------------------------------------------------------------------
def mon_C12_lifecycle(lines, c):
    """load() performs exactly the exit/enter, reenter, final exit or initial enter needed"""
    obs = {}
    for call in calls(lines):
        if call.op == "loadfrom" and call.obs is not None:
            j = int(call.args[0]); src = obs.get(j); dst = obs.get(call.inst)
            if src is not None and dst is not None:
                a_s = None if src.f["on"] == "0" else int(src.f["active"]); a_l = None if dst.f["on"] == "0" else int(dst.f["active"])
                if a_s is None and not c["manual"]: a_s = a_l
                exp = [] if (a_s is None and a_l is None) else [("reenter", a_l)] if a_s == a_l else \
                      ([("exit", a_l)] if a_l is not None else []) + ([("enter", a_s)] if a_s is not None else [])
                got = [(l.meth, who_id(l.who)) for _, l in call.ev if l.kind == "cb" and l.rec == "own" and l.who != "R" and l.meth in T.LIFE]
                if got != exp:
                    return call.start, "load() of a machine in state %s into one in state %s ran %s, exactly %s is needed" % (a_s, a_l, got, exp)
        if call.obs is not None: obs[call.inst] = call.obs
    return None
mon_C12_lifecycle.applies = lambda c: c["serial"] and defined(c["defstate"], "enter") and defined(c["defstate"], "exit") and defined(c["defstate"], "reenter")

def mon_C12(lines, c):
    last = {}
    for idx, l in enumerate(lines):
        if l.kind == "obs": last[l.inst] = l
    obs = {}; pend = None
    sers = {}
    for idx, l in enumerate(lines):
        if l.kind == "api" and l.phase == "begin" and l.op == "loadfrom":
            j = int(l.args[0]); pend = (l.inst, obs.get(j))
        elif l.kind == "cb" and l.meth in T.GUARD and pend is not None and l.inst == pend[0]:
            return idx, "a guard is consulted during load()"
        elif l.kind == "obs":
            if pend is not None and l.inst == pend[0]:
                src = pend[1]; pend = None
                if src is not None and (l.f["active"] != src.f["active"] or l.f["on"] != src.f["on"]):
                    return idx, "after load() the loader is active=%s on=%s, the saver was active=%s on=%s" % (l.f["active"], l.f["on"], src.f["active"], src.f["on"])
            obs[l.inst] = l
            ser = l.f.get("ser")
            if ser:
                # "writes nothing beyond the buffer's declared bit capacity": SERIAL_BITS = 1 + bitWidth(n); the harness hands save() a buffer
                # pre-filled with 0xEE, so a byte still reading 0xEE everywhere means save() did not write the buffer at all
                bits = 1 + c["n"].bit_length(); by = bytes.fromhex(ser)
                if len(by) != (bits + 7) // 8: return idx, "save() filled %d bytes, %d bits need %d" % (len(by), bits, (bits + 7) // 8)
                if all(b == 0xEE for b in by): return idx, "save() left the caller's buffer untouched (still the 0xEE fill): %s" % ser
                for pos in range(bits, 8 * len(by)):
                    if by[pos // 8] >> (pos % 8) & 1: return idx, "save() set bit %d, beyond the declared capacity of %d bits: %s" % (pos, bits, ser)
                key = (l.f["active"], l.f["on"])
                if ser in sers and sers[ser] != key: return idx, "two different activity states %s and %s serialize to the same buffer %s" % (sers[ser], key, ser)
                for s2, k2 in sers.items():
                    if k2 == key and s2 != ser: return idx, "one activity state %s serializes to two different buffers %s and %s" % (key, s2, ser)
                sers[ser] = key
    return None
mon_C12.applies = lambda c: c["serial"]

# ------------------------------------------------------------------------------------------------
def mon_C15(lines, c):
    pre = ("entryGuard", "enter", "reenter", "preUpdate", "update", "preReact", "react")
    post = ("exit", "postUpdate", "postReact")
    i = 0; L = lines
    while i < len(L):
        l = L[i]
        if l.kind == "cb" and (l.meth in pre or l.meth in post):
            k = c["inj_root"] if l.who == "R" else c["inj_state"]
            own_defined = defined(c["defroot"] if l.who == "R" else c["defstate"], l.meth)
            order = ["I%d" % j for j in range(k)] + (["own"] if own_defined else [])
            if l.meth in post: order = order[::-1]
            got = []; j = i
            while j < len(L) and len(got) < len(order):
                m = L[j]
                if m.kind == "cb":
                    if (m.inst, m.who, m.meth) != (l.inst, l.who, l.meth): break
                    got.append(m.rec)
                elif m.kind == "api": break
                j += 1
            if got != order:
                return i, "%s of %s delivered to %s, expected %s" % (l.meth, l.who, got, order)
            i = j
        else:
            i += 1
    return None
mon_C15.applies = lambda c: True

# ------------------------------------------------------------------------------------------------
def mon_C16(lines, c):
    """Log adjacency: each delivery that must be recorded is immediately preceded by its method record;
    each method record is followed by that delivery (or by nothing user-visible when the class defines
    no callback: verbose / react family); each change/cancel/succeed/fail action is immediately preceded by its record."""
    attached = {}
    L = lines
    for idx, l in enumerate(L):
        i = l.inst
        if l.kind == "api" and l.phase == "begin":
            if l.op == "construct": attached[i] = l.args[0] == "1"
            if l.op == "copy": attached[i] = attached.get(int(l.args[0]), False)
            if l.op == "attachLogger": attached[i] = l.args[0] == "1"
        if c["log"] == "off":
            if l.kind == "log": return idx, "a log record although logging is not compiled in"
            continue
        if l.kind == "log" and not attached.get(i, False):
            return idx, "a log record although no logger is attached"
        if l.kind == "did" and l.res == "ok" and attached.get(i, False):
            prev = L[idx - 1] if idx > 0 else None
            def need(what, args):
                if prev is None or prev.kind != "log" or prev.what != what or prev.args[:len(args)] != args:
                    return idx, "action '%s' is not accompanied by its %s record %s (found: %s)" % (" ".join(l.act), what, args, prev.raw if prev else None)
                return None
            # whose callback is this
            k = idx - 1
            while k >= 0 and L[k].kind != "cb": k -= 1
            caller = who_id(L[k].who) if k >= 0 else 255
            if l.act[0] in ("change", "changeWith"):
                r = need("transition", [str(caller), l.act[1]])
                if r: return r
            elif l.act[0] == "cancel":
                r = need("cancelled", [str(caller)])
                if r: return r
            elif l.act[0] in ("succeed", "fail"):
                sid = str(caller) if l.act[1] == "self" else l.act[1]
                r = need("task", [sid, "succeeded" if l.act[0] == "succeed" else "failed"])
                if r: return r
        if l.kind == "api" and l.phase == "end" and l.op in ("change", "changeWith", "succeed", "fail") and attached.get(i, False):
            prev = L[idx - 1]
            if l.op in ("change", "changeWith") and not (prev.kind == "log" and prev.what == "transition" and prev.args == ["255", l.args[0]]):
                return idx, "%s(%s) from outside is not followed by its transition record" % (l.op, l.args[0])
            if l.op in ("succeed", "fail") and not (prev.kind == "log" and prev.what == "task" and prev.args == [l.args[0], "succeeded" if l.op == "succeed" else "failed"]):
                return idx, "%s(%s) from outside is not followed by its task record" % (l.op, l.args[0])
        if l.kind == "cb" and attached.get(i, False):
            # the first recipient of a delivery must be immediately preceded by the method record
            k_inj = c["inj_root"] if l.who == "R" else c["inj_state"]
            own_def = defined(c["defroot"] if l.who == "R" else c["defstate"], l.meth)
            first_rec = None
            if l.meth in T.PLANCB: first_rec = "own"
            elif l.meth in ("exit", "postUpdate", "postReact", "query"): first_rec = "own" if own_def else ("I%d" % (k_inj - 1) if l.meth != "query" else "I0")
            elif l.meth == "exitGuard": first_rec = ("I%d" % (k_inj - 1)) if k_inj else "own"
            else: first_rec = "I0" if k_inj else "own"
            if l.rec == first_rec:
                prev = L[idx - 1] if idx > 0 else None
                if prev is None or prev.kind != "log" or prev.what != "method" or prev.args != [str(who_id(l.who)), l.meth]:
                    return idx, "delivery of %s to %s is not immediately preceded by its method record (found: %s)" % (l.meth, l.who, prev.raw if prev else None)
        if l.kind == "log" and l.what == "method":
            sid, meth = l.args
            who = "R" if sid == "255" else "S" + sid
            mask = c["defroot"] if who == "R" else c["defstate"]
            k_inj = c["inj_root"] if who == "R" else c["inj_state"]
            exists = who != "R" or c["head"]
            delivers = exists and (defined(mask, meth) or (k_inj > 0 and meth not in T.PLANCB))
            nxt = L[idx + 1] if idx + 1 < len(L) else None
            if delivers:
                if nxt is None or nxt.kind != "cb" or nxt.inst != i or nxt.who != who or nxt.meth != meth:
                    return idx, "method record %s/%s is not followed by that delivery (found: %s)" % (who, meth, nxt.raw if nxt else None)
            elif c["log"] == "on":
                # non-verbose: a record for a state whose class defines no such callback is allowed only for the react/query family
                # (and for classes with an injected base, whose inherited empty callback is not the library's own Empty one)
                if not (exists and (meth in ("preReact", "react", "postReact", "query") or k_inj > 0)):
                    return idx, "method record %s/%s for a class that does not define the callback" % (who, meth)
    return None
mon_C16.applies = lambda c: True


# ------------------------------------------------------------------------------------------------
def mon_C17(lines, c):
    """A copy-constructed instance is observationally equal to the original at the moment of copying."""
    last = {}
    pend = None
    for idx, l in enumerate(lines):
        if l.kind == "api" and l.phase == "begin" and l.op == "copy":
            pend = (l.inst, int(l.args[0]))
        elif l.kind == "cb" and pend is not None and l.inst == pend[0]:
            return idx, "the copy constructor ran a callback on the new instance"
        elif l.kind == "obs":
            if pend is not None and l.inst == pend[0]:
                src = last.get(pend[1])
                if src is not None:
                    a = l.raw.split(" ", 2)[2]; b = src.raw.split(" ", 2)[2]          # (includes cnts=: the data members of the state objects)
                    if a != b: return idx, "the copy reports [%s], the original [%s]" % (a, b)
                pend = None
            last[l.inst] = l
    return None
mon_C17.applies = lambda c: True

MONITORS = {"C01": [mon_C01, mon_C01_coq], "C02": [mon_C02], "C03": [mon_C03], "C04": [mon_C04], "C05": [mon_C05, mon_C05_coq], "C06": [mon_C06, mon_C06_guards],
            "C07": [mon_C07, mon_C07_payload], "C08": [mon_C08], "C09": [mon_C09], "C10": [mon_C10], "C11": [mon_C11, mon_C07_payload],
            "C12": [mon_C12, mon_C12_lifecycle], "C15": [mon_C15, mon_C05_coq], "C16": [mon_C16], "C17": [mon_C17]}

def run_monitors(pid, trace_text, c):
    lines = T.parse(trace_text)
    # the harness's own cross-checks of API forms (accessors, const overloads, iterator flavours, operator== ...): a token
    # APIX=<property>:<what> on a line means two forms of the same query disagreed with each other inside the implementation
    tag = " APIX=%s:" % pid
    for idx, l in enumerate(lines):
        if tag in l.raw:
            return (idx, "two forms of the same API query disagree: %s  [at: %s]" % (l.raw.split(tag)[1].split(" ")[0], l.raw))
    for m in MONITORS.get(pid, []):
        if not m.applies(c): continue
        try:
            r = m(lines, c)
        except Exception as e:          # a malformed trace must not pass silently
            return (0, "monitor %s could not read the trace: %r" % (m.__name__, e))
        if r is not None:
            idx, reason = r
            return (idx, reason + "  [at: %s]" % (lines[idx].raw if 0 <= idx < len(lines) else "?"))
    return None
