"""The proof side of a check: (re)build the Coq development, compile the property file, read the
Print Assumptions output under each theorem, scan the sources for forbidden constructs."""
import os, re, subprocess, glob, hashlib
from . import common

FORBIDDEN = re.compile(r"\b(Admitted|admit|Axiom|Axioms|Parameter|Parameters|Conjecture|Conjectures|Admit Obligations|bypass_check|Unset Guard Checking|Unset Positivity Checking|Unset Universe Checking|type-in-type|impredicative-set)\b")
ALLOWED_AXIOMS = ()      # the development aims at "Closed under the global context" throughout

def ensure_makefile():
    mk = os.path.join(common.COQ, "Makefile")
    proj = os.path.join(common.COQ, "_CoqProject")
    if not os.path.exists(mk) or os.path.getmtime(mk) < os.path.getmtime(proj):
        subprocess.run(["coq_makefile", "-f", "_CoqProject", "-o", "Makefile"], cwd=common.COQ, capture_output=True, text=True, check=True)

def strip_comments(src):
    out = []; depth = 0; i = 0
    while i < len(src):
        if src.startswith("(*", i): depth += 1; i += 2; continue
        if src.startswith("*)", i) and depth > 0: depth -= 1; i += 2; continue
        if depth == 0: out.append(src[i])
        i += 1
    return "".join(out)

def scan_forbidden():
    bad = []
    for path in sorted(glob.glob(os.path.join(common.COQ, "**", "*.v"), recursive=True)):
        src = strip_comments(open(path).read())
        for m in FORBIDDEN.finditer(src):
            line = src.count("\n", 0, m.start()) + 1
            bad.append("%s:%d: %s" % (os.path.relpath(path, common.VERIF), line, m.group(0)))
        # Variable / Hypothesis outside a section declare an axiom
        depth = 0
        for ln, text in enumerate(src.split("\n"), 1):
            t = text.strip()
            if re.match(r"^Section\b", t): depth += 1
            elif re.match(r"^End\b", t) and depth > 0: depth -= 1
            elif depth == 0 and re.match(r"^(Variable|Variables|Hypothesis|Hypotheses|Context)\b", t):
                bad.append("%s:%d: %s outside a section" % (os.path.relpath(path, common.VERIF), ln, t.split()[0]))
    return bad

def check_property(pid, extra_files=(), tier="quick"):
    """Returns dict(ok, obligations, discharged, theorems, axioms, detail, checker_cmd)."""
    ensure_makefile()
    rel = "Properties/Properties_%s.v" % pid
    path = os.path.join(common.COQ, rel)
    res = dict(ok=False, obligations=0, discharged=0, theorems=[], axioms={}, detail="", forbidden=[],
               checker_cmd="make -C coq %s && coqc -Q coq FFSM2 coq/%s  (Print Assumptions under every theorem)" % (rel + "o", rel))
    if not os.path.exists(path):
        res["detail"] = "no property file %s" % rel
        return res
    src = strip_comments(open(path).read())
    theorems = re.findall(r"^\s*Theorem\s+(\w+)", src, flags=re.M)
    res["theorems"] = theorems; res["obligations"] = len(theorems)
    res["forbidden"] = scan_forbidden()
    r = subprocess.run(["timeout", "3000", "make", "-j%d" % common.JOBS, rel + "o"] + [f + "o" for f in extra_files],
                       cwd=common.COQ, capture_output=True, text=True)
    if r.returncode != 0:
        res["detail"] = "coq build failed:\n" + (r.stdout[-1500:] + r.stderr[-2500:])
        return res
    # recompile the (small) property file itself to read the Print Assumptions output of this very run
    tmpo = os.path.join(common.CACHE, "props"); os.makedirs(tmpo, exist_ok=True)
    r = subprocess.run(["timeout", "600", "coqc", "-Q", ".", "FFSM2", rel, "-o", os.path.join(tmpo, "Properties_%s.vo" % pid)],
                       cwd=common.COQ, capture_output=True, text=True)
    if r.returncode != 0:
        res["detail"] = "property file does not check:\n" + (r.stdout[-1500:] + r.stderr[-2500:])
        return res
    out = r.stdout
    blocks = re.split(r"(?=Closed under the global context|Axioms:)", out)
    closed = out.count("Closed under the global context")
    axiom_blocks = [b for b in blocks if b.startswith("Axioms:")]
    axioms = sorted(set(re.findall(r"^\s*([\w.]+)\s*:", "\n".join(axiom_blocks), flags=re.M)) - {"Axioms"})
    res["axioms"] = {"closed_blocks": closed, "axioms_used": axioms}
    printed = closed + len(axiom_blocks)
    if printed < len(theorems):
        res["detail"] = "only %d Print Assumptions results for %d theorems" % (printed, len(theorems)); return res
    bad_ax = [a for a in axioms if a not in ALLOWED_AXIOMS]
    if bad_ax:
        res["detail"] = "theorems depend on axioms: %s" % ", ".join(bad_ax); return res
    if res["forbidden"]:
        res["detail"] = "forbidden constructs in the development: " + "; ".join(res["forbidden"][:5]); return res
    if tier == "thorough":
        # independent re-check of the compiled property file and everything it depends on
        r = subprocess.run(["timeout", "3000", "coqchk", "-o", "-silent", "-Q", ".", "FFSM2", "FFSM2.Properties.Properties_%s" % pid],
                           cwd=common.COQ, capture_output=True, text=True)
        out = r.stdout + r.stderr
        m = re.search(r"\* Axioms:\s*(.*?)\n\s*\n", out, flags=re.S)
        res["coqchk"] = dict(exit_status=r.returncode, axioms=(m.group(1).strip() if m else "?"))
        res["checker_cmd"] += " ; coqchk -o -silent -Q coq FFSM2 FFSM2.Properties.Properties_%s" % pid
        if r.returncode != 0 or not m or m.group(1).strip() != "<none>":
            res["detail"] = "coqchk does not accept the property file (or reports axioms): " + out[-1500:]; return res
    res["ok"] = True; res["discharged"] = len(theorems)
    return res
