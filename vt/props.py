"""Per-property check definitions: which theorems, which configurations, which generator profile,
which projection and monitor (DESIGN.md section 7)."""
import os, random, json, subprocess, itertools, hashlib, collections, re, shutil, tempfile
from . import common, cfg as cfgmod, gen, corr, trace as T, monitors, proofs, units, engine
from .engine import MachineSpec, Run

FULL = 0x3fff
BASE = gen.Profile()

def pick(rng, xs): return xs[rng.randrange(len(xs))]

def has(lines, pred): return any(pred(l) for l in lines)

# ---------------------------------------------------------------------------------------------- machine-level
def cfgs_lifecycle(tier, rng):
    out = []
    combos = [(h, m) for h in (0, 1) for m in (0, 1)]
    ns = [1, 2, 3, 5] if tier == "quick" else [1, 2, 3, 5, 8, 9]
    for k, (h, m) in enumerate(combos * (1 if tier == "quick" else 3)):
        out.append(cfgmod.make(n=ns[k % len(ns)], head=h, manual=m, limit=pick(rng, [1, 2, 4]), cap=pick(rng, [1, 3]),
                               payload=pick(rng, [0, 2]), plans=k % 2, serial=1, history=1, log="off"))
    return out

P_LIFE = BASE.with_(w_ops=dict(update=8, react=3, query=1, change=5, immChange=6, changeWith=2, immChangeWith=2, succeed=2, fail=1,
                               plan_append=3, plan_clear=1, plan_removeAt=1, loadfrom=2, replayTransition=2, replayEnter=1,
                               exit_enter=4, copy=2, destroy_construct=2, second_instance=1),
                    w_meth=dict(guard=4, phase=3, life=2, plancb=1, query=0),
                    w_act=dict(change=6, changeWith=1, cancel=4, succeed=2, fail=1, plan_append=2, plan_clear=1))

def cfgs_requests(tier, rng):
    out = []
    for k in range(4 if tier == "quick" else 12):
        out.append(cfgmod.make(n=pick(rng, [2, 3, 4, 5]), head=k % 2, manual=(k // 2) % 2, limit=[1, 2, 4, 3][k % 4], cap=2,
                               payload=pick(rng, [0, 2]), plans=0, serial=0, history=1, log="off"))
    return out

P_REQ = BASE.with_(n_tab=(1, 8), w_ops=dict(update=8, react=4, query=0, change=8, immChange=8, changeWith=3, immChangeWith=3, exit_enter=1,
                                            destroy_construct=1, replayTransition=0),
                   w_meth=dict(guard=6, phase=4, life=0, plancb=0, query=0), w_act=dict(change=8, changeWith=2, cancel=5), p_same_dest=0.25)

P_LIMIT = P_REQ.with_(n_tab=(2, 6), p_cond=0.3, w_meth=dict(guard=8, phase=1), w_act=dict(change=10, changeWith=0, cancel=3))

def cfgs_limit(tier, rng):
    out = []
    for k, L in enumerate([1, 2, 3, 4] if tier == "quick" else [1, 2, 3, 4, 8, 1, 2, 4]):
        out.append(cfgmod.make(n=pick(rng, [2, 3, 4]), head=k % 2, manual=(k // 2) % 2, limit=L, plans=0, history=1, log="off"))
    return out

def cfgs_cycle(tier, rng):
    out = []
    for k in range(4 if tier == "quick" else 10):
        out.append(cfgmod.make(n=pick(rng, [1, 2, 3, 5, 9]), head=k % 2, manual=0, limit=2, cap=2, plans=(k // 2) % 2, log="off",
                               defroot=pick(rng, [FULL, FULL, 0x0fff & ~0x8]), defstate=pick(rng, [FULL, FULL, FULL & ~0x10])))
    return out

P_CYCLE = BASE.with_(w_ops=dict(update=10, react=8, query=5, change=4, immChange=3, succeed=1, fail=1, plan_append=2, destroy_construct=0, exit_enter=0),
                     w_meth=dict(guard=2, phase=8, life=1, plancb=1, query=1), w_act=dict(change=5, cancel=1, succeed=4, fail=3, plan_append=2))

def cfgs_views(tier, rng):
    out = []
    for k in range(5 if tier == "quick" else 12):
        out.append(cfgmod.make(n=pick(rng, [1, 2, 3, 4]), head=k % 2, manual=(k // 2) % 2, limit=2, cap=2, ctx=k % 3, payload=pick(rng, [0, 2]),
                               inj_state=pick(rng, [0, 0, 1]), plans=k % 2, history=1, log="on" if k % 2 else "off"))
    return out

P_VIEWS = P_LIFE.with_(w_ops=dict(copy=0, loadfrom=0), w_meth=dict(guard=4, phase=4, life=2, plancb=1, query=2))

PAYLOADS = [1, 2, 3, 4, 5]
def cfgs_payloads(tier, rng):
    out = []
    for k, pk in enumerate(PAYLOADS if tier == "quick" else PAYLOADS * 2):
        out.append(cfgmod.make(n=pick(rng, [2, 3, 4]), head=k % 2, manual=0, limit=pick(rng, [2, 4]), cap=3, payload=pk,
                               plans=(k // 5) % 2 if tier != "quick" else 0, history=1, log="off"))
    if tier != "quick" or True:
        out.append(cfgmod.make(n=3, head=1, manual=0, limit=3, cap=3, payload=2, plans=1, history=1, log="on"))
    return out

P_PAY = P_REQ.with_(w_ops=dict(changeWith=8, immChangeWith=8, change=4, immChange=4, plan_append=2, plan_appendWith=4, succeed=3, copy=1),
                    w_act=dict(change=5, changeWith=8, cancel=3, succeed=3, plan_appendWith=3, plan_append=1),
                    w_meth=dict(guard=6, phase=4, life=1))

def cfgs_plans(tier, rng):
    out = []
    for k in range(5 if tier == "quick" else 14):
        out.append(cfgmod.make(n=pick(rng, [1, 2, 3, 4]), head=1, manual=(k // 2) % 2, limit=pick(rng, [2, 4]), cap=[1, 2, 3, 4][k % 4],
                               payload=pick(rng, [0, 0, 2]), plans=1, serial=k % 2, history=1, log="on"))
    return out

P_PLANS = BASE.with_(n_ops=(10, 36), n_tab=(1, 8), p_logger_at_construct=1.0,
                     w_ops=dict(update=12, react=4, query=0, change=2, immChange=2, succeed=5, fail=2, plan_append=9, plan_appendWith=3, plan_clear=1,
                                plan_removeAt=2, loadfrom=0, exit_enter=1, copy=1, destroy_construct=1, attachLogger=0),
                     w_meth=dict(guard=2, phase=6, life=2, plancb=2, query=0),
                     w_act=dict(change=2, changeWith=0, cancel=2, succeed=8, fail=3, plan_append=5, plan_appendWith=2, plan_clear=1, plan_removeAt=1))

def cfgs_replication(tier, rng):
    out = []
    for k in range(4 if tier == "quick" else 10):
        out.append(cfgmod.make(n=pick(rng, [2, 3, 4, 5]), head=k % 2, manual=(k // 2) % 2, limit=pick(rng, [1, 2, 4]), payload=pick(rng, [0, 2]),
                               plans=0, history=1, serial=0, log="off"))
    return out

P_REPL = P_REQ.with_(w_ops=dict(replayTransition=6, replayEnter=2, exit_enter=3, second_instance=2, copy=1))

def cfgs_serial(tier, rng):
    out = []
    ns = [1, 2, 3, 4, 5, 7, 8, 9] if tier == "quick" else [1, 2, 3, 4, 5, 7, 8, 9, 15, 16, 17, 31, 32, 33]
    for k, n in enumerate(ns):
        out.append(cfgmod.make(n=n, head=k % 2, manual=(k // 2) % 2 if k % 3 else 1, limit=2, cap=2, plans=k % 2, history=(k // 2) % 2, serial=1, log="off"))
    return out

P_SERIAL = BASE.with_(n_ops=(10, 30), w_ops=dict(update=3, react=1, query=0, change=2, immChange=8, loadfrom=10, exit_enter=5, second_instance=6,
                                                  copy=2, destroy_construct=1, plan_append=1, succeed=1),
                      w_meth=dict(guard=3, phase=1, life=1), w_act=dict(change=3, cancel=5))

def cfgs_inject(tier, rng):
    out = []
    ks = [(0, 0), (1, 1), (2, 2), (0, 3), (3, 1)] if tier == "quick" else [(0, 0), (1, 1), (2, 2), (0, 3), (3, 1), (4, 4), (1, 0), (2, 1)]
    for k, (ir, is_) in enumerate(ks):
        out.append(cfgmod.make(n=pick(rng, [1, 2, 3]), head=1, manual=k % 2, limit=2, cap=2, inj_root=ir, inj_state=is_, plans=k % 2, log="off"))
    return out

P_INJ = BASE.with_(w_ops=dict(update=8, react=6, query=3, change=5, immChange=8, exit_enter=3), p_same_dest=0.4,
                   w_meth=dict(guard=3, phase=3, life=1), w_act=dict(change=5, cancel=3))

def cfgs_logging(tier, rng):
    out = []
    masks = [(FULL, FULL), (0, 0), (0x0aaa, 0x0555), (FULL, 0)]
    for k in range(6 if tier == "quick" else 14):
        dr, ds = masks[k % len(masks)]
        out.append(cfgmod.make(n=pick(rng, [1, 2, 3]), head=(k // 2) % 2 if k % 5 else 1, manual=k % 2, limit=2, cap=2, payload=pick(rng, [0, 2]),
                               inj_state=pick(rng, [0, 0, 1]), inj_root=pick(rng, [0, 0, 1]), plans=1 if k % 3 else 0, history=k % 2,
                               log=["on", "verbose"][k % 2], defroot=dr, defstate=ds))
    return out

P_LOG = P_LIFE.with_(w_ops=dict(attachLogger=5, succeed=3, fail=2, plan_append=3, copy=1, loadfrom=0),
                     w_act=dict(change=6, changeWith=1, cancel=4, succeed=4, fail=2, plan_append=2), p_logger_at_construct=0.6,
                     w_meth=dict(guard=4, phase=4, life=1, plancb=1, query=1))

def life_cb(l): return l.kind == "cb" and l.meth in T.LIFE
def guard_cb(l): return l.kind == "cb" and l.meth in T.GUARD

SPECS = {
    "C01": MachineSpec("C01", T.p_C01, P_LIFE, cfgs_lifecycle, lambda t: 60 if t == "quick" else 400,
                       lambda ls, c: sum(1 for l in ls if life_cb(l)) >= 4),
    "C02": MachineSpec("C02", T.p_C02, P_REQ, cfgs_requests, lambda t: 100 if t == "quick" else 600,
                       lambda ls, c: has(ls, guard_cb) and has(ls, lambda l: l.kind == "did" and l.act[0].startswith("change"))),
    "C03": MachineSpec("C03", T.p_C03, P_REQ, cfgs_requests, lambda t: 100 if t == "quick" else 600,
                       lambda ls, c: has(ls, lambda l: l.kind == "did" and l.act[0] == "cancel" and l.res == "ok")),
    "C04": MachineSpec("C04", T.p_C04, P_LIMIT, cfgs_limit, lambda t: 100 if t == "quick" else 500,
                       lambda ls, c: max([sum(1 for _, e in cl.ev if e.kind == "cb" and e.meth == "exitGuard") for cl in monitors.calls(ls)] or [0]) >= c["limit"]),
    "C05": MachineSpec("C05", T.p_C05, P_CYCLE, cfgs_cycle, lambda t: 80 if t == "quick" else 400,
                       lambda ls, c: has(ls, lambda l: l.kind == "did" and l.res == "ok") and has(ls, lambda l: l.kind == "cb" and l.meth in T.PHASE)),
    "C06": MachineSpec("C06", T.p_C06, P_VIEWS, cfgs_views, lambda t: 60 if t == "quick" else 300,
                       lambda ls, c: has(ls, guard_cb) and has(ls, lambda l: l.kind == "did" and l.act[0].startswith("change") and l.res == "ok")),
    "C07": MachineSpec("C07", T.p_C07, P_PAY, cfgs_payloads, lambda t: 60 if t == "quick" else 300,
                       lambda ls, c: has(ls, lambda l: l.kind == "cb" and l.meth in ("enter", "reenter") and l.f.get("cur", "-")[-1:] not in ("-", ""))),
    "C08": MachineSpec("C08", T.p_C08, P_PLANS, cfgs_plans, lambda t: 80 if t == "quick" else 400,
                       lambda ls, c: has(ls, lambda l: l.kind == "log" and l.what == "transition" and l.args[0] != "255")),
    "C09": MachineSpec("C09", T.p_C09, P_PLANS, cfgs_plans, lambda t: 80 if t == "quick" else 400,
                       lambda ls, c: has(ls, lambda l: l.kind == "cb" and l.meth in T.PLANCB)),
    "C11": MachineSpec("C11", T.p_C11, P_REPL, cfgs_replication, lambda t: 80 if t == "quick" else 400,
                       lambda ls, c: has(ls, lambda l: l.kind == "obs" and l.f.get("prev", "-") != "-")),
    "C12": MachineSpec("C12", T.p_C12, P_SERIAL, cfgs_serial, lambda t: 40 if t == "quick" else 200,
                       lambda ls, c: has(ls, lambda l: l.kind == "api" and l.op == "loadfrom")),
    "C15": MachineSpec("C15", T.p_C15, P_INJ, cfgs_inject, lambda t: 50 if t == "quick" else 250,
                       lambda ls, c: has(ls, lambda l: l.kind == "cb" and l.rec != "own")),
    "C16": MachineSpec("C16", T.p_C16, P_LOG, cfgs_logging, lambda t: 50 if t == "quick" else 250,
                       lambda ls, c: has(ls, lambda l: l.kind == "log")),
}

# C10 at the machine level: the plan seen through plan()/control.plan()
SPEC_C10_MACHINE = MachineSpec("C10", T.p_C10, P_PLANS.with_(w_ops=dict(plan_append=14, plan_removeAt=6, plan_clear=2, exit_enter=3, succeed=6),
                                                               w_act=dict(plan_append=8, plan_removeAt=3, plan_clear=2, succeed=6)),
                               cfgs_plans, lambda t: 60 if t == "quick" else 300,
                               lambda ls, c: has(ls, lambda l: (l.kind == "did" and l.act[0] == "plan.append" and l.res == "full") or (l.kind == "api" and l.op == "plan.removeAt")))

# ---------------------------------------------------------------------------------------------- unit-level
from . import unitcheck

def check_C13(run):
    rng = run.rng; q = run.tier == "quick"
    lines = units.gen_bitstream(rng, 300 if q else 3000, True) + units.gen_bitwidth(rng, 200 if q else 5000)
    unitcheck.run(run, lines)
    return dict(rule="operation lists for StreamBufferT/BitWriteStreamT/BitReadStreamT over every (offset mod 8, width) pair x 4 value patterns plus random "
                     "field sequences for 25 capacities up to 255 bits, and bitWidth() on powers of two +-1, 1..259 and random 32-bit values; a case is one "
                     "input line; distinct non-trivial = distinct model result blocks with more than three result lines",
                explanation="")

def check_C20(run):
    rng = run.rng; q = run.tier == "quick"
    lines = units.gen_bitarray(rng, 300 if q else 3000) + units.gen_arrays(rng, 300 if q else 3000)
    unitcheck.run(run, lines)
    return dict(rule="operation lists for BitArrayT, StaticArrayT<int>, DynamicArrayT<int> over 25 capacities (1..255; indices aimed at multiples of 8, "
                     "set-all then clear-each for every capacity, and-assign with sparse masks, fill to capacity 255); distinct non-trivial = distinct model "
                     "result blocks with more than three result lines", explanation="")

DP_QUICK = list(range(1, 18)) + [31, 32, 33, 63, 64, 65]
DP_MID = [127, 128, 129]
DP_BIG = [254, 255]

def oracle_dp(n, head, out):
    L = out.splitlines()
    if not L or not L[0].startswith("n=%d head=%d rootId=255 construct:" % (n, head)): return "header line: %s" % (L[:1],)
    if " enter=0/0" not in L[0] or not L[0].endswith("active=0"): return "construction did not enter the first declared state: " + L[0]
    if len(L) != n + 1: return "expected %d probe lines, got %d" % (n, len(L) - 1)
    prev = 0
    for k in range(n):
        t = L[k + 1].split(" ")
        exp = ["k=%d" % k, "exitGuard=%d/%d" % (prev, prev), "entryGuard=%d/%d" % (k, k)]
        exp += ["reenter=%d/%d" % (k, k)] if prev == k else ["exit=%d/%d" % (prev, prev), "enter=%d/%d" % (k, k)]
        exp += ["%s=%d/%d" % (m, k, k) for m in ("preUpdate", "update", "postUpdate", "preReact", "react", "postReact", "query")]
        exp += ["sid=%d" % k, "self=1", "active=%d" % k, "isActive=11"]
        if t != exp: return "changeTo(%d) with %d states: got [%s], expected [%s]" % (k, n, L[k + 1], " ".join(exp))
        prev = k
    return None

def check_C14(run):
    tier = run.tier
    ns = list(DP_QUICK) if tier == "quick" else list(range(1, 256))
    src = os.path.join(common.HARNESS, "dispatch_harness.cpp")
    jobs = [(n, h, v) for n in ns for h in (1, 0) for v in ("include", "development")]
    if tier == "quick":
        jobs += [(n, 1, "include") for n in DP_MID] + [(255, 1, "development"), (254, 0, "include")]
    def one(j):
        n, h, v = j
        b, log = common.build_binary(src, ["-DH_N=%d" % n, "-DH_HEAD=%d" % h], v)
        if b is None: return j, None, log, None
        rc, out, err = common.run_proc([b], "", timeout=60)
        mrc, mout, merr = common.run_proc([common.model_runner(), "dp", str(n), str(h)], "", timeout=120)
        return j, (rc, out, err), None, (mrc, mout, merr)
    # big machines need about 1 GB of compiler memory each: bound the parallelism by size
    small = [j for j in jobs if j[0] <= 130]; big = [j for j in jobs if j[0] > 130]
    res = common.pmap(one, small) + common.pmap(one, big, jobs=6)
    for j, impl, log, model in res:
        n, h, v = j; cfgname = "dispatch_harness n=%d head=%d %s" % (n, h, v)
        run.configs.append(cfgname); run.evaluations += n
        if impl is None:
            run.divergences.append(dict(what="the dispatch harness does not compile against the working tree", reason=log[-3000:], cfg=cfgname, variant=v)); continue
        rc, out, err = impl; mrc, mout, merr = model
        run.traces_validated += 1; run.dist["n<=17" if n <= 17 else "n<=65" if n <= 65 else "n<=129" if n <= 129 else "n>=130"] += 1
        script = "dispatch_harness -DH_N=%d -DH_HEAD=%d (%s header): changeTo(k), update(), react(), query() for every k" % (n, h, v)
        if rc != 0:
            run.violations.append(dict(reason="implementation run failed (exit status %s): %s" % (rc, err[-800:]), script=script, cfg=cfgname, variant=v)); continue
        rej = oracle_dp(n, h, out)
        if rej:
            run.violations.append(dict(reason="dispatch reaches the wrong state: " + rej, script=script, cfg=cfgname, variant=v, impl=out[-2000:], monitor=True)); continue
        if mrc != 0 or out != mout:
            il = out.splitlines(); ml = mout.splitlines()
            i = next((x for x in range(min(len(il), len(ml))) if il[x] != ml[x]), min(len(il), len(ml)))
            run.divergences.append(dict(what="dispatch trace comparison", script=script, cfg=cfgname, variant=v,
                                        reason="line %d: implementation [%s] model [%s] %s" % (i, il[i] if i < len(il) else "<end>", ml[i] if i < len(ml) else "<end>", merr[-200:])))
        for l in mout.splitlines()[1:]:
            run.distinct.add((n, h, l))
        if len(run.samples) < 2 and n in (5, 33): run.samples.append(dict(cfg=cfgname, trace=mout.splitlines()[:6]))
    run.violations.sort(key=lambda v: len(v.get("impl", "")))
    return dict(rule="one machine per state count N (quick: 1..17, 31..33, 63..65 with and without head, both header variants, plus 127..129, 254, 255 once; thorough: every N in 1..255 "
                     "x head x variant); for every k < N: immediateChangeTo(k), update(), react(), query() - all twelve callback kinds; an evaluation is one (N, k) probe; distinct non-trivial = distinct (N, head, probe line)",
                explanation="", exhaustive=(tier != "quick"))

def check_C10(run):
    rng = run.rng; q = run.tier == "quick"
    lines = units.gen_tasklist(rng, 400 if q else 4000)
    unitcheck.run(run, lines)
    engine.run_machine(run, SPEC_C10_MACHINE)
    return dict(rule="(a) TaskListT<void, C> operation lists (emplace/remove/clear; styles: mixed, fill-drain in random order, full-cycle) for C in {1,2,3,4,5,8,255}, "
                     "slot indices and slot contents compared; (b) generated machine scripts with plans on (capacities 1..4) whose plan is edited through plan()/control.plan(), "
                     "consumed by firing and cleared by plan outcomes, compared with the model under the C10 projection; non-trivial = hits a full plan or removes through an iterator",
                explanation="")

# ---------------------------------------------------------------------------------------------- dispatch
LEVEL_TEXT = {
    "proof": "Coq theorems over the executable model for all inputs/histories/sizes (kernel-checked, axiom-free), tied to /repo's working tree by a correspondence "
             "run of the extracted model against the real classes on generated inputs; a property monitor / abstract oracle over implementation results turns a "
             "broken correspondence into a concrete failing input",
}

def machine_check(pid):
    def f(run):
        spec = SPECS[pid]
        engine.run_machine(run, spec)
        return dict(rule="generated scripts (callback table + API history, profile '%s') on the configurations listed; every script runs on the implementation "
                         "(both header variants) and on the extracted model, traces compared under the %s projection and the %s monitor applied to the implementation's "
                         "trace; distinct non-trivial = distinct projected model traces that contain the events the property is about" % (pid, pid, pid), explanation="")
    return f

CHECKS = {"C10": check_C10, "C13": check_C13, "C14": check_C14, "C20": check_C20}
for _pid in SPECS: CHECKS[_pid] = machine_check(_pid)

def run_check(pid, tier, seed):
    run = Run(pid, tier, seed)
    run.proof = proofs.check_property(pid)
    info = CHECKS[pid](run)
    run.extra.update({k: v for k, v in info.items() if k not in ("rule", "explanation")})
    level = info.get("level", "proof")
    return engine.finish(run, level, LEVEL_TEXT.get(level, ""), info["rule"], info.get("explanation", ""))
