"""Per-property check definitions: which theorems, which configurations, which generator profile,
which projection and monitor (DESIGN.md section 7)."""
import os, sys, random, json, subprocess, itertools, hashlib, collections, re, shutil, tempfile
from . import common, cfg as cfgmod, gen, corr, trace as T, monitors, proofs, units, engine
from .engine import MachineSpec, Run

FULL = 0x3fff
BASE = gen.Profile()

def pick(rng, xs): return xs[rng.randrange(len(xs))]

def has(lines, pred): return any(pred(l) for l in lines)

# ---------------------------------------------------------------------------------------------- machine-level
def cfgs_lifecycle(tier, rng):
    out = []
    combos = [(h, m) for h in (0, 1) for m in (0, 1)]
    ns = [1, 2, 3, 5] if tier == "quick" else [1, 2, 3, 5, 8, 9]
    for k, (h, m) in enumerate(combos * (1 if tier == "quick" else 3)):
        out.append(cfgmod.make(n=ns[k % len(ns)], head=h, manual=m, limit=pick(rng, [1, 2, 4]), cap=pick(rng, [1, 3]),
                               payload=pick(rng, [0, 2]), plans=k % 2, serial=1, history=1, log="off"))
    # states and root head with two / three injected bases (the variadic injection chain), configuration options chained in the reverse order
    out.append(cfgmod.make(n=3, head=1, manual=0, limit=2, cap=2, payload=0, plans=1, serial=0, history=1, log="off", inj_state=2, inj_root=2, order=1))
    out.append(cfgmod.make(n=2, head=1, manual=1, limit=2, cap=3, payload=2, plans=0, serial=1, history=1, log="off", inj_state=3, inj_root=0))
    return out

P_LIFE = BASE.with_(w_ops=dict(update=8, react=3, query=1, change=5, immChange=6, changeWith=2, immChangeWith=2, succeed=2, fail=1,
                               plan_append=3, plan_clear=1, plan_removeAt=1, loadfrom=2, replayTransition=2, replayEnter=1,
                               exit_enter=4, copy=2, destroy_construct=2, second_instance=1),
                    w_meth=dict(guard=4, phase=3, life=2, plancb=1, query=0),
                    w_act=dict(change=6, changeWith=1, cancel=4, succeed=2, fail=1, plan_append=2, plan_clear=1))

def cfgs_requests(tier, rng):
    out = [cfgmod.make(n=3, head=1, manual=0, limit=3, cap=2, payload=0, plans=0, history=1, log="off", inj_state=1, inj_root=1),
           # requests are also made "by a plan" and while task statuses are being reported: the same profile with plans compiled in
           cfgmod.make(n=3, head=1, manual=0, limit=2, cap=4, payload=0, plans=1, history=1, log="off"),
           cfgmod.make(n=4, head=1, manual=1, limit=3, cap=1, payload=2, plans=1, history=1, log="off", order=1),
           # two / three injected bases on every state and on the root head: every one of them is consulted as a guard, in order
           cfgmod.make(n=3, head=1, manual=0, limit=2, cap=2, payload=0, plans=0, history=1, log="off", inj_state=2, inj_root=2),
           cfgmod.make(n=2, head=0, manual=1, limit=3, cap=2, payload=2, plans=0, history=1, log="off", inj_state=3, order=1)]
    for k in range(4 if tier == "quick" else 12):
        out.append(cfgmod.make(n=pick(rng, [2, 3, 4, 5]), head=k % 2, manual=(k // 2) % 2, limit=[1, 2, 4, 3][k % 4], cap=2,
                               payload=pick(rng, [0, 2]), plans=0, serial=0, history=1, log="off"))
    return out

P_REQ = BASE.with_(n_tab=(1, 8), w_ops=dict(update=8, react=4, query=0, change=8, immChange=8, changeWith=3, immChangeWith=3, exit_enter=1,
                                            destroy_construct=1, replayTransition=2),
                   w_meth=dict(guard=6, phase=4, life=0, plancb=0, query=0), w_act=dict(change=8, changeWith=2, cancel=5), p_same_dest=0.25)

P_LIMIT = P_REQ.with_(n_tab=(2, 6), p_cond=0.3, w_meth=dict(guard=8, phase=1), w_act=dict(change=10, changeWith=0, cancel=3))

def cfgs_limit(tier, rng):
    out = []
    for k, L in enumerate([1, 2, 3, 4] if tier == "quick" else [1, 2, 3, 4, 8, 1, 2, 4]):
        out.append(cfgmod.make(n=pick(rng, [2, 3, 4]), head=k % 2, manual=(k // 2) % 2, limit=L, plans=0, history=1, log="off"))
    # the limit must not depend on the other configuration options: plans compiled in with a task capacity above / below the limit, options chained
    # in either order; one machine whose states have two injected bases (each of them a guard of its own)
    out.append(cfgmod.make(n=3, head=1, manual=0, limit=2, cap=5, plans=1, history=1, log="off"))
    out.append(cfgmod.make(n=3, head=0, manual=1, limit=3, cap=1, plans=1, payload=2, history=1, log="off", order=1))
    out.append(cfgmod.make(n=2, head=1, manual=0, limit=4, cap=2, plans=1, history=0, log="off", order=1))
    out.append(cfgmod.make(n=3, head=1, manual=1, limit=2, cap=2, plans=0, history=1, log="off", inj_state=2, inj_root=1))
    return out

def cfgs_limit_extreme():
    return [cfgmod.make(n=2, head=0, manual=1, limit=255, plans=0, history=1, log="off"),        # the largest limit there is (the loop counter is 8 bits wide)
            cfgmod.make(n=2, head=1, manual=0, limit=255, cap=2, plans=1, history=0, log="off", order=1)]

def ping_pong(tier):
    """two states whose guards bounce every request to each other for ever: every activation, immediate change, update() and react() must still come
    back after exactly the configured number of rounds - for the smallest and the largest limits too"""
    out = []
    for c in cfgs_limit(tier, random.Random(0)) + cfgs_limit_extreme():       # (the limit-255 machines run these scripts only)
        if c["n"] < 2 or c["inj_state"]: continue
        for cancel in (False, True):
            lines = [cfgmod.cfg_line(c), "tab * S0 own entryGuard  : %schange 1" % ("cancel ; " if cancel else ""), "tab * S1 own entryGuard  : %schange 0" % ("cancel ; " if cancel else ""),
                     "tab * S0 own exitGuard pend=1 : change 1", "op construct 0 0 00"] + (["op enter 0"] if c["manual"] else []) + \
                    ["op immChange 0 1", "op update 0", "op react 0", "op change 0 0", "op update 0"] + (["op exit 0", "op enter 0", "op update 0"] if c["manual"] else [])
            out.append((c, "\n".join(lines) + "\n", "template:ping-pong"))
    return out

def cfgs_cycle(tier, rng):
    out = [cfgmod.make(n=2, head=1, manual=0, limit=2, cap=2, plans=0, log="off", inj_state=1, inj_root=1, defroot=0x0555, defstate=0x0aaa & ~0x200),   # one injected base, classes define only some callbacks (query/preReact/... inherited)
           cfgmod.make(n=3, head=1, manual=0, limit=2, cap=2, plans=1, log="off", inj_state=1, defstate=0),
           # two and three injected bases (the variadic injection chain: every phase callback and query reaches each of them once, in order)
           cfgmod.make(n=2, head=1, manual=0, limit=2, cap=2, plans=0, log="off", inj_state=2, inj_root=2),
           cfgmod.make(n=3, head=1, manual=0, limit=2, cap=2, plans=1, log="off", inj_state=3, inj_root=0, order=1),
           cfgmod.make(n=130, head=1, manual=0, limit=2, cap=2, plans=0, log="off")]          # more than 128 states: every level of the dispatch tree, ids that need 8 bits
    for k in range(4 if tier == "quick" else 10):
        out.append(cfgmod.make(n=pick(rng, [1, 2, 3, 5, 9]), head=k % 2, manual=0, limit=2, cap=2, plans=(k // 2) % 2, log="off",
                               defroot=pick(rng, [FULL, FULL, 0x0fff & ~0x8]), defstate=pick(rng, [FULL, FULL, FULL & ~0x10])))
    return out

P_CYCLE = BASE.with_(w_ops=dict(update=10, react=8, query=5, change=4, immChange=3, succeed=1, fail=1, plan_append=2, destroy_construct=0, exit_enter=0),
                     w_meth=dict(guard=2, phase=8, life=1, plancb=1, query=1), w_act=dict(change=5, cancel=1, succeed=4, fail=3, plan_append=2))

def cfgs_views(tier, rng):
    out = []
    for k in range(5 if tier == "quick" else 12):
        out.append(cfgmod.make(n=pick(rng, [1, 2, 3, 4]), head=k % 2, manual=(k // 2) % 2, limit=2, cap=2, ctx=k % 4 if k < 4 else k % 3, payload=pick(rng, [0, 2]),
                               inj_state=pick(rng, [0, 0, 1]), plans=k % 2, history=1, log="on" if k % 2 else "off"))
    out.append(cfgmod.make(n=3, head=1, manual=0, limit=2, cap=2, ctx=0, payload=2, inj_state=2, inj_root=2, plans=1, history=1, log="off", order=1))   # every injected base gets its own control view
    return out

P_VIEWS = P_LIFE.with_(w_ops=dict(copy=0, loadfrom=0), w_meth=dict(guard=4, phase=4, life=2, plancb=1, query=2))

PAYLOADS = [1, 2, 3, 4, 5]
def cfgs_payloads(tier, rng):
    out = []
    for k, pk in enumerate(PAYLOADS if tier == "quick" else PAYLOADS * 2):
        out.append(cfgmod.make(n=pick(rng, [2, 3, 4]), head=k % 2, manual=0, limit=pick(rng, [2, 4]), cap=3, payload=pk,
                               plans=(k // 5) % 2 if tier != "quick" else 0, history=1, log="off"))
    if tier != "quick" or True:
        out.append(cfgmod.make(n=3, head=1, manual=0, limit=3, cap=3, payload=2, plans=1, history=1, log="on"))
        out.append(cfgmod.make(n=3, head=1, manual=1, limit=2, cap=2, payload=4, plans=1, history=1, log="off", inj_state=2, order=1))   # payloads seen by injected guards / enter callbacks, options in reverse order
    return out

P_PAY = P_REQ.with_(w_ops=dict(changeWith=8, immChangeWith=8, change=4, immChange=4, plan_append=2, plan_appendWith=4, succeed=3, copy=1),
                    w_act=dict(change=5, changeWith=8, cancel=3, succeed=3, plan_appendWith=3, plan_append=1),
                    w_meth=dict(guard=6, phase=4, life=1))

def cfgs_plans(tier, rng):
    out = []
    for k in range(5 if tier == "quick" else 14):
        out.append(cfgmod.make(n=pick(rng, [1, 2, 3, 4]), head=1, manual=(k // 2) % 2, limit=pick(rng, [2, 4]), cap=[1, 2, 3, 4][k % 4],
                               payload=pick(rng, [0, 0, 2]), plans=1, serial=k % 2, history=1, log="on"))
    out.append(cfgmod.make(n=8, head=1, manual=0, limit=2, cap=3, payload=0, plans=1, serial=0, history=1, log="on"))      # per-state bit sets exactly one byte long
    out.append(cfgmod.make(n=3, head=1, manual=0, limit=2, cap=2, payload=2, plans=1, serial=1, history=1, log="off"))     # no logger: origins of plan-issued requests are still visible to guards and history
    out.append(cfgmod.make(n=3, head=1, manual=0, limit=3, cap=2, payload=2, plans=1, serial=0, history=1, log="on", inj_state=2, inj_root=2, order=1))   # reports and plan edits from injected bases
    out.append(cfgmod.make(n=130, head=1, manual=0, limit=2, cap=3, payload=0, plans=1, serial=0, history=1, log="on"))    # state ids above 127: 17 bytes of report bits, ids that do not fit 7 bits
    out.append(cfgmod.make(n=3, head=1, manual=1, limit=2, cap=0, payload=0, plans=1, serial=0, history=0, log="on"))      # no TaskCapacityN<>: the capacity is the number of states
    if tier != "quick":
        out.append(cfgmod.make(n=255, head=1, manual=0, limit=2, cap=0, payload=0, plans=1, serial=0, history=0, log="on"))  # ... 255 states: CAPACITY == INVALID_LONG, the largest there is
    return out

def cfgs_plans9(tier, rng):
    # planSucceeded/planFailed "never on a machine without a task since activation": needs re-activation (manual enter/exit, load), both payload-free and payload plans
    out = []
    for k in range(6 if tier == "quick" else 16):
        out.append(cfgmod.make(n=pick(rng, [1, 2, 3]), head=1, manual=1 if k % 3 else 0, limit=pick(rng, [2, 4]), cap=[1, 2, 3][k % 3],
                               payload=[0, 2, 0][k % 3], plans=1, serial=k % 2, history=1, log="on"))
    out.append(cfgmod.make(n=70, head=1, manual=1, limit=2, cap=2, payload=2, plans=1, serial=0, history=1, log="on"))     # report bits spanning nine bytes, payload plans
    out.append(cfgmod.make(n=2, head=1, manual=1, limit=4, cap=3, payload=0, plans=1, serial=1, history=0, log="on", inj_state=2, inj_root=1, order=1))
    return out

P_PLANS = BASE.with_(n_ops=(10, 36), n_tab=(1, 8), p_logger_at_construct=1.0,
                     w_ops=dict(update=12, react=4, query=0, change=2, immChange=2, succeed=5, fail=2, plan_append=9, plan_appendWith=3, plan_clear=1,
                                plan_removeAt=2, loadfrom=0, exit_enter=1, copy=1, destroy_construct=1, attachLogger=0),
                     w_meth=dict(guard=2, phase=6, life=2, plancb=2, query=0),
                     w_act=dict(change=2, changeWith=0, cancel=2, succeed=8, fail=3, plan_append=5, plan_appendWith=2, plan_clear=1, plan_removeAt=1))

def cfgs_replication(tier, rng):
    out = []
    for k in range(4 if tier == "quick" else 10):
        out.append(cfgmod.make(n=pick(rng, [2, 3, 4, 5]), head=k % 2, manual=(k // 2) % 2, limit=pick(rng, [1, 2, 4]), payload=pick(rng, [0, 2]),
                               plans=0, history=1, serial=0, log="off"))
    out.append(cfgmod.make(n=3, head=1, manual=1, limit=2, cap=2, payload=2, plans=1, history=1, serial=1, log="off", inj_state=2, order=1))   # plans and serialization compiled in, injected bases, options reversed
    out.append(cfgmod.make(n=4, head=1, manual=0, limit=2, cap=3, payload=3, plans=1, history=1, serial=0, log="off"))      # the history also records what a plan requested: tasks with and without payloads, slots reused
    return out

P_REPL = P_REQ.with_(w_ops=dict(replayTransition=6, replayEnter=2, exit_enter=3, second_instance=2, copy=1))

def cfgs_serial(tier, rng):
    out = []
    ns = [1, 2, 3, 4, 5, 7, 8, 9, 128] if tier == "quick" else [1, 2, 3, 4, 5, 7, 8, 9, 15, 16, 17, 31, 32, 33, 63, 64, 65, 127, 128, 129, 255]
    for k, n in enumerate(ns):
        out.append(cfgmod.make(n=n, head=k % 2, manual=(k // 2) % 2 if k % 3 else 1, limit=2, cap=2, plans=1 if n >= 64 else k % 2, history=(k // 2) % 2, serial=1, log="off"))
    return out

P_SERIAL = BASE.with_(n_ops=(10, 30), w_ops=dict(update=3, react=1, query=0, change=2, immChange=8, loadfrom=10, exit_enter=5, second_instance=6,
                                                  copy=2, destroy_construct=1, plan_append=1, succeed=1),
                      w_meth=dict(guard=3, phase=1, life=1), w_act=dict(change=3, cancel=5))

def cfgs_inject(tier, rng):
    out = []
    ks = [(0, 0), (1, 1), (2, 2), (0, 3), (3, 1)] if tier == "quick" else [(0, 0), (1, 1), (2, 2), (0, 3), (3, 1), (4, 4), (1, 0), (2, 1)]
    for k, (ir, is_) in enumerate(ks):
        out.append(cfgmod.make(n=pick(rng, [1, 2, 3]), head=1, manual=k % 2, limit=2, cap=2, inj_root=ir, inj_state=is_, plans=k % 2, log="off"))
    # exactly one injection and classes that define only some (or none) of the callbacks: the inherited ones must run once, not twice
    out.append(cfgmod.make(n=2, head=1, manual=0, limit=2, cap=2, inj_root=1, inj_state=1, plans=0, log="off", defroot=0, defstate=0))
    out.append(cfgmod.make(n=3, head=1, manual=1, limit=2, cap=2, inj_root=1, inj_state=1, plans=0, log="off", defroot=0x0aaa, defstate=0x0555))
    # injected bases whose callbacks are virtual and overridden by the state (all / some / none of them): delivery is to the base itself, never to the final overrider
    out.append(cfgmod.make(n=2, head=1, manual=0, limit=2, cap=2, inj_root=2, inj_state=2, plans=1, log="off", virt=1))
    out.append(cfgmod.make(n=3, head=1, manual=1, limit=2, cap=2, inj_root=1, inj_state=1, plans=0, log="off", defroot=0x0aaa, defstate=0x0555, virt=1))
    out.append(cfgmod.make(n=2, head=1, manual=0, limit=2, cap=2, inj_root=1, inj_state=1, plans=0, log="on", defroot=0, defstate=0, virt=1))
    return out

P_INJ = BASE.with_(w_ops=dict(update=8, react=6, query=3, change=5, immChange=8, exit_enter=3), p_same_dest=0.4,
                   w_meth=dict(guard=3, phase=3, life=1), w_act=dict(change=5, cancel=3))

def cfgs_logging(tier, rng):
    out = []
    masks = [(FULL, FULL), (0, 0), (0x0aaa, 0x0555), (FULL, 0), (FULL & ~0x2000, FULL), (FULL & ~0x1000, 0x0555)]      # (the last two: a head that defines only one of planSucceeded / planFailed)
    for k in range(8 if tier == "quick" else 18):
        dr, ds = masks[k % len(masks)]
        out.append(cfgmod.make(n=pick(rng, [1, 2, 3]), head=(k // 2) % 2 if k % 5 else 1, manual=k % 2, limit=2, cap=2, payload=pick(rng, [0, 2]),
                               inj_state=pick(rng, [0, 0, 1]), inj_root=pick(rng, [0, 0, 1]), plans=1 if k % 3 else 0, history=k % 2,
                               log=["on", "verbose"][k % 2], defroot=dr, defstate=ds))
    # a head that defines only one of the two plan outcome callbacks (non-verbose logging decides per callback whether to record)
    out.append(cfgmod.make(n=2, head=1, manual=0, limit=2, cap=2, payload=0, plans=1, history=0, log="on", defroot=FULL & ~0x2000, defstate=FULL))
    out.append(cfgmod.make(n=2, head=1, manual=1, limit=2, cap=2, payload=0, plans=1, history=0, log="on", defroot=FULL & ~0x1000, defstate=FULL))
    out.append(cfgmod.make(n=2, head=1, manual=0, limit=2, cap=2, payload=0, plans=1, history=1, log="verbose", inj_state=2, inj_root=2, order=1))
    out.append(cfgmod.make(n=3, head=0, manual=1, limit=2, cap=2, payload=2, plans=0, history=0, log="on", inj_state=3))
    # state classes whose callbacks are const member functions (the method records must still name the method delivered)
    out.append(cfgmod.make(n=3, head=1, manual=0, limit=2, cap=2, payload=0, plans=1, history=0, log="on", constcb=1))
    out.append(cfgmod.make(n=2, head=1, manual=1, limit=2, cap=2, payload=2, plans=0, history=1, log="on", inj_state=1, constcb=1))
    # logging compiled out: the same scripts must give the same callbacks and states (compared with the model under log=off)
    out.append(cfgmod.make(n=3, head=1, manual=0, limit=2, cap=3, payload=0, plans=1, history=1, log="off"))
    out.append(cfgmod.make(n=2, head=1, manual=1, limit=2, cap=2, payload=2, plans=1, history=1, log="off"))
    return out

P_LOG = P_LIFE.with_(w_ops=dict(attachLogger=5, succeed=3, fail=2, plan_append=3, copy=1, loadfrom=0),
                     w_act=dict(change=6, changeWith=1, cancel=4, succeed=4, fail=2, plan_append=2), p_logger_at_construct=0.6,
                     w_meth=dict(guard=4, phase=4, life=1, plancb=1, query=1))


# ---- small-scope exhaustive guard decisions (thorough tier of C02/C03/C04): every assignment of a decision to four guards
DECISIONS = ["", "cancel", "change 0", "change 1", "change 2", "cancel ; change 0", "cancel ; change 1", "cancel ; change 2"]
def guard_trees(tier):
    if tier == "quick": return []
    out = []
    for L in (1, 2, 3):
        c = cfgmod.make(n=3, head=0, manual=0, limit=L, plans=0, history=1, log="off")
        guards = [("S0", "exitGuard"), ("S1", "entryGuard"), ("S2", "entryGuard"), ("S0", "entryGuard")]
        for d in itertools.product(range(len(DECISIONS)), repeat=4):
            if L != 2 and (d[0] + d[3]) % 3: continue            # the full 8^4 for limit 2, a third of it for limits 1 and 3
            lines = [cfgmod.cfg_line(c)]
            for (w, m), k in zip(guards, d):
                if DECISIONS[k]: lines.append("tab * %s own %s  : %s" % (w, m, DECISIONS[k]))
            lines += ["op construct 0 0 00", "op immChange 0 1", "op change 0 2", "op update 0", "op immChange 0 0"]
            out.append((c, "\n".join(lines) + "\n", "enumerated"))
    return out

# ---- hand-shaped histories for the plan properties: reports that stay latched across a plan step / across an exit
def plan_templates(tier):
    out = []
    for (n, pay, manual) in ((3, 0, 0), (8, 0, 0), (16, 2, 1), (9, 2, 0), (5, 0, 1)) if tier == "quick" else ((3, 0, 0), (8, 0, 0), (16, 2, 1), (9, 2, 0), (5, 0, 1), (24, 0, 0), (17, 0, 1), (32, 2, 0)):
        c = cfgmod.make(n=n, head=1, manual=manual, limit=2, cap=4, payload=pay, plans=1, serial=0, history=1, log="on")
        pre = [cfgmod.cfg_line(c), "op construct 0 1 00"] + (["op enter 0"] if manual else [])
        for (a1, a2) in ((1, 2), (n - 1, 1), (n // 2, n - 1)):
            if len({0, a1, a2}) < 3: continue
            # a success reported for a state that is not active yet must survive the plan step that brings the machine there
            out.append((c, "\n".join(pre + ["op plan.append 0 0 %d" % a1, "op plan.append 0 %d %d" % (a1, a2), "op succeed 0 %d" % a1, "op succeed 0 0",
                                             "op update 0", "op update 0", "op update 0"]) + "\n", "template:latched-success"))
            # ... also when reported for several states at once
            out.append((c, "\n".join(pre + ["op succeed 0 %d" % a2, "op succeed 0 %d" % a1, "op plan.append 0 0 %d" % a1, "op plan.append 0 %d %d" % (a1, a2), "op plan.append 0 %d 0" % a2,
                                             "op succeed 0 0", "op update 0", "op update 0", "op update 0", "op update 0"]) + "\n", "template:latched-success-3"))
            # a failure reported while no plan exists is dropped when the state is left: it must not fail a plan made later
            out.append((c, "\n".join(pre + ["op fail 0 0", "op update 0", "op immChange 0 %d" % a1, "op plan.append 0 0 %d" % a2, "op immChange 0 0", "op update 0",
                                             "op succeed 0 0", "op update 0"]) + "\n", "template:failure-dropped-on-exit"))
            out.append((c, "\n".join(pre + ["op succeed 0 0", "op update 0", "op immChange 0 %d" % a1, "op plan.append 0 0 %d" % a2, "op immChange 0 0", "op update 0", "op update 0"]) + "\n",
                        "template:success-dropped-on-exit"))
            # a task that fires consumes the success report even when a guard vetoes its transition: the origin stays active, and the now empty plan
            # must not be reported as succeeded in a later cycle in which nobody reports anything (entry-guard veto and exit-guard veto)
            for veto in ("tab * S%d own entryGuard  : cancel" % a1, "tab * S0 own exitGuard  : cancel"):
                out.append((c, "\n".join(pre[:1] + [veto] + pre[1:] + ["op plan.append 0 0 %d" % a1, "op succeed 0 0", "op update 0", "op update 0", "op update 0",
                                                                      "op plan.append 0 0 %d" % a2, "op update 0", "op succeed 0 0", "op update 0"]) + "\n", "template:vetoed-task-consumes-success"))
            # a report for a state that is not active, made before exit(): gone after re-activation (manual machines; empty plan at the time of the exit)
            if manual:
                for rep in ("succeed", "fail"):
                    out.append((c, "\n".join(pre + ["op %s 0 %d" % (rep, a1), "op exit 0", "op enter 0", "op plan.append 0 0 %d" % a1, "op plan.append 0 %d %d" % (a1, a2),
                                                     "op succeed 0 0", "op update 0", "op update 0", "op update 0"]) + "\n", "template:report-dropped-by-exit-enter"))
            # the active state fails while a transition request is already waiting: planFailed() is still due in that very cycle
            out.append((c, "\n".join(pre + ["op plan.append 0 0 %d" % a1, "op plan.append 0 %d %d" % (a1, a2), "op change 0 %d" % a2, "op fail 0 0", "op update 0", "op update 0"]) + "\n",
                        "template:failure-with-request-pending"))
            out.append((c, "\n".join(pre[:1] + ["tab * S0 own update occ=0 : change %d ; fail self" % a2] + pre[1:] + ["op plan.append 0 0 %d" % a1, "op update 0", "op update 0"]) + "\n",
                        "template:failure-and-request-from-the-same-callback"))
    return out

# ---- a plan, then load(): the loaded machine starts without a plan - nothing of the plan that load() wiped may come back when a new, shorter one is made
def plan_load_templates(tier):
    out = []
    for (n, pay, manual, cap) in ((3, 0, 0, 4), (5, 2, 1, 3), (9, 0, 0, 6)) if tier == "quick" else ((3, 0, 0, 4), (5, 2, 1, 3), (9, 0, 0, 6), (17, 0, 1, 5), (4, 2, 0, 8)):
        c = cfgmod.make(n=n, head=1, manual=manual, limit=2, cap=cap, payload=pay, plans=1, serial=1, history=1, log="on")
        pre = [cfgmod.cfg_line(c), "op construct 0 1 00"] + (["op enter 0"] if manual else [])
        donor = ["op construct 1 1 00"] + (["op enter 1"] if manual else [])
        a1, a2 = 1, n - 1
        # (i) tasks with one origin, wiped by load(), then a single new task from that origin
        old = ["op plan.append 0 0 %d" % a1, "op plan.append 0 0 %d" % a2, "op plan.append 0 0 0"]
        out.append((c, "\n".join(pre + old + donor + ["op loadfrom 0 1", "op plan.append 0 0 %d" % a1, "op succeed 0 0", "op update 0", "op update 0", "op update 0"]) + "\n", "template:plan-wiped-by-load"))
        # (ii) the same after the first task fired and its slot was reused (slot order differs from plan order)
        if a1 != a2:
            old2 = ["op plan.append 0 0 %d" % a1, "op plan.append 0 %d %d" % (a1, a2), "op plan.append 0 %d 0" % a2, "op succeed 0 0", "op update 0", "op plan.append 0 0 %d" % a2]
            out.append((c, "\n".join(pre + old2 + donor + ["op loadfrom 0 1", "op plan.append 0 0 %d" % a2, "op succeed 0 0", "op update 0", "op update 0", "op succeed 0 %d" % a2, "op update 0"]) + "\n",
                        "template:recycled-plan-wiped-by-load"))
        # (iv) filled to its capacity and one beyond: the capacity is the configured one whatever else is compiled in (here: serialization, whose bit count travels
        # in the same template argument list), the refused task changes nothing, every accepted task fires
        fill = ["op plan.append 0 %d %d" % (k % n, (k + 1) % n) for k in range(cap)] + ["op plan.append 0 0 %d" % a1, "op plan.append 0 0 0"]
        out.append((c, "\n".join(pre + fill + sum((["op succeed 0 %d" % (k % n), "op update 0"] for k in range(min(cap, 6))), [])) + "\n", "template:plan-filled-to-capacity"))
        # (iii) wiped by exit()/enter() or destruction instead of load()
        if manual:
            out.append((c, "\n".join(pre + old + ["op exit 0", "op enter 0", "op plan.append 0 0 %d" % a1, "op succeed 0 0", "op update 0", "op update 0"]) + "\n", "template:plan-wiped-by-exit-enter"))
    return out

def life_cb(l): return l.kind == "cb" and l.meth in T.LIFE
def guard_cb(l): return l.kind == "cb" and l.meth in T.GUARD

SPECS = {
    "C01": MachineSpec("C01", T.p_C01, P_LIFE, cfgs_lifecycle, lambda t: 60 if t == "quick" else 400,
                       lambda ls, c: sum(1 for l in ls if life_cb(l)) >= 4),
    "C02": MachineSpec("C02", T.p_C02, lambda c: P_REQ.with_(p_pair=0.7, n_tab=(0, 4)) if c["plans"] else P_REQ, cfgs_requests, lambda t: 100 if t == "quick" else 600,
                       lambda ls, c: has(ls, guard_cb) and has(ls, lambda l: l.kind == "did" and l.act[0].startswith("change")), extra=plan_load_templates),
    "C03": MachineSpec("C03", T.p_C03, P_REQ, cfgs_requests, lambda t: 100 if t == "quick" else 600,
                       lambda ls, c: has(ls, lambda l: l.kind == "did" and l.act[0] == "cancel" and l.res == "ok"), extra=guard_trees),
    "C04": MachineSpec("C04", T.p_C04, P_LIMIT, cfgs_limit, lambda t: 100 if t == "quick" else 500,
                       lambda ls, c: max([sum(1 for _, e in cl.ev if e.kind == "cb" and e.meth == "exitGuard") for cl in monitors.calls(ls)] or [0]) >= c["limit"], extra=ping_pong),
    "C05": MachineSpec("C05", T.p_C05, lambda c: P_CYCLE.with_(p_pair=0.5) if c["plans"] else P_CYCLE, cfgs_cycle, lambda t: 80 if t == "quick" else 400,
                       lambda ls, c: has(ls, lambda l: l.kind == "did" and l.res == "ok") and has(ls, lambda l: l.kind == "cb" and l.meth in T.PHASE)),
    "C06": MachineSpec("C06", T.p_C06, lambda c: P_VIEWS.with_(p_pair=0.6) if c["plans"] else P_VIEWS, cfgs_views, lambda t: 60 if t == "quick" else 300,
                       lambda ls, c: has(ls, guard_cb) and has(ls, lambda l: l.kind == "did" and l.act[0].startswith("change") and l.res == "ok")),
    "C07": MachineSpec("C07", T.p_C07, lambda c: P_PAY.with_(p_pair=0.5) if c["plans"] else P_PAY, cfgs_payloads, lambda t: 60 if t == "quick" else 300,
                       lambda ls, c: has(ls, lambda l: l.kind == "cb" and l.meth in ("enter", "reenter") and l.f.get("cur", "-")[-1:] not in ("-", ""))),
    "C08": MachineSpec("C08", T.p_C08, P_PLANS, cfgs_plans, lambda t: 80 if t == "quick" else 400,
                       lambda ls, c: has(ls, lambda l: l.kind == "log" and l.what == "transition" and l.args[0] != "255"), extra=lambda t: plan_templates(t) + plan_load_templates(t)),
    "C09": MachineSpec("C09", T.p_C09, P_PLANS.with_(w_ops=dict(exit_enter=5, destroy_construct=2, loadfrom=1, succeed=7, fail=4), p_cond=0.4), cfgs_plans9, lambda t: 80 if t == "quick" else 400,
                       lambda ls, c: has(ls, lambda l: l.kind == "cb" and l.meth in T.PLANCB), extra=lambda t: plan_templates(t) + plan_load_templates(t)),
    "C11": MachineSpec("C11", T.p_C11, lambda c: P_REPL.with_(w_ops=dict(plan_append=5, plan_appendWith=5, succeed=5), w_act=dict(plan_append=2, plan_appendWith=2, succeed=5), p_pair=0.4) if c["plans"] else P_REPL,
                       cfgs_replication, lambda t: 80 if t == "quick" else 400,
                       lambda ls, c: has(ls, lambda l: l.kind == "obs" and l.f.get("prev", "-") != "-")),
    "C12": MachineSpec("C12", T.p_C12, P_SERIAL, cfgs_serial, lambda t: 40 if t == "quick" else 200,
                       lambda ls, c: has(ls, lambda l: l.kind == "api" and l.op == "loadfrom"), extra=plan_load_templates),
    "C15": MachineSpec("C15", T.p_C15, P_INJ, cfgs_inject, lambda t: 50 if t == "quick" else 250,
                       lambda ls, c: has(ls, lambda l: l.kind == "cb" and l.rec != "own")),
    "C16": MachineSpec("C16", T.p_C16, P_LOG, cfgs_logging, lambda t: 50 if t == "quick" else 250,
                       lambda ls, c: has(ls, lambda l: l.kind == "log")),
}

# C10 at the machine level: the plan seen through plan()/control.plan()
SPEC_C10_MACHINE = MachineSpec("C10", T.p_C10, P_PLANS.with_(w_ops=dict(plan_append=14, plan_appendWith=5, plan_removeAt=6, plan_clear=2, exit_enter=3, succeed=6, loadfrom=3, second_instance=2),
                                                               w_act=dict(plan_append=8, plan_removeAt=3, plan_clear=2, succeed=6)),
                               cfgs_plans, lambda t: 60 if t == "quick" else 300,
                               lambda ls, c: has(ls, lambda l: (l.kind == "did" and l.act[0] == "plan.append" and l.res == "full") or (l.kind == "api" and l.op == "plan.removeAt")),
                               extra=lambda tier: plan_enumeration(tier) + plan_load_templates(tier))

# ---------------------------------------------------------------------------------------------- unit-level
from . import unitcheck, leaf

def check_C13(run):
    rng = run.rng; q = run.tier == "quick"
    lines = units.gen_bitstream(rng, 300 if q else 3000, True) + units.gen_bitwidth(rng, 200 if q else 5000)
    unitcheck.run(run, lines)
    # "the bit width derived for a state count always suffices": real machines around the byte boundaries of the serialized form (64 states: 8 bits,
    # 128 states: 9 bits), with and without the other features that share the template argument list, saved and loaded between instances
    spec = MachineSpec("C13", T.p_C12, P_SERIAL.with_(n_ops=(8, 20)),
                       lambda t, r: [cfgmod.make(n=64, head=0, manual=1, limit=1, cap=2, plans=1, serial=1, history=0, log="off"),
                                     cfgmod.make(n=128, head=0, manual=0, limit=1, cap=3, plans=1, serial=1, history=1, log="off", order=1)] +
                                    ([] if t == "quick" else [cfgmod.make(n=127, head=1, manual=1, limit=1, cap=2, plans=0, serial=1), cfgmod.make(n=255, head=0, manual=0, limit=1, cap=4, plans=1, serial=1)]),
                       lambda t: 25 if t == "quick" else 100, lambda ls, c: has(ls, lambda l: l.kind == "api" and l.op == "loadfrom"), monitor_ids=["C12"])
    engine.run_machine(run, spec)
    return dict(rule="operation lists for StreamBufferT/BitWriteStreamT/BitReadStreamT over every (offset mod 8, width) pair x 4 value patterns plus random "
                     "field sequences for 25 capacities up to 255 bits, and bitWidth() on powers of two +-1, 1..259 and random 32-bit values; a case is one "
                     "input line; distinct non-trivial = distinct model result blocks with more than three result lines",
                explanation="")

def check_C20(run):
    rng = run.rng; q = run.tier == "quick"
    lines = units.gen_bitarray(rng, 300 if q else 3000) + units.gen_arrays(rng, 300 if q else 3000)
    # small-scope exhaustive: every sequence of 2 (quick) / 3-4 (thorough) operations over the boundary alphabet, for capacities around a byte boundary
    for cap in ((8, 9) if q else (1, 7, 8, 9, 16, 17)):
        lines += units.enum_bitarray(cap, 2 if q else 3)
    if not q: lines += units.enum_bitarray(9, 4)
    unitcheck.run(run, lines)
    return dict(rule="operation lists for BitArrayT, StaticArrayT<int>, DynamicArrayT<int> over 25 capacities (1..255; indices aimed at multiples of 8, "
                     "set-all then clear-each for every capacity, and-assign with sparse masks, fill to capacity 255); distinct non-trivial = distinct model "
                     "result blocks with more than three result lines", explanation="")

DP_QUICK = list(range(1, 18)) + [31, 32, 33, 63, 64, 65]
DP_MID = [127, 128, 129]
DP_BIG = [254, 255]

def oracle_dp(n, head, out):
    L = out.splitlines()
    if not L or not L[0].startswith("n=%d head=%d rootId=255 construct:" % (n, head)): return "header line: %s" % (L[:1],)
    if " enter=0/0" not in L[0] or not L[0].endswith("active=0"): return "construction did not enter the first declared state: " + L[0]
    if len(L) != n + 1: return "expected %d probe lines, got %d" % (n, len(L) - 1)
    prev = 0
    for k in range(n):
        t = L[k + 1].split(" ")
        exp = ["k=%d" % k, "exitGuard=%d/%d" % (prev, prev), "entryGuard=%d/%d" % (k, k)]
        exp += ["reenter=%d/%d" % (k, k)] if prev == k else ["exit=%d/%d" % (prev, prev), "enter=%d/%d" % (k, k)]
        exp += ["%s=%d/%d" % (m, k, k) for m in ("preUpdate", "update", "postUpdate", "preReact", "react", "postReact", "query")]
        exp += ["copy:"] + ["%s=%d/%d" % (m, k, k) for m in ("preUpdate", "update", "postUpdate", "exit")]       # a copy taken in state k, updated, destroyed
        exp += ["sid=%d" % k, "self=1", "active=%d" % k, "isActive=11"]
        if t != exp: return "changeTo(%d) with %d states: got [%s], expected [%s]" % (k, n, L[k + 1], " ".join(exp))
        prev = k
    return None

def check_C14(run):
    tier = run.tier
    ns = list(DP_QUICK) if tier == "quick" else list(range(1, 256))
    src = os.path.join(common.HARNESS, "dispatch_harness.cpp")
    jobs = [(n, h, v) for n in ns for h in (1, 0) for v in ("include", "development")]
    if tier == "quick":
        jobs += [(n, 1, "include") for n in DP_MID] + [(255, 1, "development"), (254, 0, "include")]
    def one(j):
        n, h, v = j
        keep = n <= 65 or tier == "quick"          # the big machines' binaries (up to 60 MB each, 255 of them) are not worth caching
        tmpd = None
        if keep:
            b, log = common.build_binary(src, ["-DH_N=%d" % n, "-DH_HEAD=%d" % h], v)
        else:
            tmpd = tempfile.mkdtemp(prefix="ffsm2-dp.", dir="/var/tmp"); b = os.path.join(tmpd, "bin")
            r = subprocess.run(["g++", "-std=c++11", "-O0", "-w", "-ftemplate-depth=2000"] + common.VARIANTS[v] + ["-DH_N=%d" % n, "-DH_HEAD=%d" % h, src, "-o", b], capture_output=True, text=True)
            log = r.stderr[-3000:]
            if r.returncode != 0: b = None
        if b is None:
            if tmpd: shutil.rmtree(tmpd, ignore_errors=True)
            return j, None, log, None
        rc, out, err = common.run_proc([b], "", timeout=60)
        if tmpd: shutil.rmtree(tmpd, ignore_errors=True)
        mrc, mout, merr = common.run_proc([common.model_runner(), "dp", str(n), str(h)], "", timeout=120)
        return j, (rc, out, err), None, (mrc, mout, merr)
    # big machines need about 1 GB of compiler memory each: bound the parallelism by size
    small = [j for j in jobs if j[0] <= 130]; big = [j for j in jobs if j[0] > 130]
    res = common.pmap(one, small) + common.pmap(one, big, jobs=6)
    for j, impl, log, model in res:
        n, h, v = j; cfgname = "dispatch_harness n=%d head=%d %s" % (n, h, v)
        run.configs.append(cfgname); run.evaluations += n
        if impl is None:
            run.divergences.append(dict(what="the dispatch harness does not compile against the working tree", reason=log[-3000:], cfg=cfgname, variant=v)); continue
        rc, out, err = impl; mrc, mout, merr = model
        run.traces_validated += 1; run.dist["n<=17" if n <= 17 else "n<=65" if n <= 65 else "n<=129" if n <= 129 else "n>=130"] += 1
        script = "dispatch_harness -DH_N=%d -DH_HEAD=%d (%s header): changeTo(k), update(), react(), query() for every k" % (n, h, v)
        if rc != 0:
            run.violations.append(dict(reason="implementation run failed (exit status %s): %s" % (rc, err[-800:]), script=script, cfg=cfgname, variant=v)); continue
        rej = oracle_dp(n, h, out)
        if rej:
            run.violations.append(dict(reason="dispatch reaches the wrong state: " + rej, script=script, cfg=cfgname, variant=v, impl=out[-2000:], monitor=True)); continue
        if mrc != 0 or out != mout:
            il = out.splitlines(); ml = mout.splitlines()
            i = next((x for x in range(min(len(il), len(ml))) if il[x] != ml[x]), min(len(il), len(ml)))
            run.divergences.append(dict(what="dispatch trace comparison", script=script, cfg=cfgname, variant=v,
                                        reason="line %d: implementation [%s] model [%s] %s" % (i, il[i] if i < len(il) else "<end>", ml[i] if i < len(ml) else "<end>", merr[-200:])))
        for l in mout.splitlines()[1:]:
            run.distinct.add((n, h, l))
        if len(run.samples) < 2 and n in (5, 33): run.samples.append(dict(cfg=cfgname, trace=mout.splitlines()[:6]))
    spec_init = MachineSpec("C14", T.p_C04, P_LIMIT.with_(n_ops=(4, 12), w_ops=dict(destroy_construct=8, exit_enter=8, update=2, immChange=2), w_meth=dict(guard=10, phase=0, life=0)),
                            lambda t, r: [cfgmod.make(n=n, head=h, manual=m, limit=L, history=1) for (n, h, m, L) in ((2, 1, 0, 2), (4, 0, 1, 3), (3, 1, 1, 1), (5, 0, 0, 4))],
                            lambda t: 40 if t == "quick" else 200, lambda ls, c: has(ls, guard_cb), monitor_ids=["C04"])
    engine.run_machine(run, spec_init)
    # (c) a request for state k - from outside, from any callback of the root, of a state or of an injected base, alone or while another recipient of the
    # same phase reports a task status or edits the plan - activates the k-th declared state and runs only its callbacks
    spec_req = MachineSpec("C14", T.p_C14, P_CYCLE.with_(p_pair=0.6, n_tab=(0, 4), w_ops=dict(update=10, react=8, query=1, change=5, immChange=5, succeed=2, fail=1, plan_append=3, replayTransition=4)),
                           lambda t, r: [cfgmod.make(n=3, head=1, plans=1, limit=2, cap=2, history=1), cfgmod.make(n=4, head=1, manual=1, plans=1, payload=2, limit=2, cap=3, history=1),
                                         cfgmod.make(n=2, head=0, plans=1, limit=2, cap=2), cfgmod.make(n=5, head=1, inj_state=1, inj_root=1, plans=0, limit=2, history=1)],
                           lambda t: 50 if t == "quick" else 300, lambda ls, c: has(ls, lambda l: l.kind == "did" and l.act[0].startswith("change") and l.res == "ok"), monitor_ids=[])
    engine.run_machine(run, spec_req)
    # (d) load() activates the state whose id was saved - around the state counts at which the id field of the serialized form changes width (64: 7 bits,
    # 128: 8 bits starting at bit 1 of the buffer), the same two machines as in the C13 check
    spec_ser = MachineSpec("C14", T.p_C14, P_SERIAL.with_(n_ops=(8, 20)),
                           lambda t, r: [cfgmod.make(n=64, head=0, manual=1, limit=1, cap=2, plans=1, serial=1, history=0, log="off"),
                                         cfgmod.make(n=128, head=0, manual=0, limit=1, cap=3, plans=1, serial=1, history=1, log="off", order=1)],
                           lambda t: 25 if t == "quick" else 100, lambda ls, c: has(ls, lambda l: l.kind == "api" and l.op == "loadfrom"), monitor_ids=["C12"], odd=False)
    engine.run_machine(run, spec_ser)
    run.violations.sort(key=lambda v: len(v.get("impl", "")))
    return dict(rule="(d) save()/load() between instances of 64- and 128-state machines: the state activated by load() is the one saved; (c) requests made from outside and from every kind of callback, alone or together with task-status reports and plan edits by another recipient of the same phase, on machines with "
                     "plans / payloads / injected bases: who receives callbacks and which state ends up active, compared with the model; (b) activation-heavy generated scripts (entry guards that redirect and veto at activation): the machine must come up in the first declared state unless a redirect survived; "
                     "(a) one machine per state count N (quick: 1..17, 31..33, 63..65 with and without head, both header variants, plus 127..129, 254, 255 once; thorough: every N in 1..255 "
                     "x head x variant); for every k < N: immediateChangeTo(k), update(), react(), query() - all twelve callback kinds; an evaluation is one (N, k) probe; distinct non-trivial = distinct (N, head, probe line)",
                explanation="", exhaustive=(tier != "quick"))

def plan_enumeration(tier):
    """every history of the given length over plan edits on a small machine: append two different tasks, remove at positions 0..2, clear,
    succeed + update (consumption by firing), exit + enter - the plan seen after every step"""
    L = 3 if tier == "quick" else 5
    out = []
    for cap in ((2,) if tier == "quick" else (1, 2, 3)):
        c = cfgmod.make(n=2, head=1, manual=1, limit=2, cap=cap, plans=1, history=0, log="off")
        pre = [cfgmod.cfg_line(c), "op construct 0 0 00", "op enter 0"]
        alpha = [["op plan.append 0 0 1"], ["op plan.append 0 1 0"], ["op plan.removeAt 0 0"], ["op plan.removeAt 0 1"], ["op plan.removeAt 0 2"], ["op plan.clear 0"],
                 ["op succeed 0 0", "op succeed 0 1", "op update 0"], ["op exit 0", "op enter 0"]]
        for seq in itertools.product(range(len(alpha)), repeat=L):
            lines = list(pre)
            for k in seq: lines += alpha[k]
            out.append((c, "\n".join(lines) + "\n", "enumerated"))
    return out

def check_C10(run):
    rng = run.rng; q = run.tier == "quick"
    lines = units.gen_tasklist(rng, 400 if q else 4000)
    # small-scope exhaustive: every in-contract emplace/remove/clear sequence of length 5 (quick, capacity 2) / up to 7 (thorough, capacities 1..3)
    lines += units.enum_tasklist(2, 5) if q else (units.enum_tasklist(1, 6) + units.enum_tasklist(2, 7) + units.enum_tasklist(3, 6))
    unitcheck.run(run, lines)
    engine.run_machine(run, SPEC_C10_MACHINE)
    return dict(rule="(a) TaskListT<void, C> operation lists (emplace/remove/clear; styles: mixed, fill-drain in random order, full-cycle) for C in {1,2,3,4,5,8,255}, "
                     "slot indices and slot contents compared; (b) generated machine scripts with plans on (capacities 1..4) whose plan is edited through plan()/control.plan(), "
                     "consumed by firing and cleared by plan outcomes, compared with the model under the C10 projection; non-trivial = hits a full plan or removes through an iterator",
                explanation="")

# ---------------------------------------------------------------------------------------------- dispatch
LEVEL_TEXT = {
    "proof": "Coq theorems over the executable model for all inputs/histories/sizes (kernel-checked, axiom-free), tied to /repo's working tree by a correspondence "
             "run of the extracted model against the real classes on generated inputs; a property monitor / abstract oracle over implementation results turns a "
             "broken correspondence into a concrete failing input",
}

def machine_check(pid):
    def f(run):
        spec = SPECS[pid]
        engine.run_machine(run, spec)
        return dict(rule="generated scripts (callback table + API history, profile '%s') on the configurations listed; every script runs on the implementation "
                         "(both header variants) and on the extracted model, traces compared under the %s projection and the %s monitor applied to the implementation's "
                         "trace; distinct non-trivial = distinct projected model traces that contain the events the property is about" % (pid, pid, pid), explanation="")
    return f

def check_C12(run):
    info = machine_check("C12")(run)
    # "two machines produce equal buffers iff ...": SerialBuffer's own comparison operators, on buffers of one and of several bytes
    lines = [l for l in units.gen_bitstream(run.rng, 600 if run.tier == "quick" else 4000, False) if " eq" in l]
    unitcheck.run(run, lines, label="buffer comparison")
    info["rule"] += "; plus StreamBufferT operator== / operator!= on rewritten buffers (unit harness)"
    return info

CHECKS = {"C10": check_C10, "C13": check_C13, "C14": check_C14, "C20": check_C20}
def check_C16(run):
    info = machine_check("C16")(run)
    # the logger attached / detached from inside a callback: a self-checking program (harness/logger_reentry.cpp), both log modes, both header variants,
    # several toggling rhythms; at every delivery the method record must be the entry just before it exactly when a logger is attached at that moment
    src = os.path.join(common.HARNESS, "logger_reentry.cpp")
    jobs = [(lg, ev, v) for lg in ("FFSM2_ENABLE_LOG_INTERFACE", "FFSM2_ENABLE_VERBOSE_DEBUG_LOG") for ev in ((2, 3, 7) if run.tier == "quick" else (1, 2, 3, 4, 5, 7, 11, 13))
            for v in ("include", "development")]
    def one(j):
        lg, ev, v = j
        b, log = common.build_binary(src, ["-D" + lg, "-DH_EVERY=%d" % ev], v)
        if b is None: return j, None, log
        return j, common.run_proc([b], "", timeout=30), ""
    for j, res, log in common.pmap(one, jobs):
        lg, ev, v = j; cfgname = "logger_reentry %s toggle-every-%d %s" % (lg, ev, v); run.configs.append(cfgname); run.evaluations += 1
        script = "g++ -std=c++11 -D%s -DH_EVERY=%d harness/logger_reentry.cpp against the %s header; run it" % (lg, ev, v)
        if res is None:
            run.divergences.append(dict(what="the logger re-entry program does not compile against the working tree", reason=log[-2500:], cfg=cfgname, variant=v, script=script)); continue
        rc, out, err = res
        if rc != 0 or not out.startswith("OK "):
            run.violations.append(dict(reason="logger attached / detached from inside a callback: " + (out.strip().split("\n")[0] if out.strip() else "exit status %s %s" % (rc, err[-300:])),
                                       script=script, cfg=cfgname, variant=v, impl=out[-3000:], monitor=False))
        else:
            run.traces_validated += 1; run.distinct.add(("reentry", lg, ev, v)); run.dist["reentry-run"] += 1
    info["rule"] += "; plus a self-checking program in which the logger is attached and detached from inside callbacks (both log modes, several rhythms, both header variants)"
    return info

for _pid in SPECS: CHECKS[_pid] = machine_check(_pid)
CHECKS["C12"] = check_C12
CHECKS["C16"] = check_C16

# ---------------------------------------------------------------------------------------------- C17
def cfgs_copies(tier, rng):
    out = []
    for k in range(6 if tier == "quick" else 16):
        out.append(cfgmod.make(n=pick(rng, [1, 2, 3, 4]), head=k % 2, manual=(k // 2) % 2, limit=pick(rng, [2, 4]), cap=pick(rng, [1, 2, 3]), payload=pick(rng, [0, 2, 5]),
                               plans=1 if k % 3 else 0, serial=1, history=1, log="on" if k % 2 else "off", sdata=1 if k % 2 == 0 else 0))
    out.append(cfgmod.make(n=3, head=1, manual=0, limit=2, cap=4, payload=2, plans=1, serial=1, history=1, log="on", inj_state=2, inj_root=1, order=1))    # copies of machines whose states have injected bases
    out.append(cfgmod.make(n=2, head=1, manual=1, limit=2, cap=2, payload=0, plans=0, serial=0, history=0, log="on"))                                   # a logger but no plans, no history, no serialization
    return out

P_COPIES = P_LIFE.with_(n_ops=(10, 34), w_ops=dict(copy=7, second_instance=3, destroy_construct=2, succeed=3, fail=1, plan_append=5, plan_appendWith=2, changeWith=3, immChangeWith=3, loadfrom=2),
                        w_act=dict(change=6, changeWith=2, cancel=3, succeed=4, fail=1, plan_append=3), p_logger_at_construct=0.5)

SPEC_C17 = MachineSpec("C17", T.p_C17, P_COPIES, cfgs_copies, lambda t: 60 if t == "quick" else 300,
                       lambda ls, c: has(ls, lambda l: l.kind == "api" and l.op == "copy") and sum(1 for l in ls if l.kind == "cb") >= 4)

FILLS = ["00", "ff", "a5", "5a", "01", "80"]
def refill(script, fill):
    out = []
    for l in script.split("\n"):
        t = l.split(" ")
        if l.startswith("op construct ") or l.startswith("op copy "): t[-1] = fill; l = " ".join(t)
        out.append(l)
    return "\n".join(out)

# behaviour that depends on a value nobody wrote (an uninitialised local, a member read before its first write) is behaviour that does not depend on the
# history alone: plan-heavy scripts under valgrind's memcheck, which reports the first conditional jump, address or system call that depends on such a value
VALGRIND = ("valgrind", "-q", "--error-exitcode=96", "--track-origins=no", "--leak-check=no")
def spec_memcheck(pid, tier):
    return MachineSpec(pid, T.p_all, P_PLANS.with_(n_ops=(6, 16), w_ops=dict(loadfrom=2, copy=2, second_instance=1, succeed=8, fail=3)),
                       lambda t, r: [cfgmod.make(n=3, head=1, manual=0, limit=2, cap=3, payload=0, plans=1, serial=1, history=1, log="off"),
                                     cfgmod.make(n=4, head=0, manual=1, limit=2, cap=2, payload=2, plans=1, serial=1, history=1, log="on")],
                       lambda t: 10 if t == "quick" else 60, lambda ls, c: has(ls, lambda l: l.kind == "cb"), variants=("include",), wrapper=VALGRIND, monitor_ids=[], odd=False,
                       extra=lambda t: [x for x in plan_templates(t) if x[0]["n"] == 3][:12])

def check_C17(run):
    # the structural facts are regenerated from the tree under test into a scratch file; if they are the committed
    # coq/Generated/InitFacts.v the theorems of the main build apply, otherwise Proofs/ConstructProofs.v and the property file are
    # re-checked against the regenerated facts in a scratch copy of the development (nothing under coq/ is rewritten)
    tmp = os.path.join(common.CACHE, "initfacts.%d.v" % os.getpid()); os.makedirs(common.CACHE, exist_ok=True)
    facts = subprocess.run([sys.executable, os.path.join(common.VERIF, "tools", "initfacts.py"), "--out", tmp], capture_output=True, text=True)
    try: run.extra["generated_facts"] = json.loads(facts.stdout.strip().split("\n")[-1])
    except Exception: run.extra["generated_facts"] = dict(error=(facts.stdout + facts.stderr)[-500:])
    run.proof = proofs.check_property("C17", tier=run.tier)
    text = open(tmp).read() if os.path.exists(tmp) else ""
    if os.path.exists(tmp): os.remove(tmp)
    committed = open(os.path.join(common.COQ, "Generated", "InitFacts.v")).read()
    if text != committed:
        r = leaf.recheck_generated("Generated/InitFacts.v", text, ["Proofs/ConstructProofs.v", "Properties/Properties_C17.v"], "the facts regenerated from this tree") if text else dict(ok=False, detail="tools/initfacts.py produced nothing: " + (facts.stdout + facts.stderr)[-800:])
        run.extra["generated_facts_differ_from_committed"] = True
        if not r["ok"]:
            run.proof["ok"] = False; run.proof["discharged"] = 0
            run.proof["detail"] = (run.proof.get("detail", "") + "\n" + r["detail"]).strip()
    engine.run_machine(run, SPEC_C17)
    engine.run_machine(run, spec_memcheck("C17", run.tier))
    # the same history over different prior memory contents must give the same trace (implementation against itself)
    cfgs = cfgs_copies(run.tier, random.Random(7)); rng = run.rng
    per = 8 if run.tier == "quick" else 40
    for c in cfgs:
        bins = {v: cfgmod.build(c, v)[0] for v in ("include", "development")}
        for k in range(per):
            s = gen.gen_script(rng, c, P_COPIES)
            for v, b in bins.items():
                if not b: continue
                base = None
                for f in FILLS:
                    rc, out, err = corr.run_impl(b, refill(s, f), timeout=30)
                    run.traces_validated += 1
                    if rc != 0:
                        run.violations.append(dict(reason="implementation run failed (exit status %s) with fill %s: %s" % (rc, f, err[-800:]), script=refill(s, f), cfg=cfgmod.name(c), variant=v)); break
                    norm = "\n".join(l for l in out.splitlines() if not l.startswith("api "))
                    if base is None: base = (f, norm)
                    elif norm != base[1]:
                        a = norm.splitlines(); b_ = base[1].splitlines()
                        i = next((x for x in range(min(len(a), len(b_))) if a[x] != b_[x]), min(len(a), len(b_)))
                        run.violations.append(dict(reason="behaviour depends on prior memory contents: with storage pre-filled 0x%s line %d is [%s], with 0x%s it is [%s]" % (
                            f, i, a[i] if i < len(a) else "<end>", base[0], b_[i] if i < len(b_) else "<end>"), script=refill(s, f), cfg=cfgmod.name(c), variant=v, monitor=False, fill_pair=[base[0], f]))
                        break
            run.evaluations += 1
    return dict(rule="(a) generated scripts with copy construction at random points, second instances, destruction/re-construction, over storage pre-filled with 0x00/0xff/0xa5/0x5a, compared with the model on the whole "
                     "trace and checked by the copy-equals-original monitor; (b) every script of a second batch re-run with each of six fill bytes: the implementation's traces must be identical; "
                     "non-trivial = contains a copy and at least four callbacks", explanation="")

CHECKS["C17"] = check_C17

def run_check(pid, tier, seed):
    run = Run(pid, tier, seed)
    run.proof = proofs.check_property(pid, tier=tier) if pid not in ("C17",) else None
    if not os.environ.get("VERIF_WARM"): leaf.check(run)          # the source tie of the leaf layer (C08, C09, C12, C13, C20)
    info = CHECKS[pid](run)
    run.extra.update({k: v for k, v in info.items() if k not in ("rule", "explanation")})
    level = info.get("level", "proof")
    return engine.finish(run, level, LEVEL_TEXT.get(level, ""), info["rule"], info.get("explanation", ""))

# ---------------------------------------------------------------------------------------------- C18
SAN = ["-fsanitize=address,undefined", "-fno-sanitize-recover=all", "-g", "-fno-omit-frame-pointer"]
SAN_GXX = SAN + ["-fsanitize=bounds-strict"]     # g++ only: also check indices into arrays that are the last member of their class (ASan cannot see an overflow that stays inside the enclosing object)
SAN_ENV = dict(ASAN_OPTIONS="detect_leaks=0:abort_on_error=0:exitcode=99:detect_stack_use_after_return=1", UBSAN_OPTIONS="print_stacktrace=1:halt_on_error=1:exitcode=98")

def cfgs_san(tier, rng):
    out = [cfgmod.make(n=1, head=1, manual=1, limit=1, cap=1, payload=5, plans=1, serial=1, history=1, log="on"),          # smallest machine, 16-byte aligned payload, capacity 1
           cfgmod.make(n=3, head=1, manual=0, limit=4, cap=3, payload=3, plans=1, serial=1, history=1, log="off"),         # double payload
           cfgmod.make(n=4, head=0, manual=1, limit=2, cap=2, payload=4, plans=1, serial=1, history=1, log="verbose"),     # 3-byte payload
           cfgmod.make(n=2, head=1, manual=0, limit=3, cap=4, payload=2, plans=1, serial=0, history=0, log="off"),
           cfgmod.make(n=5, head=0, manual=0, limit=2, cap=1, payload=0, plans=1, serial=1, history=1, log="on", inj_state=1),
           cfgmod.make(n=8, head=1, manual=0, limit=2, cap=2, payload=0, plans=1, serial=1, history=1, log="off"),          # bit sets of exactly one byte
           cfgmod.make(n=16, head=0, manual=1, limit=2, cap=3, payload=2, plans=1, serial=1, history=0, log="off"),
           cfgmod.make(n=128, head=0, manual=1, limit=1, cap=2, payload=0, plans=0, serial=1, history=0, log="off"),              # the first state count whose serial form needs a second byte
           cfgmod.make(n=64, head=1, manual=0, limit=1, cap=2, payload=0, plans=0, serial=1, history=0, log="off"),      # serial form of exactly 8 bits: the one-byte buffer is filled to its last bit
           cfgmod.make(n=2, head=1, manual=0, limit=2, cap=6, payload=0, plans=1, serial=0, history=1, log="on"),                # payload-free plans with a capacity well above the state count
           cfgmod.make(n=3, head=1, manual=0, limit=2, cap=2, payload=2, plans=0, serial=1, history=1, log="on"),                # logger without plans: copies and moves must carry the logger pointer
           cfgmod.make(n=2, head=0, manual=1, limit=2, cap=2, payload=0, plans=0, serial=0, history=0, log="verbose", order=1)]
    if tier != "quick":
        out += [                cfgmod.make(n=9, head=1, manual=1, limit=4, cap=8, payload=5, plans=1, serial=1, history=1, log="on"),
                cfgmod.make(n=3, head=1, manual=0, limit=8, cap=3, payload=1, plans=1, serial=1, history=1, log="off", inj_root=2, inj_state=2),
                cfgmod.make(n=64, head=1, manual=1, limit=2, cap=2, payload=3, plans=1, serial=1, history=1, log="off"),
                cfgmod.make(n=255, head=0, manual=1, limit=2, cap=255, payload=0, plans=1, serial=1, history=1, log="off")]
    return out

P_SAN = P_PLANS.with_(n_ops=(12, 40), w_ops=dict(plan_append=12, plan_appendWith=8, changeWith=4, immChangeWith=4, loadfrom=3, copy=4, second_instance=2, replayTransition=2,
                                                 plan_removeAt=3, plan_clear=1, exit_enter=3, attachLogger=1),
                      w_act=dict(plan_append=6, plan_appendWith=5, changeWith=4, succeed=8, fail=3, cancel=3, change=3, plan_removeAt=2), p_logger_at_construct=0.7)

NOALLOC_SYMS = re.compile(r"\b(_Zn[wa]\w*|_Zd[la]\w*|malloc|calloc|realloc|free|aligned_alloc|posix_memalign|memalign|valloc)\b")

def feature_sets(tier):
    names = ["FFSM2_ENABLE_PLANS", "FFSM2_ENABLE_SERIALIZATION", "FFSM2_ENABLE_TRANSITION_HISTORY", "FFSM2_ENABLE_LOG_INTERFACE",
             "FFSM2_ENABLE_VERBOSE_DEBUG_LOG", "FFSM2_ENABLE_STRUCTURE_REPORT", "FFSM2_ENABLE_DEBUG_STATE_TYPE", "FFSM2_DISABLE_TYPEINDEX"]
    return names, list(range(256))

def mask_flags(names, mask):
    return ["-D" + n for k, n in enumerate(names) if (mask >> k) & 1]

def check_C18(run):
    tier = run.tier
    # (1) the correspondence corpus under AddressSanitizer + UndefinedBehaviorSanitizer
    old_env = {k: os.environ.get(k) for k in SAN_ENV}; os.environ.update(SAN_ENV)
    try:
        spec = MachineSpec("C18", T.p_all, P_SAN, cfgs_san, lambda t: 40 if t == "quick" else 200,
                           lambda ls, c: has(ls, lambda l: l.kind == "did" and l.res == "full") or has(ls, lambda l: l.kind == "api" and l.op in ("loadfrom", "copy", "plan.appendWith")),
                           extra_flags=SAN_GXX, monitor_ids=["C18"], variants=("include", "development") if tier != "quick" else ("include",))
        engine.run_machine(run, spec)
        if tier != "quick":
            spec2 = MachineSpec("C18", T.p_all, P_SAN, lambda t, r: cfgs_san("quick", r), lambda t: 60, spec.interesting, extra_flags=SAN, monitor_ids=["C18"], cxx="clang++", variants=("include",))
            engine.run_machine(run, spec2)
        rng = run.rng; q = tier == "quick"
        lines = units.gen_tasklist(rng, 150 if q else 1500) + units.gen_bitarray(rng, 100 if q else 1000) + units.gen_arrays(rng, 100 if q else 1000) + units.gen_bitstream(rng, 100 if q else 1000, not q)
        unitcheck.run(run, lines, variants=("include",) if q else ("include", "development"), extra_flags=SAN_GXX, label="sanitized")
    finally:
        for k, v in old_env.items():
            if v is None: os.environ.pop(k, None)
            else: os.environ[k] = v
    # (1b) reading a value that was never written is undefined behaviour no sanitizer above reports: a memcheck pass (the same one as in the C17 check)
    engine.run_machine(run, spec_memcheck("C18", tier))
    # (2) no allocation: (i) undefined symbols of an object that instantiates the whole API; (ii) allocation counters at run time
    names, masks = feature_sets(tier)
    src = os.path.join(common.HARNESS, "matrix_tu.cpp")
    sel = masks if tier != "quick" else [0, 255, 0b00000111, 0b00011111, 0b10101010, 0b01010101, 0b00001000, 0b11110000]
    jobs = [(m, man, pay, v) for m in sel for (man, pay) in ((0, 0), (1, 1)) for v in (("include", "development") if tier != "quick" else ("include",))]
    def scan(j):
        m, man, pay, v = j
        fl = mask_flags(names, m) + ["-DH_MANUAL=%d" % man, "-DH_PAYLOAD=%d" % pay]
        obj, log = common.build_binary(src, fl + ["-DH_NOSTDIO", "-c"], v, extra_key="noalloc-object")
        run_bin, log2 = common.build_binary(src, fl + ["-DH_COUNT_ALLOC"], v, extra_key="alloc-count")
        return j, obj, log, run_bin, log2
    for j, obj, log, run_bin, log2 in common.pmap(scan, jobs):
        m, man, pay, v = j; cfgname = "matrix_tu mask=%02x manual=%d payload=%d %s" % (m, man, pay, v)
        run.evaluations += 1; run.dist["noalloc-scan"] += 1
        script = "g++ -std=c++11 %s -DH_MANUAL=%d -DH_PAYLOAD=%d harness/matrix_tu.cpp against the %s header" % (" ".join(mask_flags(names, m)), man, pay, v)
        if obj is None or run_bin is None:
            run.divergences.append(dict(what="the API translation unit does not compile", reason=(log or log2)[-2500:], cfg=cfgname, variant=v, script=script)); continue
        r = subprocess.run(["nm", "-u", obj], capture_output=True, text=True)
        bad = sorted(set(NOALLOC_SYMS.findall(r.stdout)))
        if bad:
            run.violations.append(dict(reason="an object file instantiating the whole FFSM2 API references allocation functions: %s" % ", ".join(bad), script=script, cfg=cfgname, variant=v)); continue
        rc, out, err = common.run_proc([run_bin], "", timeout=30)
        if rc != 0 or "allocs=0 heapdelta=0" not in out:
            run.violations.append(dict(reason="heap traffic while running FFSM2 operations: %s (exit status %s) %s" % (out.strip(), rc, err[-300:]), script=script, cfg=cfgname, variant=v)); continue
        run.traces_validated += 1; run.distinct.add(("noalloc", m, man, pay))
    return dict(level="other", rule="(a) generated plan/payload/serialization/copy scripts (capacity-full plans, payload types with alignment 1/4/8/16, n = 1 .. 255 in thorough) run on harness builds with "
                "-fsanitize=address,undefined -fno-sanitize-recover=all and compared with the model; any sanitizer report is a failing history; the unit harness likewise; "
                "(b) for feature combinations x activation x payload: nm -u of an object instantiating the whole API must reference no allocation function, and a run with "
                "counting operator new/delete and mallinfo2 deltas must report zero; non-trivial = hits a full plan / load / copy / payload task",
                explanation="Coq part: index safety of every container operation under its invariant (Properties_C18.v, checked twins). The rest of C18 (misaligned access, indeterminate reads, "
                            "allocation) lives in the C++ abstract machine, which the model does not have: decided by sanitizer-instrumented runs of the correspondence scripts on the real code, "
                            "symbol inspection and allocation counters. Level 'other': one family of theorems plus instrumented execution.")

CHECKS["C18"] = check_C18

# ---------------------------------------------------------------------------------------------- C19
P_NEUTRAL = BASE.with_(n_ops=(10, 30), w_ops=dict(update=10, react=5, query=2, change=5, immChange=6, exit_enter=3, destroy_construct=1, second_instance=1, copy=2),
                       w_meth=dict(guard=5, phase=4, life=1, plancb=0, query=1), w_act=dict(change=7, cancel=4), p_logger_at_construct=0.0)

def cfgs_features(tier, rng):
    out = []
    extras = [(), ("FFSM2_ENABLE_STRUCTURE_REPORT",), ("FFSM2_ENABLE_DEBUG_STATE_TYPE",), ("FFSM2_DISABLE_TYPEINDEX",),
              ("FFSM2_ENABLE_STRUCTURE_REPORT", "FFSM2_ENABLE_DEBUG_STATE_TYPE", "FFSM2_DISABLE_TYPEINDEX")]
    combos = [(p, s, h, lg) for p in (0, 1) for s in (0, 1) for h in (0, 1) for lg in ("off", "on", "verbose")]
    if tier == "quick": combos = [combos[i] for i in (0, 5, 10, 15, 20, 23)]
    for k, (p, s, h, lg) in enumerate(combos):
        out.append(cfgmod.make(n=3, head=1, manual=k % 2, limit=3, cap=2, payload=0, plans=p, serial=s, history=h, log=lg, xf=extras[k % len(extras)]))
    return out

def check_C19(run):
    tier = run.tier; rng = run.rng
    names, masks = feature_sets(tier)
    src = os.path.join(common.HARNESS, "matrix_tu.cpp")
    # (1) the compile matrix
    stds = ["c++11", "c++14", "c++17", "c++20"]; cxxs = ["g++", "clang++"]
    jobs = []
    if tier == "quick":
        for m in masks:
            r = random.Random(m * 7919 + run.seed)
            jobs.append((m, stds[(m + run.seed) % 4], cxxs[(m // 4 + run.seed) % 2], (m // 8) % 2, (m // 16 + m) % 2, ("include", "development")[(m // 2) % 2], False))
        for std in stds:
            for cxx in cxxs: jobs.append((0, std, cxx, 1, 1, "include", True))
    else:
        for m in masks:
            for std in stds:
                for cxx in cxxs:
                    for man in (0, 1):
                        for pay in (0, 1):
                            for v in ("include", "development"): jobs.append((m, std, cxx, man, pay, v, False))
        for std in stds:
            for cxx in cxxs:
                for man in (0, 1):
                    for v in ("include", "development"): jobs.append((0, std, cxx, man, 1, v, True))
    def syntax(j):
        m, std, cxx, man, pay, v, en_all = j
        fl = (["-DFFSM2_ENABLE_ALL"] if en_all else mask_flags(names, m)) + ["-DH_MANUAL=%d" % man, "-DH_PAYLOAD=%d" % pay]
        cmd = [cxx, "-std=" + std, "-fsyntax-only", "-w", "-ftemplate-depth=2000"] + common.VARIANTS[v] + fl + [src]
        r = subprocess.run(cmd, capture_output=True, text=True)
        return j, r.returncode, " ".join(cmd), r.stderr
    bad = []
    for j, rc, cmd, err in common.pmap(syntax, jobs):
        run.evaluations += 1; run.dist["syntax:%s:%s" % (j[2], j[1])] += 1
        if rc != 0: bad.append((j, cmd, err))
        else: run.distinct.add(("syntax",) + j)
    if bad:
        bad.sort(key=lambda b: (bin(b[0][0]).count("1"), b[0]))
        j, cmd, err = bad[0]
        first = next((l for l in err.splitlines() if "error" in l), err[:300])
        run.violations.append(dict(reason="a documented switch combination does not compile (%d of %d configurations tried fail): %s" % (len(bad), len(jobs), first),
                                   script=cmd, cfg="mask=%02x %s %s manual=%d payload=%d %s all=%s" % j, compiler_output=err[-3000:],
                                   failing_masks=sorted(set("%02x" % b[0][0] for b in bad))[:64]))
    # (2) include/ffsm2/machine.hpp is exactly the amalgamation of development/
    r = subprocess.run(["sh", os.path.join(common.VERIF, "tools", "amalgamate.sh"), common.REPO], capture_output=True, text=True)
    d = r.stdout.strip().split("\n")[-1] if r.returncode == 0 else ""
    run.evaluations += 1
    try:
        if not d or not os.path.exists(os.path.join(d, "include", "ffsm2", "machine.hpp")):
            run.divergences.append(dict(what="tools/join.py could not be run on a scratch copy", reason=(r.stdout + r.stderr)[-800:]))
        else:
            a = open(os.path.join(d, "include", "ffsm2", "machine.hpp"), "rb").read(); b = open(os.path.join(common.REPO, "include", "ffsm2", "machine.hpp"), "rb").read()
            if a != b:
                la = a.decode("utf8", "replace").splitlines(); lb = b.decode("utf8", "replace").splitlines()
                i = next((k for k in range(min(len(la), len(lb))) if la[k] != lb[k]), min(len(la), len(lb)))
                run.violations.append(dict(reason="include/ffsm2/machine.hpp is not the amalgamation of development/: first difference at line %d: shipped [%s] regenerated [%s]" % (
                    i + 1, lb[i].strip() if i < len(lb) else "<end>", la[i].strip() if i < len(la) else "<end>"),
                    script="cd <scratch copy>/tools && python3 join.py ; cmp ../include/ffsm2/machine.hpp /repo/include/ffsm2/machine.hpp", cfg="amalgamation"))
            else: run.distinct.add(("amalgamation", len(a))); run.traces_validated += 1
    finally:
        if d and d.startswith("/var/tmp/ffsm2-join."): shutil.rmtree(d, ignore_errors=True)
    # (3) a feature-neutral scenario gives the same digest under every switch combination and both header variants
    sel = masks if tier != "quick" else sorted(set([0, 255] + [(37 * k + run.seed) % 256 for k in range(30)]))
    bjobs = [(m, man, pay, v) for m in sel for (man, pay) in ((0, 0), (1, 0), (0, 1), (1, 1)) for v in ("include", "development")]
    if tier == "quick": bjobs = [j for k, j in enumerate(bjobs) if k % 4 == (j[0] % 4)]
    def build_run(j):
        m, man, pay, v = j
        b, log = common.build_binary(src, mask_flags(names, m) + ["-DH_MANUAL=%d" % man, "-DH_PAYLOAD=%d" % pay], v, extra_key="digest")
        if b is None: return j, None, log
        rc, out, err = common.run_proc([b], "", timeout=30)
        return j, (rc, out.strip()), err
    digests = {}
    for j, res, err in common.pmap(build_run, bjobs):
        m, man, pay, v = j; run.evaluations += 1; run.dist["digest-run"] += 1
        if res is None: continue            # a compile failure is already reported by (1)
        rc, out = res
        if rc != 0:
            run.violations.append(dict(reason="the feature-neutral scenario crashed (exit status %s) under mask %02x: %s" % (rc, m, err[-500:]), script="matrix_tu " + " ".join(mask_flags(names, m)), cfg="mask=%02x manual=%d payload=%d %s" % j)); continue
        key = (man, pay)
        if key in digests and digests[key][0] != out:
            run.violations.append(dict(reason="enabling unused features changes observable behaviour: the neutral scenario's digest is [%s] under {%s} (%s header) but [%s] under {%s} (%s header)" % (
                out, " ".join(mask_flags(names, m)) or "no switch", v, digests[key][0], " ".join(mask_flags(names, digests[key][1])) or "no switch", digests[key][2]),
                script="harness/matrix_tu.cpp -DH_MANUAL=%d -DH_PAYLOAD=%d, scenario neutral()" % (man, pay), cfg="mask=%02x vs mask=%02x" % (m, digests[key][1])))
        else:
            digests.setdefault(key, (out, m, v)); run.traces_validated += 1; run.distinct.add(("digest", m, man, pay, v))
    # (4) feature-neutral scripts on the machine harness under feature combinations, each compared with the model under the same switches
    spec = MachineSpec("C19", T.p_all, P_NEUTRAL, cfgs_features, lambda t: 20 if t == "quick" else 80,
                       lambda ls, c: has(ls, guard_cb) and has(ls, life_cb), monitor_ids=["C01", "C02", "C03"])
    engine.run_machine(run, spec)
    # ... the same feature-neutral scripts on sanitizer builds of a few switch combinations: a compiled-in but unused feature must not touch memory either
    old_env = {k: os.environ.get(k) for k in SAN_ENV}; os.environ.update(SAN_ENV)
    try:
        def cfgs_features_san(tier, rng):
            sel = [(1, 0, 0, "off"), (0, 0, 0, "on"), (1, 1, 1, "verbose")] if tier == "quick" else [(p, s, h, lg) for p in (0, 1) for s in (0, 1) for h in (0, 1) for lg in ("off", "on")]
            return [cfgmod.make(n=[3, 2, 4][k % 3], head=1, manual=k % 2, limit=2, cap=2, payload=[0, 2, 5][k % 3], plans=p, serial=s, history=h, log=lg) for k, (p, s, h, lg) in enumerate(sel)]
        spec_san = MachineSpec("C19", T.p_all, P_NEUTRAL, cfgs_features_san, lambda t: 15 if t == "quick" else 50, lambda ls, c: has(ls, life_cb),
                               extra_flags=SAN_GXX, monitor_ids=["C18"], variants=("include",) if tier == "quick" else ("include", "development"))
        engine.run_machine(run, spec_san)
    finally:
        for k, v in old_env.items():
            if v is None: os.environ.pop(k, None)
            else: os.environ[k] = v
    # ... and programs that use ONE feature (plans) while the other switches vary: enabling serialization / history / logging must not change them
    def cfgs_plans_crossed(tier, rng):
        out = []
        combos = [(sr, h, lg) for sr in (0, 1) for h in (0, 1) for lg in ("off", "on")]
        if tier == "quick": combos = [combos[i] for i in (0, 3, 5, 6)]
        for k, (sr, h, lg) in enumerate(combos):
            n, cap = [(5, 2), (3, 4), (9, 3), (2, 1)][k % 4]          # capacities chosen away from 1 + bitWidth(n)
            out.append(cfgmod.make(n=n, head=1, manual=k % 2, limit=2, cap=cap, payload=0, plans=1, serial=sr, history=h, log=lg))
        return out
    spec2 = MachineSpec("C19", T.p_all, P_PLANS.with_(n_ops=(8, 24), w_ops=dict(loadfrom=0, replayTransition=0, attachLogger=0, copy=0), p_logger_at_construct=0.0),
                        cfgs_plans_crossed, lambda t: 15 if t == "quick" else 60,
                        lambda ls, c: has(ls, lambda l: (l.kind == "did" and l.act[0] == "plan.append") or (l.kind == "api" and l.op == "plan.append")), monitor_ids=["C10"])
    engine.run_machine(run, spec2)
    # ... programs that use serialization (save/load between instances) while plans / history / logging vary, and programs that use transition
    # history (replayEnter / replayTransition on a second instance) while plans / serialization / logging vary
    def cfgs_serial_crossed(tier, rng):
        out = []
        combos = [(pl, h, lg) for pl in (0, 1) for h in (0, 1) for lg in ("off", "on")]
        if tier == "quick": combos = [combos[i] for i in (0, 2, 5, 7)]
        for k, (pl, h, lg) in enumerate(combos):
            out.append(cfgmod.make(n=[3, 5, 2, 9][k % 4], head=k % 2, manual=(k // 2) % 2, limit=2, cap=2, payload=0, plans=pl, serial=1, history=h, log=lg))
        return out
    spec3 = MachineSpec("C19", T.p_all, P_SERIAL.with_(w_ops=dict(plan_append=0, succeed=0, replayTransition=0, attachLogger=0, copy=0), p_logger_at_construct=0.0),
                        cfgs_serial_crossed, lambda t: 15 if t == "quick" else 60, lambda ls, c: has(ls, lambda l: l.kind == "api" and l.op == "loadfrom"), monitor_ids=["C12"])
    engine.run_machine(run, spec3)
    def cfgs_history_crossed(tier, rng):
        out = []
        combos = [(pl, sr, lg) for pl in (0, 1) for sr in (0, 1) for lg in ("off", "on")]
        if tier == "quick": combos = [combos[i] for i in (1, 2, 4, 7)]
        for k, (pl, sr, lg) in enumerate(combos):
            out.append(cfgmod.make(n=[3, 4, 2, 5][k % 4], head=(k + 1) % 2, manual=k % 2, limit=2, cap=2, payload=0, plans=pl, serial=sr, history=1, log=lg))
        return out
    spec4 = MachineSpec("C19", T.p_all, P_REPL.with_(w_ops=dict(loadfrom=0, attachLogger=0, copy=0, plan_append=0, succeed=0), p_logger_at_construct=0.0),
                        cfgs_history_crossed, lambda t: 15 if t == "quick" else 60, lambda ls, c: has(ls, lambda l: l.kind == "api" and l.op.startswith("replay")), monitor_ids=["C11"])
    engine.run_machine(run, spec4)
    run.samples = run.samples[:2] + [dict(compile_job="%s -std=%s -fsyntax-only %s matrix_tu.cpp (%s header)" % (jobs[5][2], jobs[5][1], " ".join(mask_flags(names, jobs[5][0])), jobs[5][5]))]
    return dict(level="other", exhaustive=(tier != "quick"),
                rule="(1) -fsyntax-only of an API-covering translation unit for switch masks x {C++11,14,17,20} x {g++, clang++} x activation x payload x header variant "
                     "(quick: all 256 masks each with one rotating choice of the other dimensions + FFSM2_ENABLE_ALL; thorough: the complete product, 16384 + 64 compilations); "
                     "(2) tools/join.py on a scratch copy, byte comparison with the shipped header; (3) a feature-neutral scenario built and run under switch masks, digests compared; "
                     "(4) feature-neutral generated scripts on the machine harness under plans/serialization/history/log/structure-report/debug-type/typeindex combinations, compared with the model; "
                     "(5) programs that use one feature (plans; save/load between instances; replay on a second instance) while the other switches vary, compared with the model under the same switches",
                explanation="Coq part: feature non-interference of logging, plans, serialization and transition history over all histories (Properties_C19.v). 'Every combination compiles' and 'the shipped "
                            "header is the amalgamation' are facts about compilers and files that no model expresses: decided by complete enumeration of the finite configuration space (thorough) and byte comparison. Level 'other'.")

CHECKS["C19"] = check_C19
