"""Re-run a stored replay: the script on the implementation (rebuilt from /repo's working tree) and on the model."""
import json, os
from . import common, cfg as cfgmod, corr, engine, monitors, trace as T, units, unitcheck

def replay(path):
    r = json.load(open(path))
    pid = r.get("property"); script = r.get("script", "")
    print("property %s, kind %s" % (pid, r.get("kind")))
    print("reason: %s" % r.get("reason", "")[:2000])
    if not script:
        print("(no script: the replay names a proof obligation or a build)"); return 0
    if script.startswith("cfg "):
        c = engine.cfg_from_line(script.split("\n")[0])
        status = 0
        for variant in ("include", "development"):
            b, log = cfgmod.build(c, variant)
            if not b: print("harness does not build (%s): %s" % (variant, log[-800:])); status = 1; continue
            kind, detail, out, mout, i = corr.compare(b, script, corr.proj_all)
            print("[%s] model vs implementation, whole trace: %s %s" % (variant, kind, detail))
            for mid in ([pid] if pid in monitors.MONITORS else []):
                rej = monitors.run_monitors(mid, out, c)
                print("[%s] %s monitor on the implementation trace: %s" % (variant, mid, "accepts" if not rej else "REJECTS: " + rej[1]))
                if rej: status = 1
            if kind != "agree": status = 1
        return status
    if script.split(" ")[0] in unitcheck.ORACLES:
        status = 0
        for variant in ("include", "development"):
            b, log = units.build(variant)
            if not b: print("unit harness does not build (%s)" % variant); status = 1; continue
            rc, out, err, mrc, mout, merr = units.run_units(b, [script])
            it = units.split_tests(out); kind, cap = script.split(" ")[0], int(script.split(" ")[1])
            rej = unitcheck.ORACLES[kind](cap, it[0][1:]) if it else "no output"
            print("[%s] oracle: %s ; model agrees: %s" % (variant, rej or "accepts", out == mout))
            if rej or out != mout: status = 1
        return status
    print(script); return 0
