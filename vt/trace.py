"""Parsing of the canonical trace text (DESIGN.md appendix A) and per-property projections."""
import re

FIELD = re.compile(r"(\w+)=(\S*)")

class Line:
    __slots__ = ("raw", "kind", "inst", "who", "rec", "meth", "f", "op", "args", "phase", "ret", "what", "res", "act")
    def __init__(self, raw):
        self.raw = raw; self.kind = None; self.inst = None; self.who = None; self.rec = None; self.meth = None
        self.f = {}; self.op = None; self.args = []; self.phase = None; self.ret = None; self.what = None; self.res = None; self.act = None

def parse_line(raw):
    l = Line(raw); t = raw.split(" ")
    k = t[0]; l.kind = k
    if k == "cb":
        l.inst = int(t[1]); l.who = t[2]; l.rec = t[3]; l.meth = t[4]
        l.f = dict(FIELD.findall(raw))
    elif k == "obs":
        l.inst = int(t[1]); l.f = dict(FIELD.findall(raw))
    elif k == "api":
        l.op = t[1]; l.inst = int(t[2])
        if t[-1] == "begin":
            l.phase = "begin"; l.args = t[3:-1]
        else:
            l.phase = "end"; l.args = t[3:-2]; l.ret = t[-1][4:]
    elif k == "log":
        l.inst = int(t[1]); l.what = t[2]; l.args = t[3:]
    elif k == "did":
        l.inst = int(t[1]); arrow = t.index("->"); l.act = t[2:arrow]; l.res = " ".join(t[arrow + 1:])
    elif k == "ctxfail":
        l.inst = int(t[1])
    return l

def parse(trace):
    return [parse_line(r) for r in trace.splitlines() if r]

def strip_payload(t):
    """o>d:p -> o>d ; '-' stays ; '-[o:p]' (an invalid transition with a left-over origin/payload) -> '-'"""
    if t.startswith("-"): return "-"
    return t.split(":")[0]

LIFE = ("enter", "exit", "reenter")
GUARD = ("entryGuard", "exitGuard")
PHASE = ("preUpdate", "update", "postUpdate", "preReact", "react", "postReact")
PLANCB = ("planSucceeded", "planFailed")

def cb_head(l):
    return "cb %d %s %s %s" % (l.inst, l.who, l.rec, l.meth)

def strip_payload_keep_origin(t):
    """o>d:p -> o>d ; '-' stays ; '-[o:p]' -> '-[o]' (the left-over origin of an invalid transition stays visible)"""
    if t.startswith("-["): return "-[" + t[2:].split(":")[0] + "]"
    if t.startswith("-"): return "-"
    return t.split(":")[0]

def fields(l, names, nopay=(), keep_origin=False):
    out = []
    for k in names:
        if k in l.f:
            v = l.f[k]
            if k in nopay: v = strip_payload_keep_origin(v) if keep_origin else strip_payload(v)
            out.append(" %s=%s" % (k, v))
    return "".join(out)

def api_line(l, with_ret=True):
    s = "api %s %d %s %s" % (l.op, l.inst, " ".join(l.args), l.phase)
    if l.phase == "end" and with_ret: s += " ret=" + (l.ret or "")
    return s

# ---- projections: Line -> str | None ----
def p_C01(l):
    if l.kind == "api": return api_line(l, False)
    if l.kind == "cb" and l.meth in LIFE: return cb_head(l) + fields(l, ["act"])
    if l.kind == "obs": return "obs %d" % l.inst + fields(l, ["active", "on", "act"])
    return None

def p_C02(l):
    if l.kind == "api": return api_line(l, False)
    if l.kind == "cb" and l.meth in GUARD: return cb_head(l) + fields(l, ["cur", "pend"], nopay=("cur", "pend"))
    if l.kind == "cb" and l.meth in LIFE: return cb_head(l) + fields(l, ["cur"], nopay=("cur",))
    if l.kind == "did" and l.act[0] in ("change", "changeWith"): return "did %d change %s -> %s" % (l.inst, l.act[1], l.res)
    if l.kind == "obs": return "obs %d" % l.inst + fields(l, ["active"])
    return None

def p_C03(l):
    if l.kind == "api": return api_line(l, False)
    if l.kind == "cb" and l.meth in GUARD: return cb_head(l) + fields(l, ["cur", "pend"], nopay=("cur", "pend"))
    if l.kind == "cb" and l.meth in LIFE: return cb_head(l)
    if l.kind == "did" and l.act[0] == "cancel": return "did %d cancel -> %s" % (l.inst, l.res)
    if l.kind == "did" and l.act[0] in ("change", "changeWith"): return "did %d change %s -> %s" % (l.inst, l.act[1], l.res)
    if l.kind == "obs": return "obs %d" % l.inst + fields(l, ["active"])
    return None

def p_C04(l):
    if l.kind == "api": return api_line(l, False)
    if l.kind == "cb" and l.meth in GUARD: return cb_head(l) + fields(l, ["pend"], nopay=("pend",))
    if l.kind == "cb" and l.meth in LIFE: return cb_head(l)
    if l.kind == "obs": return "obs %d" % l.inst + fields(l, ["active"])
    return None

def p_C05(l):
    if l.kind == "api": return api_line(l, False)
    if l.kind == "cb" and (l.meth in PHASE or l.meth == "query"): return cb_head(l) + fields(l, ["ev"])
    if l.kind == "cb" and (l.meth in GUARD or l.meth in LIFE): return cb_head(l)
    if l.kind == "obs": return l.raw
    return None

def p_C06(l):
    if l.kind == "api": return api_line(l, False)
    # an invalid transition that still carries an origin ("-[o:p]": clear() resets the destination only) keeps that origin here: what a guard reads
    # from currentTransition().origin before anything was accepted is part of the view
    if l.kind == "cb": return cb_head(l) + fields(l, ["id", "act", "req", "cur", "pend", "ctx"], nopay=("req", "cur", "pend"), keep_origin=True)
    if l.kind == "did" and l.act[0] in ("change", "changeWith"): return "did %d change %s -> %s" % (l.inst, l.act[1], l.res)
    if l.kind == "obs": return "obs %d" % l.inst + fields(l, ["active", "act"])
    if l.kind == "ctxfail": return l.raw
    return None

def p_C07(l):
    if l.kind == "api": return api_line(l, False)
    if l.kind == "cb" and l.meth in GUARD: return cb_head(l) + fields(l, ["pend", "cur"])
    if l.kind == "cb" and l.meth in ("enter", "reenter"): return cb_head(l) + fields(l, ["cur"])
    if l.kind == "cb": return cb_head(l) + fields(l, ["req"])
    if l.kind == "did" and l.act[0] in ("change", "changeWith", "plan.appendWith", "plan.append"): return l.raw
    if l.kind == "obs": return "obs %d" % l.inst + fields(l, ["active", "prev", "plan"])
    return None

def p_C08(l):
    if l.kind == "api": return api_line(l, True)
    if l.kind == "cb" and l.meth in PLANCB: return cb_head(l) + fields(l, ["plan"])
    if l.kind == "cb": return cb_head(l) + fields(l, ["req", "pend", "plan"])
    if l.kind == "did" and (l.act[0].startswith("plan.") or l.act[0] in ("succeed", "fail", "change", "changeWith", "cancel")): return l.raw
    if l.kind == "obs": return "obs %d" % l.inst + fields(l, ["active", "plan"])
    return None

p_C09 = p_C08

def p_C10(l):
    if l.kind == "api" and (l.op.startswith("plan.") or l.op in ("construct", "destroy", "copy", "enter", "exit", "loadfrom")): return api_line(l, True)
    if l.kind == "api": return api_line(l, False)
    if l.kind == "cb": return cb_head(l) + fields(l, ["plan"])
    if l.kind == "did" and l.act[0].startswith("plan."): return l.raw
    if l.kind == "obs": return "obs %d" % l.inst + fields(l, ["plan", "first", "last"])
    return None

def p_C11(l):
    if l.kind == "api": return api_line(l, True)
    if l.kind == "cb" and l.meth in GUARD: return cb_head(l) + fields(l, ["pend", "cur"])
    if l.kind == "cb" and l.meth in LIFE: return cb_head(l) + fields(l, ["cur"])
    if l.kind == "obs": return "obs %d" % l.inst + fields(l, ["active", "on", "prev"])
    return None

def p_C12(l):
    if l.kind == "api": return api_line(l, False)
    if l.kind == "cb" and (l.meth in GUARD or l.meth in LIFE): return cb_head(l)
    if l.kind == "obs": return "obs %d" % l.inst + fields(l, ["active", "on", "ser"])
    return None

def p_C14(l):
    if l.kind == "api": return api_line(l, False)
    if l.kind == "cb": return cb_head(l) + fields(l, ["id"])
    if l.kind == "did" and l.act[0] in ("change", "changeWith"): return "did %d change %s -> %s" % (l.inst, l.act[1], l.res)
    if l.kind == "obs": return "obs %d" % l.inst + fields(l, ["active", "act"])
    return None

def p_C15(l):
    if l.kind == "api": return api_line(l, False)
    if l.kind == "cb": return cb_head(l)
    return None

def p_C16(l):
    if l.kind == "api": return api_line(l, False)
    if l.kind == "log": return l.raw
    if l.kind == "cb": return cb_head(l)
    if l.kind == "did": return l.raw
    if l.kind == "obs": return "obs %d" % l.inst + fields(l, ["active", "plan", "prev"])
    return None

def p_C17(l):
    return re.sub(r" cnts=\S*", "", l.raw)        # the state objects' own counters are checked by the C17 monitor, the model does not have them

def p_all(l):
    return l.raw

def project(trace, proj):
    out = []
    for r in trace.splitlines():
        if not r: continue
        p = proj(parse_line(r))
        if p is not None: out.append(p)
    return out
