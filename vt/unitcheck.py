"""Unit-level checks (C10 task list, C13, C20): run generated operation lists on the real classes and on the
extracted model, compare test by test, and run an *abstract* oracle (a Python list / set / bit string -
independent of the Coq model) over the implementation's output to turn a disagreement into a concrete
failing input."""
import os, collections, hashlib
from . import common, units

# ---- abstract oracles over the implementation's output lines of one test ----
def _kv(line):
    d = {}
    for t in line.split(" "):
        if "=" in t:
            k, v = t.split("=", 1); d[k] = v
    return d

def _ret(line):
    for t in line.split(" "):
        if t.startswith("->"): return t[2:]
    return None

def oracle_bs(cap, lines):
    """the stream as a sequence of bits: writes append LSB first, reads consume in order"""
    nbytes = (cap + 7) // 8
    bits = []; wc = 0; rc = 0; snap = None
    def packed():
        by = [0] * nbytes
        for i, b in enumerate(bits):
            if b: by[i // 8] |= 1 << (i % 8)
        return "".join("%02x" % x for x in by)
    for l in lines:
        t = l.split(" "); d = _kv(l)
        if t[0] == "ws":
            start = int(t[1]) if len(t) > 1 and t[1].isdigit() else 0
            bits = [0] * start; wc = start                     # opened at a cursor: everything before it reads as zero (the constructor clears the buffer)
            if d.get("cursor") != str(start): return "a write stream opened at %d reports cursor %s" % (start, d.get("cursor"))
        elif t[0] == "dirty":
            continue
        elif t[0] == "w":
            w = int(t[1]); v = int(t[2])
            bits += [(v >> j) & 1 for j in range(w)]; wc += w
            if d.get("cursor") != str(wc): return "after writing %d bits the cursor is %s, expected %d" % (w, d.get("cursor"), wc)
        elif t[0] == "snap":
            snap = packed(); continue
        elif t[0] == "eq":
            e = packed() == snap
            if _ret(l) != ("10" if e else "01"): return "operator== / operator!= answer %s for buffers %s and %s" % (_ret(l), packed(), snap)
            continue
        elif t[0] == "rs":
            rc = int(t[1]) if len(t) > 1 and t[1].isdigit() else 0
        elif t[0] == "r":
            w = int(t[1])
            exp = sum(b << j for j, b in enumerate((bits + [0] * (rc + w))[rc:rc + w])); rc += w
            if _ret(l) != str(exp): return "read<%d> at bit %d returned %s, the bits written there are %d" % (w, rc - w, _ret(l), exp)
            if d.get("cursor") != str(rc): return "after reading %d bits the cursor is %s, expected %d" % (w, d.get("cursor"), rc)
        else: continue
        if d.get("data") != packed(): return "buffer is %s, the fields written so far pack to %s (op: %s)" % (d.get("data"), packed(), " ".join(t[:3]))
    return None

def oracle_bw(cap, lines):
    for l in lines:
        t = l.split(" ")
        if t[0] == "bw" and _ret(l) != str(int(t[1]).bit_length()):
            return "bitWidth(%s) = %s, expected %d" % (t[1], _ret(l), int(t[1]).bit_length())
    return None

def oracle_ba(cap, lines):
    s = set()
    for l in lines:
        t = l.split(" "); d = _kv(l); name = t[0]
        args = [int(x) for x in t[1:] if x.lstrip("-").isdigit()]
        if name == "set": s.add(args[0])
        elif name == "clr": s.discard(args[0])
        elif name == "get":
            if _ret(l) != ("1" if args[0] in s else "0"): return "get(%d) = %s, the set is %s" % (args[0], _ret(l), sorted(s))
        elif name == "setall": s = set(range(cap))
        elif name == "clrall": s = set()
        elif name == "and": s &= set(args)
        elif name == "andq": pass          # operator&: "every unit has a common bit" - compared with the model only
        elif name == "andall": pass
        elif name != "init": continue
        if "nz" in d:            # large arrays print their non-zero storage units as unit:byte
            by = {}
            for i in s: by[i // 8] = by.get(i // 8, 0) | (1 << (i % 8))
            expnz = "".join("%d:%d," % (u, by[u]) for u in sorted(by))
            if d.get("nz") != expnz: return "after '%s' the storage units are %s, expected %s" % (" ".join(t[:2]), d.get("nz"), expnz)
            if d.get("empty") != ("0" if s else "1"): return "after '%s' empty() = %s with members %s" % (" ".join(t[:2]), d.get("empty"), sorted(s)[:10])
            continue
        exp = "".join("1" if i in s else "0" for i in range(cap))
        if d.get("bits") != exp: return "after '%s' the members are %s, expected %s" % (" ".join(t[:2]), d.get("bits"), exp)
        if d.get("empty") != ("0" if s else "1"): return "after '%s' empty() = %s with members %s" % (" ".join(t[:2]), d.get("empty"), sorted(s))
    return None

def oracle_sa(cap, lines):
    a = [0] * cap
    for l in lines:
        t = l.split(" "); d = _kv(l); name = t[0]
        if name == "set": a[int(t[1])] = int(t[2])
        elif name == "get":
            if _ret(l) != str(a[int(t[1])]): return "[%s] = %s, last stored %d" % (t[1], _ret(l), a[int(t[1])])
        elif name in ("fill", "ctorfill"): a = [int(t[1])] * cap
        elif name == "clear": a = [0] * cap
        elif name == "isempty":
            if _ret(l) != ("1" if all(x == 0 for x in a) else "0"): return "empty() = %s for items %s" % (_ret(l), a)
        elif name != "init": continue
        if d.get("items") != ",".join(map(str, a)): return "after '%s' items are %s, expected %s" % (" ".join(t[:3]), d.get("items"), a)
        if d.get("count") != str(cap): return "count() = %s for capacity %d" % (d.get("count"), cap)
    return None

def oracle_sa8(cap, lines):
    a = [0] * cap
    for l in lines:
        t = l.split(" "); d = _kv(l); name = t[0]
        if name == "set": a[int(t[1])] = int(t[2]) % 256
        elif name == "get":
            if _ret(l) != str(a[int(t[1])]): return "[%s] = %s, last stored %d" % (t[1], _ret(l), a[int(t[1])])
        elif name in ("fill", "ctorfill"): a = [int(t[1]) % 256] * cap
        elif name == "clear": a = [255] * cap                       # filler<Short>() = INVALID_SHORT
        elif name == "isempty":
            if _ret(l) != ("1" if all(x == 255 for x in a) else "0"): return "empty() = %s for items %s (a one-byte item is 'empty' when it holds 255)" % (_ret(l), a)
        elif name != "init": continue
        if d.get("items") != ",".join(map(str, a)): return "after '%s' items are %s, expected %s" % (" ".join(t[:3]), d.get("items"), a)
        if d.get("count") != str(cap): return "count() = %s for capacity %d" % (d.get("count"), cap)
    return None

def oracle_da(cap, lines):
    a = []
    for l in lines:
        t = l.split(" "); d = _kv(l); name = t[0]
        args = [int(x) for x in t[1:] if x.lstrip("-").isdigit()]
        if name == "emp":
            if _ret(l) != str(len(a)): return "emplace returned %s with %d elements present" % (_ret(l), len(a))
            a.append(args[0])
        elif name in ("add", "addc"): a.append(args[0])
        elif name in ("emplv", "empc"):
            if _ret(l) != str(len(a)): return "emplace returned %s with %d elements present" % (_ret(l), len(a))
            a.append(a[args[0]])
        elif name == "addlv": a.append(a[args[0]])
        elif name == "get":
            if _ret(l) != str(a[args[0]]): return "[%d] = %s, expected %d" % (args[0], _ret(l), a[args[0]])
        elif name == "clear": a = []
        elif name in ("addall", "addall2"): a += args
        elif name in ("selfassign", "copyback", "copyctor"): pass            # copies of the array are the array
        elif name != "init": continue
        if "DISAGREE" in l: return "two ways of reading the array disagree: %s" % l
        if d.get("iter") != ",".join(map(str, a)): return "after '%s' iteration yields %s, expected %s" % (" ".join(t[:2]), d.get("iter"), a)
        if d.get("count") != str(len(a)) or d.get("empty") != ("0" if a else "1"): return "count/empty = %s/%s with %d elements" % (d.get("count"), d.get("empty"), len(a))
    return None

def oracle_tl(cap, lines):
    """a slot allocator: emplace returns a slot that was free (255 iff full), occupied slots keep their contents"""
    occ = {}
    for l in lines:
        t = l.split(" "); d = _kv(l); name = t[0]
        if name == "emp":
            r = int(_ret(l))
            if len(occ) >= cap:
                if r != 255: return "emplace on a full list (capacity %d) returned slot %d" % (cap, r)
            else:
                if r == 255: return "emplace with %d of %d slots occupied reported a full list" % (len(occ), cap)
                if r in occ: return "emplace returned slot %d, which is occupied" % r
                if r >= cap: return "emplace returned slot %d beyond the capacity %d" % (r, cap)
                occ[r] = (int(t[1]), int(t[2]))
        elif name == "rem": occ.pop(int(t[1]), None)
        elif name == "clear": occ = {}
        elif name != "init": continue
        if d.get("count") != str(len(occ)): return "count() = %s, %d slots are occupied" % (d.get("count"), len(occ))
        slots = d.get("slots", "").split(",")
        for i, (o, dd) in occ.items():
            if i < len(slots) and slots[i] != "%d>%d" % (o, dd): return "occupied slot %d holds %s, stored %d>%d" % (i, slots[i], o, dd)
    return None

ORACLES = dict(bs=oracle_bs, bw=oracle_bw, ba=oracle_ba, sa=oracle_sa, sa8=oracle_sa8, da=oracle_da, tl=oracle_tl)

def run(run, kinds_lines, variants=("include", "development"), extra_flags=(), wrapper=(), cxx="g++", opt="-O0", label=""):
    """kinds_lines: list of input lines. Records evaluations, divergences and violations on `run`."""
    lines = kinds_lines
    run.evaluations += len(lines)
    for variant in variants:
        b, log = units.build(variant, extra_flags=extra_flags, cxx=cxx, opt=opt)
        cfgname = "units_harness %s %s %s %s" % (variant, cxx, " ".join(extra_flags), label)
        if cfgname not in run.configs: run.configs.append(cfgname)
        if b is None:
            run.divergences.append(dict(what="the unit harness does not compile against the working tree (%s header)" % variant,
                                        reason=log[-3000:], cfg=cfgname, variant=variant))
            continue
        if os.environ.get("VERIF_WARM"): continue      # set-up: only build
        rc, out, err, mrc, mout, merr = units.run_units(b, lines, wrapper=wrapper)
        if mrc != 0:
            run.divergences.append(dict(what="unit model runner failed", reason=merr[-500:], cfg=cfgname)); continue
        itests = units.split_tests(out); mtests = units.split_tests(mout)
        if rc != 0:
            # find the first input line the implementation did not finish
            k = len(itests)
            bad = lines[min(k, len(lines) - 1)] if lines else ""
            run.violations.append(dict(reason="implementation run failed (exit status %s): %s" % (rc, err[-1500:]), script=bad, cfg=cfgname, variant=variant))
            continue
        for k, line in enumerate(lines):
            it = itests[k] if k < len(itests) else ["<missing>"]
            mt = mtests[k] if k < len(mtests) else ["<missing>"]
            kind, cap = line.split(" ")[0], int(line.split(" ")[1])
            run.traces_validated += 1
            run.dist[kind] += 1
            rej = ORACLES[kind](cap, it[1:]) if kind in ORACLES else None
            if rej and it == mt:
                # same results as the model, which is proved to satisfy the laws: the (unverified) abstract oracle is what is wrong
                run.dist["oracle-overruled-by-theorem"] += 1
                if len(run.notes) < 8: run.notes.append("oracle rejected results identical to the model's (oracle defect): %s" % rej[:200])
                rej = None
            if rej:
                run.violations.append(dict(reason="abstract oracle rejects the implementation's results: " + rej, script=line, cfg=cfgname,
                                           variant=variant, impl=it[:60], model=mt[:60], monitor=True))
            elif it != mt:
                i = next((j for j in range(min(len(it), len(mt))) if it[j] != mt[j]), min(len(it), len(mt)))
                run.divergences.append(dict(what="unit results comparison", script=line, cfg=cfgname, variant=variant,
                                            reason="result line %d: implementation [%s] model [%s]" % (i, it[i] if i < len(it) else "<end>", mt[i] if i < len(mt) else "<end>")))
            if variant == variants[0]:
                key = hashlib.sha256("\n".join(mt).encode()).hexdigest()
                if len(mt) > 3:
                    run.distinct.add(key)
                    if len(run.samples) < 3: run.samples.append(dict(input=line[:400], results=mt[:6]))
    # shortest first: the replay should be the smallest failing input of the run
    run.violations.sort(key=lambda v: len(v.get("script", "")))
    run.divergences.sort(key=lambda v: len(v.get("script", "")) or 10**9)
