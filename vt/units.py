"""Unit-level correspondence: operation lists for the containers and the bit stream, run on the real
classes (harness/units_harness.cpp) and on the extracted model (driver/units.ml)."""
import os, random
from . import common

CAPS = [1, 2, 3, 4, 5, 7, 8, 9, 12, 15, 16, 17, 24, 31, 32, 33, 63, 64, 65, 100, 128, 200, 248, 254, 255]
BIGCAPS = [256, 257, 1000, 2047, 2048, 2049, 4096, 5000, 65535, 65536, 70001]      # bit arrays only: the index type widens with the capacity

def build(variant, extra_flags=(), cxx="g++", opt="-O0"):
    src = os.path.join(common.HARNESS, "units_harness.cpp")
    return common.build_binary(src, list(extra_flags), variant, cxx=cxx, opt=opt)

def values_for(rng, w):
    full = (1 << w) - 1
    alt = int("01" * 16, 2) & full
    return [0, 1, full, alt, full ^ alt, rng.randrange(full + 1)]

# ---- generators: each returns a list of input lines ----
def gen_bitstream(rng, count, exhaustive_pairs=True):
    lines = []
    if exhaustive_pairs:
        # every (offset within a byte, width) pair, the field followed by all-ones so that a leaking mask shows
        for off in range(8):
            for w in range(1, 33):
                need = off + w + 8
                cap = min(c for c in CAPS if c >= min(need, 255) or c == 255)
                for v in values_for(rng, w)[:4]:
                    ops = ["ws"]
                    if off: ops.append("w %d %d" % (off, rng.randrange(1 << off)))
                    ops.append("w %d %d" % (w, v))
                    tail = min(8, cap - off - w)
                    if tail > 0: ops.append("w %d %d" % (tail, (1 << tail) - 1))
                    ops.append("rs")
                    if off: ops.append("r %d" % off)
                    ops.append("r %d" % w)
                    if tail > 0: ops.append("r %d" % tail)
                    lines.append("bs %d : %s" % (cap, " ; ".join(ops)))
    # filled to the last bit, the last field ending exactly at the end of the buffer (a loop that runs once too often touches the byte behind it)
    for cap in CAPS:
        for first in (0, 3):
            ops = ["ws"]; widths = []; used = 0
            if first and first < cap: widths.append(first); ops.append("w %d %d" % (first, (1 << first) - 1)); used = first
            while used < cap:
                w = min(cap - used, rng.choice([8, 16, 24, 32, 5, 12])); widths.append(w); ops.append("w %d %d" % (w, rng.choice(values_for(rng, w)))); used += w
            lines.append("bs %d : %s" % (cap, " ; ".join(ops + ["rs"] + ["r %d" % w for w in widths])))
    for _ in range(count):
        cap = rng.choice(CAPS)
        ops = ["ws"]; widths = []; used = 0
        while True:
            w = rng.choice([1, 1, 2, 3, 5, 7, 8, 9, 13, 16, 17, 24, 31, 32, rng.randint(1, 32)])
            if used + w > cap: break
            widths.append(w); used += w
            ops.append("w %d %d" % (w, rng.choice(values_for(rng, w))))
            if rng.random() < 0.1: break
        if rng.random() < 0.3 and used < cap:
            w = min(cap - used, 32); widths.append(w); ops.append("w %d %d" % (w, (1 << w) - 1))
        ops.append("rs")
        if rng.random() < 0.8:
            ops += ["r %d" % w for w in widths]
        else:
            # read back with a different but fitting split
            left = sum(widths)
            while left > 0:
                w = min(left, rng.randint(1, 32)); ops.append("r %d" % w); left -= w
        if rng.random() < 0.2: ops += ["ws", "w 1 1"] if cap >= 1 else []
        if rng.random() < 0.35:
            # the buffers' comparison operators: snapshot, then rewrite the same / a slightly different content and compare
            # the difference (if any) sits in the first byte only, in a later byte only, or in both: a comparison that looks at one end only must be caught
            w0 = min(cap, 8); mode = rng.choice(["same", "first", "later", "both"])
            v0 = rng.randrange(1 << w0); v1 = v0 if mode in ("same", "later") else v0 ^ (1 << rng.randrange(w0))
            tailw = min(cap - w0, 24); tv = rng.randrange(1 << tailw) if tailw else 0
            tv2 = tv if (mode in ("same", "first") or not tailw) else tv ^ (1 << rng.randrange(tailw))
            ops += ["ws", "w %d %d" % (w0, v0)] + (["w %d %d" % (tailw, tv)] if tailw else []) + ["snap", "eq", "ws", "w %d %d" % (w0, v1)] + (["w %d %d" % (tailw, tv2)] if tailw else []) + ["eq"]
        lines.append("bs %d : %s" % (cap, " ; ".join(ops)))
    # a reader opened before (some of) its data is written: it reads the buffer, not a snapshot of it
    for _ in range(max(6, count // 4)):
        cap = rng.choice([c for c in CAPS if c >= 16]); ops = ["ws", "rs"]; used = 0
        while used < cap:
            w = min(cap - used, rng.choice([1, 3, 7, 8, 9, 16, 32])); used += w
            ops += ["w %d %d" % (w, rng.choice([(1 << w) - 1, rng.randrange(1 << w), 1])), "r %d" % w]
            if rng.random() < 0.2: break
        lines.append("bs %d : %s" % (cap, " ; ".join(ops)))
    # streams opened at a cursor: the write stream's constructor clears the whole buffer whatever the cursor (so a reused, dirty buffer must
    # not leak into the fields), the read stream starts reading at its cursor
    for _ in range(max(6, count // 3)):
        cap = rng.choice([c for c in CAPS if c >= 9])
        start = rng.randrange(1, cap - 1)
        ops = ["dirty %d" % rng.choice([0xFF, 0xAA, 0x55, 0xEE]), "ws %d" % start]; widths = []; used = start
        while used < cap:
            w = min(cap - used, rng.choice([1, 3, 5, 8, 12, 16, 32])); widths.append(w); used += w
            ops.append("w %d %d" % (w, rng.choice([0, 0, 1, rng.randrange(1 << w)])))
            if rng.random() < 0.3: break
        ops.append("rs %d" % start); ops += ["r %d" % w for w in widths]
        ops += ["rs", "r %d" % min(start, 32)]                  # the bits before the start cursor read as zero
        lines.append("bs %d : %s" % (cap, " ; ".join(ops)))
    return lines

def gen_bitwidth(rng, count):
    vals = [0]
    for k in range(32):
        vals += [(1 << k) - 1, 1 << k, (1 << k) + 1]
    vals += [(1 << 32) - 1] + [rng.randrange(1 << 32) for _ in range(count)] + list(range(1, 260))
    vals = [v for v in vals if 0 <= v < (1 << 32)]
    return ["bw 0 : " + " ; ".join("v %d" % v for v in vals)]

def gen_bitarray(rng, count):
    lines = []
    for cap in CAPS:      # the set-all / clear-each history for every capacity
        ops = ["setall"] + ["clr %d" % i for i in range(cap)] + ["setall", "andall", "clrall", "andall"]
        lines.append("ba %d : %s" % (cap, " ; ".join(ops)))
    for cap in BIGCAPS:   # capacities whose unit index no longer fits 8 bits (above 2048) or whose index type is 16 / 32 bits wide
        hi = [cap - 1, cap - 2, cap // 2, (cap // 8) * 8 - 1] + [i for i in (255, 256, 257, 2047, 2048, 2049, 4095, 4096, 65535, 65536) if i < cap]
        ops = []
        for i in hi[:8]:
            ops += ["set %d" % i, "get %d" % i, "get %d" % (i % 2048), "get %d" % (i % 256), "clr %d" % i, "get %d" % i]
        ops += ["set %d" % (cap - 1), "set 5", "clr %d" % (cap - 1), "get 5", "setall", "clr 0", "clr %d" % (cap - 1), "and 1 %d" % (cap - 2), "clrall"]
        lines.append("ba %d : %s" % (cap, " ; ".join(ops)))
    for _ in range(count):
        cap = rng.choice(CAPS); ops = []
        def idx():
            r = rng.random()
            if r < 0.4: return rng.randrange(cap)
            b = rng.choice([0, 8, 16, 24, cap - 1, cap - 2, (cap // 8) * 8, (cap // 8) * 8 - 1])
            return min(max(b + rng.choice([-1, 0, 1]), 0), cap - 1)
        for _ in range(rng.randint(3, 25)):
            r = rng.random()
            if r < 0.3: ops.append("set %d" % idx())
            elif r < 0.5: ops.append("clr %d" % idx())
            elif r < 0.65: ops.append("get %d" % idx())
            elif r < 0.72: ops.append("setall")
            elif r < 0.77: ops.append("clrall")
            elif r < 0.87: ops.append("and " + " ".join(str(idx()) for _ in range(rng.randint(0, 5))))
            elif r < 0.93: ops.append("andq " + " ".join(str(idx()) for _ in range(rng.randint(0, 5))))
            else: ops.append("andall")
        lines.append("ba %d : %s" % (cap, " ; ".join(ops)))
    return lines

def gen_arrays(rng, count):
    lines = []
    for _ in range(count):
        cap = rng.choice([c for c in CAPS if c <= 65] + [255]); ops = []
        if rng.random() < 0.5:
            for _ in range(rng.randint(2, 20)):
                r = rng.random(); i = rng.choice([0, cap - 1, rng.randrange(cap)])
                if r < 0.5: ops.append("set %d %d" % (i, rng.randint(-1000, 1000)))
                elif r < 0.75: ops.append("get %d" % i)
                elif r < 0.85: ops.append("%s %d" % (rng.choice(["fill", "ctorfill"]), rng.choice([0, 0, rng.randint(-5, 5)])))
                elif r < 0.93: ops.append("isempty")
                else: ops.append("clear")
            if rng.random() < 0.4:     # one-byte items: values wrap to 0..255, and the filler value is 255, not 0
                ops = [o if not o.startswith(("fill", "ctorfill")) else "%s %d" % (o.split()[0], rng.choice([0, 255, 255, rng.randrange(256)])) for o in ops]
                lines.append("sa8 %d : %s" % (cap, " ; ".join(ops + ["isempty", "clear", "isempty", "get 0"])))
            else: lines.append("sa %d : %s" % (cap, " ; ".join(ops)))
        else:
            n = 0
            for _ in range(rng.randint(2, 25)):
                r = rng.random()
                if r < 0.35 and n < cap: ops.append("%s %d" % (rng.choice(["emp", "add", "addc"]), rng.randint(-99, 99))); n += 1
                elif r < 0.45 and n < cap and n > 0: ops.append("%s %d" % (rng.choice(["emplv", "empc", "addlv"]), rng.randrange(n))); n += 1
                elif r < 0.52 and n > 0: ops.append(rng.choice(["selfassign", "copyback", "copyctor"]))
                elif r < 0.65 and n > 0: ops.append("get %d" % rng.randrange(n))
                elif r < 0.72: ops.append("clear"); n = 0
                elif n < cap:
                    k = rng.randint(0, min(4, cap - n)); ops.append(rng.choice(["addall ", "addall2 "]) + " ".join(str(rng.randint(0, 9)) for _ in range(k))); n += k
            if cap == 255 and rng.random() < 0.5:       # fill to the brim: the uint8_t cursor must not wrap
                ops = ["emp %d" % (i % 7) for i in range(255)] + ["get 254"]
            lines.append("da %d : %s" % (cap, " ; ".join(ops)))
    return lines

def marathon_tasklist(cap, cycles):
    """fill the list, then free one slot and refill it `cycles` times: the list becomes full again and again (the
    free-list frontier must stay pinned; a drifting uint8_t counter would need > 250 fill-ups to wrap)"""
    ops = ["emp %d %d" % (i % 8, (i + 1) % 8) for i in range(cap)]
    for k in range(cycles):
        i = (k * 7 + 3) % cap
        ops += ["rem %d" % i, "emp %d %d" % (k % 8, (k + 3) % 8)]
        if k % 50 == 49: ops.append("emp 1 1")          # full: must be refused
    return "tl %d : %s" % (cap, " ; ".join(ops))

def gen_tasklist(rng, count, caps=None):
    lines = [marathon_tasklist(cap, 300) for cap in (2, 3, 5)] if caps is None else []
    for _ in range(count):
        cap = rng.choice(caps or [1, 2, 3, 4, 5, 8, 255]); ops = []; occ = set(); model_free = None
        # the generator only needs to know which slots are occupied: emplace reports the slot it used,
        # so it is tracked by replaying the same free-list discipline
        head = 0; tail = 0; last = 0; count_ = 0; nxt = {}
        def emplace():
            nonlocal head, tail, last, count_
            if count_ >= cap: return None
            idx = head
            if head != tail: head = nxt[idx]
            elif last < cap - 1: last += 1; head = tail = last
            else: last = cap; head = tail = 255
            count_ += 1; occ.add(idx); return idx
        def remove(i):
            nonlocal head, tail, count_
            if count_ < cap: nxt[i] = head; head = i
            else: head = tail = i
            count_ -= 1; occ.discard(i)
        steps = rng.randint(3, 40) if cap < 255 else rng.randint(3, 12)
        style = rng.choice(["mixed", "fill_drain", "full_cycle"])
        if style == "fill_drain" and cap <= 8:
            for _ in range(cap): ops.append("emp %d %d" % (rng.randrange(8), rng.randrange(8))); emplace()
            ops.append("emp 1 1")                      # full: reports INVALID, changes nothing
            order = sorted(occ); rng.shuffle(order)
            for i in order: ops.append("rem %d" % i); remove(i)
            for _ in range(cap): ops.append("emp %d %d" % (rng.randrange(8), rng.randrange(8))); emplace()
        elif style == "full_cycle" and cap <= 8:
            for _ in range(cap): ops.append("emp %d %d" % (rng.randrange(8), rng.randrange(8))); emplace()
            for _ in range(rng.randint(2, 6)):
                i = rng.choice(sorted(occ)); ops.append("rem %d" % i); remove(i)
                ops.append("emp %d %d" % (rng.randrange(8), rng.randrange(8))); emplace()
            if rng.random() < 0.5:
                ops.append("clear"); occ.clear(); head = tail = last = count_ = 0
                for _ in range(min(cap, 4)): ops.append("emp %d %d" % (rng.randrange(8), rng.randrange(8))); emplace()
        else:
            for _ in range(steps):
                r = rng.random()
                if r < 0.55: ops.append("emp %d %d" % (rng.randrange(8), rng.randrange(8))); emplace()
                elif r < 0.9 and occ:
                    i = rng.choice(sorted(occ)); ops.append("rem %d" % i); remove(i)
                elif r >= 0.93:
                    ops.append("clear"); occ.clear(); head = tail = last = count_ = 0
        lines.append("tl %d : %s" % (cap, " ; ".join(ops)))
    return lines

def enum_tasklist(cap, length):
    """every in-contract operation sequence of the given length over emplace / remove(occupied slot) / clear for a small capacity;
    which slots are occupied is tracked with the free-list discipline of the real list (most recently freed slot first, then fresh slots)"""
    import itertools
    out = []
    def rec(ops, occ, free, last, left):
        if left == 0:
            out.append("tl %d : %s" % (cap, " ; ".join(ops))); return
        # emplace (also when full: must be refused)
        if len(occ) < cap:
            if free: i = free[-1]; nf = free[:-1]; nl = last
            else: i = last; nf = free; nl = last + 1
            rec(ops + ["emp %d %d" % (len(ops) % 5, (len(ops) + 1) % 5)], occ | {i}, nf, nl, left - 1)
        else:
            rec(ops + ["emp 7 7"], occ, free, last, left - 1)
        for i in sorted(occ):
            rec(ops + ["rem %d" % i], occ - {i}, free + [i], last, left - 1)
        if left >= 2: rec(ops + ["clear"], set(), [], 0, left - 1)
    rec([], set(), [], 0, length)
    return out

def enum_bitarray(cap, length):
    """every operation sequence of the given length over a small alphabet (set/clear of the boundary indices, set-all, clear-all, and-assign)"""
    import itertools
    idx = sorted(set([0, cap - 1, min(7, cap - 1), min(8, cap - 1)]))
    alpha = ["set %d" % i for i in idx] + ["clr %d" % i for i in idx] + ["setall", "clrall", "and %d" % idx[-1], "andall"]
    return ["ba %d : %s" % (cap, " ; ".join(seq)) for seq in itertools.product(alpha, repeat=length)]

def run_units(binary, lines, wrapper=()):
    text = "\n".join(lines) + "\n"
    rc, out, err = common.run_proc(list(wrapper) + [binary], text, timeout=120)
    mrc, mout, merr = common.run_proc([common.units_runner()], text, timeout=300)
    return rc, out, err, mrc, mout, merr

def split_tests(out):
    tests = []; cur = None
    for l in out.splitlines():
        if l.startswith("test "):
            cur = [l]; tests.append(cur)
        elif cur is not None:
            cur.append(l)
    return tests
