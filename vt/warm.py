"""Pre-build the harness binaries of the quick tier (setup step; a cold cache only costs time, not correctness)."""
import random, hashlib, os
from . import common, cfg as cfgmod, props, units

def main():
    jobs = []
    for pid, spec in list(props.SPECS.items()) + [("C10", props.SPEC_C10_MACHINE)]:
        rng = random.Random(int(hashlib.sha256((spec.pid + "quick").encode()).hexdigest()[:8], 16))
        cs = spec.cfgs("quick", rng)
        for c in cs + [dict(c, tapi=1) for k, c in enumerate(cs) if c["n"] <= 5 and (k % 2 == 0 or (c["plans"] and c["payload"]))]:
            for v in spec.variants: jobs.append(("m", c, v, tuple(spec.extra_flags), spec.cxx, spec.opt))
    for c in props.cfgs_san("quick", random.Random(1)): jobs.append(("m", c, "include", tuple(props.SAN), "g++", "-O0"))
    for c in props.cfgs_copies("quick", random.Random(7)):
        for v in ("include", "development"): jobs.append(("m", c, v, (), "g++", "-O0"))
    for c in props.cfgs_features("quick", random.Random(1)):
        for v in ("include", "development"): jobs.append(("m", c, v, (), "g++", "-O0"))
    for (c, _s, _src) in props.plan_templates("quick"):
        for v in ("include", "development"): jobs.append(("m", c, v, (), "g++", "-O0"))
    import glob
    from . import engine
    for path in glob.glob(os.path.join(common.CORPUS, "*", "*.script")):
        try: c = engine.cfg_from_line(open(path).readline())
        except Exception: continue
        for v in ("include", "development"): jobs.append(("m", c, v, (), "g++", "-O0"))
    for v in ("include", "development"): jobs.append(("u", None, v, (), "g++", "-O0"))
    src = os.path.join(common.HARNESS, "dispatch_harness.cpp")
    for n in props.DP_QUICK:
        for h in (0, 1):
            for v in ("include", "development"): jobs.append(("d", (n, h), v, (), "g++", "-O0"))
    seen = set(); todo = []
    for j in jobs:
        k = repr(j)
        if k not in seen: seen.add(k); todo.append(j)
    def one(j):
        kind, c, v, fl, cxx, opt = j
        if kind == "m": return cfgmod.build(c, v, extra_flags=fl, cxx=cxx, opt=opt)
        if kind == "u": return units.build(v)
        return common.build_binary(src, ["-DH_N=%d" % c[0], "-DH_HEAD=%d" % c[1]], v)
    res = common.pmap(one, todo)
    bad = sum(1 for b, _ in res if b is None)
    print("warm-up: %d harness binaries (%d failed to build)" % (len(todo), bad))

if __name__ == "__main__":
    main()
