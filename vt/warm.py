"""Pre-build the harness binaries of the quick tier (setup step; a cold cache only costs time, not correctness).
Every check function is run once in build-only mode (VERIF_WARM: run_machine and the unit checks return after compiling, nothing is compared, no evidence is
written), so exactly the binaries the quick checks use end up in the content-addressed cache - whatever configurations the checks define."""
import os, sys

def main():
    os.environ["VERIF_WARM"] = "1"
    os.environ.setdefault("VERIF_EVIDENCE_DIR", "/var/tmp/verif-warm-evidence")
    from . import props, engine
    n = 0
    for pid in sorted(props.CHECKS):
        run = engine.Run(pid, "quick", 1)
        try:
            props.CHECKS[pid](run)
        except Exception as e:          # a check that cannot even be warmed up will say so itself when it is run
            print("warm-up of %s stopped: %r" % (pid, e))
        n += len(run.configs)
    print("warm-up: %d configurations built or found in the cache" % n)

if __name__ == "__main__":
    main()
